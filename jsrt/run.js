'use strict'
// Batch runner: one JSON job per input line, one JSON result per output line.
const readline = require('readline')
const rt = require('./rt.js')

function runJob(job) {
  if (job.op === 'syntax') {
    return Object.assign({ id: job.id }, rt.syntaxCheck(job.src))
  }
  if (job.op === 'eval') {
    // evaluate a plain JS expression with data D in scope (reference semantics for C03)
    try {
      const D = rt.decodeValue(job.data)
      const f = new Function('D', 'X', 'P', 'Y', 'REFSPREAD', 'ITEMS', '"use strict";return (' + job.expr + ')')
      const X = (a) => (a == null ? Object.create(null) : a)
      const P = (a) => (typeof a === 'function' ? a : () => {})
      const Y = (a) => (a == null ? '' : String(a))
      // array spread: arrays without holes, and strings (their characters); anything else (where JavaScript throws, or
      // array-likes that concat and the iteration protocol treat differently) is out of the reference's domain
      const REFSPREAD = (a) => {
        if (typeof a === 'string') return Array.from(a)
        if (!Array.isArray(a)) throw new Error('$SKIP spread of a non-array')
        for (let i = 0; i < a.length; i += 1) if (!(i in a)) throw new Error('$SKIP spread of a sparse array')
        return a
      }
      const ITEMS = (l) => { const r = rt.listItems(l); return r.items.map((v, i) => [v, r.indexes === null ? i : r.indexes[i]]) }
      return { id: job.id, value: rt.encodeValue(f(D, X, P, Y, REFSPREAD, ITEMS)) }
    } catch (e) {
      const msg = String(e && e.message)
      if (msg.startsWith('$SKIP')) return { id: job.id, skip: msg }
      return { id: job.id, error: msg }
    }
  }
  if (job.op === 'run') {
    const out = { id: job.id, trees: [], logs: [] }
    try {
      const G = rt.loadGroup(job.bundle)
      const gen = G[job.path]
      if (!gen) throw new Error('no template ' + job.path + ' in group')
      const procGen = gen(job.tmpl || '')
      if (!procGen) throw new Error('no sub template ' + job.tmpl)
      const log = job.log ? [] : null
      const r = new rt.Runtime(log)
      if (job.slotValues) r.slotValues = rt.decodeValue(job.slotValues)
      let inst = null
      let prevData = null
      for (const step of job.steps) {
        if (log) log.length = 0
        if ('changes' in step) {
          // data changes handed to the real runtime's template instance (tmpl/index.ts updateValues)
          const changes = step.changes.map((c) => {
            const path = c.path.map((x) => (/^(0|[1-9][0-9]*)$/.test(x) ? Number(x) : x))
            const v = rt.decodeValue(c.value)
            return c.index === undefined ? [path, v, undefined, undefined] : [path, v, c.index, c.del]
          })
          const newData = rt.decodeValue(step.data)
          inst.updateValues(newData, changes)
          if (!out.how) out.how = []
          // does the tree the runtime built cover the difference of the two data values (the premise of C06)?
          const viaMap = r.lastTree === 'binding-map'
          out.how.push(viaMap ? 'binding-map' : rt.covers(r.lastTree, prevData, newData) ? 'tree' : 'tree-not-covering')
          prevData = newData
        } else if ('create' in step && job.mode) {
          inst = r.realInstance(procGen, job.mode)
          prevData = rt.decodeValue(step.create)
          inst.initValues(prevData)
        } else if ('create' in step) {
          const res = r.create(procGen, rt.decodeValue(step.create))
          const B = {}
          if (res.B) for (const k of Object.keys(res.B)) B[k] = res.B[k].length
          out.B = B
        } else if ('update' in step) {
          if (step.slotValues) r.slotValues = rt.decodeValue(step.slotValues)
          r.slotValueTrees = step.slotValueTrees === undefined ? undefined : rt.decodeTree(step.slotValueTrees, job.arrayTrees)
          r.update(procGen, rt.decodeValue(step.update), step.U === undefined ? undefined : rt.decodeTree(step.U, job.arrayTrees))
        } else if ('bmap' in step) {
          const ok = r.bindingMapUpdate(step.bmap, rt.decodeValue(step.data))
          out.bmapOk = ok
        }
        out.trees.push(r.root.children.map(rt.serializeNode))
        if (log) out.logs.push(log.map((e) => e.map((x, i) => (i === 0 ? x : rt.encodeValue(x)))))
      }
    } catch (e) {
      out.error = String(e && e.stack ? e.stack.split('\n').slice(0, 3).join(' | ') : e)
    }
    return out
  }
  return { id: job.id, error: 'unknown op' }
}

const rl = readline.createInterface({ input: process.stdin, crlfDelay: Infinity })
const outBuf = []
rl.on('line', (line) => {
  if (!line) return
  let job
  try { job = JSON.parse(line) } catch (e) { outBuf.push(JSON.stringify({ error: 'bad json' })); return }
  outBuf.push(JSON.stringify(runJob(job)))
  if (outBuf.length > 2000) { process.stdout.write(outBuf.join('\n') + '\n'); outBuf.length = 0 }
})
rl.on('close', () => { if (outBuf.length) process.stdout.write(outBuf.join('\n') + '\n') })
