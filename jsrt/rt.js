'use strict'
// Reference protocol runtime for glass-easel generated template code.
// Written from glass-easel/src/tmpl/proc_gen_wrapper.ts (creation / update of DefineChildren,
// T/E/B/F/S/J callbacks, R.* setters) and range_list_diff.ts (list items; positional diff for
// key-less lists, key matching with conservative `true` item trees for keyed lists).
// No components, no dynamic slots: every element is a plain node that records what it receives.
// This file is TRUSTED (modelled, not verified): it stands in for the TypeScript runtime.

const vm = require('vm')

// The list manager of the REAL runtime (glass-easel/src/tmpl/range_list_diff.ts with its types erased by
// lib/tsstrip.py, regenerated from /repo on every run): used for every wx:for when the environment
// names the generated module; the hand-written diffList below is the fallback for stand-alone use.
let RealRangeListManager = null
const listWarnings = []
if (process.env.GE_RLD_JS) {
  RealRangeListManager = require(process.env.GE_RLD_JS)((msg) => { listWarnings.push(String(msg)) }).RangeListManager
}
// The template instance of the REAL runtime (class GlassEaselTemplateInstance of glass-easel/src/tmpl/index.ts, translated
// like the list manager): its `updateValues` turns data changes (replace / splice) into the update path tree, or takes
// the binding-map shortcut for a single top-level change, and then drives this reference runtime.
let RealTemplateInstance = null
let RealUpdateMode = null
if (process.env.GE_IDX_JS) {
  const m = require(process.env.GE_IDX_JS)({ ProcGenWrapper: null })
  RealTemplateInstance = m.GlassEaselTemplateInstance
  RealUpdateMode = m.BindingMapUpdateEnabled
}
const shadowRootStub = { getHostNode() { return null } }
// the part of glass-easel's Element that RangeListManager uses (element.ts: insertChildSingleOperation /
// insertChildBatchInsertion / insertChildBatchRemoval, child list handling only)
function elemAdapter(n) {
  return {
    get childNodes() { return n.children },
    insertChildren(children, index) {
      const rel = index >= 0 ? n.children[index] : undefined
      if (rel) n.children.splice(index, 0, ...children)
      else n.children.push(...children)
    },
    removeChildren(index, count) { n.children.splice(index, count) },
    insertChildAt(child, index) {
      let pos = index
      const old = n.children.indexOf(child)
      if (old >= 0) {
        n.children.splice(old, 1)
        if (old < pos) pos -= 1
      }
      if (pos < 0) n.children.push(child)
      else n.children.splice(pos, 0, child)
    },
  }
}
function guardListSize(list) {
  if (typeof list === 'number' && list > 10000) throw new Error('list too long for the reference runtime')
}

function mkNode(kind, extra) {
  return Object.assign({ kind, children: [] }, extra)
}

function listItems(dataList) {
  let items
  let indexes
  if (Array.isArray(dataList)) {
    items = dataList
    indexes = null
  } else if (typeof dataList === 'object' && dataList !== null) {
    const k = Object.keys(dataList)
    items = k.map((key) => dataList[key])
    indexes = k
  } else if (typeof dataList === 'string') {
    items = []
    for (let i = 0; i < dataList.length; i += 1) items.push(dataList[i])
    indexes = null
  } else if (typeof dataList === 'number') {
    const length = Number.isSafeInteger(dataList) && dataList >= 0 && dataList < 2 ** 32 ? dataList : 0
    if (length > 10000) throw new Error('list too long for the reference runtime')
    items = []
    for (let i = 0; i < length; i += 1) items.push(i)
    indexes = null
  } else {
    items = []
    indexes = null
  }
  return { items, indexes }
}

function rawKeysOf(keyName, items) {
  // as RangeListManager.updateKeys (shared keys get "--n" suffixes)
  const rawKeys = new Array(items.length)
  if (keyName === null) return rawKeys
  const keyMap = Object.create(null)
  let shared
  for (let i = 0; i < items.length; i += 1) {
    const item = items[i]
    const f = keyName === '*this' ? item : item === undefined || item === null ? undefined : item[keyName]
    const rawKey = f !== undefined && f !== null ? String(f) : ''
    rawKeys[i] = rawKey
    if (keyMap[rawKey] !== undefined) {
      if (!shared) shared = Object.create(null)
      shared[rawKey] = [keyMap[rawKey], i]
      delete keyMap[rawKey]
    } else if (shared && shared[rawKey]) {
      shared[rawKey].push(i)
    } else {
      keyMap[rawKey] = i
    }
  }
  if (shared) {
    for (const key of Object.keys(shared)) {
      let inc = 0
      for (const index of shared[key]) {
        while (keyMap[`${key}--${inc}`] !== undefined) inc += 1
        const k = `${key}--${inc}`
        keyMap[k] = index
        rawKeys[index] = k
      }
    }
  }
  return rawKeys
}

class Runtime {
  constructor(log) {
    this.log = log || null // optional array receiving every setter call (C11/C12 observe arguments)
    this.root = mkNode('root', {})
    this.R = this.makeWrapper()
  }

  rec(name, args) {
    if (this.log) this.log.push([name].concat(args))
  }

  makeWrapper() {
    const self = this
    const set = (N, chan, name, rec) => {
      if (!N) return
      if (!N.attrs) N.attrs = []
      const key = chan + ':' + name
      const i = N.attrs.findIndex((a) => a[0] === key)
      if (i >= 0) N.attrs[i] = [key, rec]
      else N.attrs.push([key, rec])
    }
    return {
      c(N, v) { self.rec('c', [v]); set(N, 'c', '', { v }) },
      y(N, v) {
        self.rec('y', [v])
        // `style` may be a property of a component (proc_gen_wrapper.ts `y`: replaceProperty): queued like `r`
        if (self.bmMode && N) {
          if (!N.pending) N.pending = []
          N.pending.push(() => set(N, 'y', '', { v }))
          return
        }
        set(N, 'y', '', { v })
      },
      i(N, v) { self.rec('i', [v]); set(N, 'i', '', { v }) },
      s(N, v) { self.rec('s', [v]); if (N) N.slot = v },
      d(N, name, v) { self.rec('d', [name, v]); set(N, 'd', name, { v }) },
      m(N, name, v) { self.rec('m', [name, v]); set(N, 'm', name, { v }) },
      r(N, name, v, modelPath, generalPath) {
        self.rec('r', [name, v, modelPath, generalPath])
        // as the runtime: the model-binding listener is only replaced when a path (or null) is given
        let model = modelPath
        if (model === undefined && N && N.attrs) {
          const old = N.attrs.find((a) => a[0] === 'r:' + name)
          if (old) model = old[1].model
        }
        // as the runtime: while binding-map updaters run, a property change of a component is only queued; the wrapper
        // applies the queue of an element when the updater reports the element through its `elementUpdated` callback
        // (the reference runtime takes every element for a component: the most demanding reading)
        if (self.bmMode && N) {
          if (!N.pending) N.pending = []
          N.pending.push(() => set(N, 'r', name, { v, model, lv: generalPath }))
          return
        }
        set(N, 'r', name, { v, model, lv: generalPath })
      },
      a(N, name, v) { self.rec('a', [name, v]); set(N, 'a', name, { v }) },
      wl(N, name, v) { self.rec('wl', [name, v]); set(N, 'wl', name, { v }) },
      p(N, name, v, generalPath) { self.rec('p', [name, v, generalPath]); set(N, 'p', name, { v, lv: generalPath }) },
      l(N, name, v, generalPath) { self.rec('l', [name, v, generalPath]); set(N, 'l', name, { v, lv: generalPath }) },
      v(N, evName, v, final, mutated, capture, isDynamic, generalPath) {
        self.rec('v', [evName, v, final, mutated, capture, isDynamic, generalPath])
        // as the runtime: a dynamic listener replaces the previous dynamic listener of that event name,
        // static listeners are simply added
        if (isDynamic) {
          // (listeners registered with different options do not replace each other: removeListener is
          // called with the new options)
          const opt = (final ? 'f' : '') + (mutated ? 'm' : '') + (capture ? 'c' : '')
          set(N, 'v', evName + ':dyn' + opt, { v, final, mutated, capture, isDynamic, lv: generalPath })
        } else if (N) {
          if (!N.attrs) N.attrs = []
          N.attrs.push(['v:' + evName + ':static', { v, final, mutated, capture, isDynamic, lv: generalPath }])
        }
      },
      setFnFilter() {},
      setEventListenerWrapper() {},
      devArgs(N) { if (!N.dev) N.dev = {}; return N.dev },
    }
  }

  // ---- creation (handleChildrenCreation) ----
  createChildren(children, slotValues) {
    const out = []
    const self = this
    children(
      true,
      (text, textInit) => {
        self.rec('T', [text])
        const n = mkNode('text', { text })
        if (textInit) textInit(n)
        out.push(n)
      },
      (tag, generics, propertyInit, ch, slot, slotValueNames) => {
        self.rec('E', [tag, generics, slot, slotValueNames])
        const n = mkNode('elem', { tag, generics, slot, slotValueNames })
        propertyInit(n, true)
        // children of an element with slot value names are instantiated once with the
        // slot values the test supplies (a static stand-in for dynamic slots)
        n.children = self.createChildren(ch, self.slotValuesFor(n))
        out.push(n)
      },
      (branchKey, branchFunc) => {
        self.rec('B', [branchKey])
        const n = mkNode('if', { key: branchKey })
        // as the runtime: nested define-children functions are called without slot values
        n.children = self.createChildren(branchFunc, undefined)
        out.push(n)
      },
      (list, key, listU, lvaluePath, itemCallback) => {
        self.rec('F', [list, key, lvaluePath])
        const n = mkNode('for', { keyName: key })
        if (RealRangeListManager) {
          guardListSize(list)
          Object.defineProperty(n, 'keyList', { enumerable: false, writable: true, value: null })
          n.keyList = new RealRangeListManager(key, list, elemAdapter(n), shadowRootStub,
            (item, index) => self.newListItem(item, index, lvaluePath, itemCallback))
          out.push(n)
          return
        }
        const { items, indexes } = listItems(list)
        n.rawKeys = rawKeysOf(key, items)
        n.oldIndexes = indexes
        for (let i = 0; i < items.length; i += 1) {
          n.children.push(self.newListItem(items[i], indexes === null ? i : indexes[i], lvaluePath, itemCallback))
        }
        out.push(n)
      },
      (slotName, slotValueInit, slot) => {
        self.rec('S', [slotName, slot])
        const n = mkNode('slot', { name: slotName === undefined || slotName === null ? '' : String(slotName), slot })
        if (slotValueInit) slotValueInit(n)
        out.push(n)
      },
      (ch, slot) => {
        self.rec('J', [slot])
        const n = mkNode('virtual', { slot })
        n.children = self.createChildren(ch, undefined)
        out.push(n)
      },
      slotValues ? slotValues.values : undefined,
      undefined,
    )
    return out
  }

  slotValuesFor(n) {
    if (!n.slotValueNames) return undefined
    return { values: this.slotValues || {}, trees: undefined }
  }

  newListItem(item, index, lvaluePath, itemCallback) {
    const n = mkNode('for-item', {})
    n.children = this.createChildren((isCreation, T, E, B, F, S, J) => {
      itemCallback(true, item, index, undefined, undefined, lvaluePath ? [...lvaluePath, index] : null, T, E, B, F, S, J)
    })
    return n
  }

  // ---- update (handleChildrenUpdate) ----
  updateChildren(children, parent, slotValues) {
    let index = 0
    const childNodes = parent.children
    const self = this
    children(
      false,
      (text) => {
        const n = childNodes[index]
        index += 1
        if (!n) return
        if (text !== undefined) n.text = text
      },
      (tag, generics, propertyInit, ch, slot, slotValueNames) => {
        const n = childNodes[index]
        index += 1
        if (!n) return
        propertyInit(n, false)
        if (slot !== undefined) n.slot = slot
        self.updateChildren(ch, n, n.slotValueNames ? { values: self.slotValues || {}, trees: self.slotValueTrees } : undefined)
      },
      (branchKey, branchFunc) => {
        const n = childNodes[index]
        index += 1
        if (!n) return
        if (n.key === branchKey) {
          self.updateChildren(branchFunc, n, undefined)
        } else {
          const nn = mkNode('if', { key: branchKey })
          nn.children = self.createChildren(branchFunc, undefined)
          childNodes[index - 1] = nn
        }
      },
      (list, key, listU, lvaluePath, itemCallback) => {
        const n = childNodes[index]
        index += 1
        if (!n) return
        self.diffList(n, list, key, listU, lvaluePath, itemCallback)
      },
      (slotName, slotValueInit, slot) => {
        const n = childNodes[index]
        index += 1
        if (!n) return
        if (slotName !== undefined) n.name = slotName === null ? '' : String(slotName)
        if (slot !== undefined) n.slot = slot
        if (slotValueInit) slotValueInit(n)
      },
      (ch, slot) => {
        const n = childNodes[index]
        index += 1
        if (!n) return
        if (slot !== undefined) n.slot = slot
        self.updateChildren(ch, n, undefined)
      },
      slotValues ? slotValues.values : undefined,
      slotValues ? slotValues.trees : undefined,
    )
  }

  diffList(n, list, keyName, oriU, lvaluePath, itemCallback) {
    if (RealRangeListManager) {
      guardListSize(list)
      const me = this
      n.keyList.diff(list, oriU, elemAdapter(n),
        (item, index) => me.newListItem(item, index, lvaluePath, itemCallback),
        (item, index, u, indexChanged, node) => {
          if (!node) return
          me.updateChildren((isCreation, T, E, B, F, S, J) => {
            itemCallback(false, item, index, u, indexChanged ? true : undefined,
              lvaluePath ? [...lvaluePath, index] : null, T, E, B, F, S, J)
          }, node)
        })
      return
    }
    const { items, indexes } = listItems(list)
    const oldRawKeys = n.rawKeys
    const oldIndexes = n.oldIndexes
    const newRawKeys = rawKeysOf(keyName, items)
    n.rawKeys = newRawKeys
    n.oldIndexes = indexes
    const self = this
    const updateItem = (item, index, u, indexChanged, node) => {
      if (!node) return
      self.updateChildren((isCreation, T, E, B, F, S, J) => {
        itemCallback(false, item, index, u, indexChanged ? true : undefined,
          lvaluePath ? [...lvaluePath, index] : null, T, E, B, F, S, J)
      }, node)
    }
    const fast = keyName === null || oriU === undefined
    if (fast) {
      // positional matching, item tree = tree[index] (RangeListManager fast comparison)
      let i = 0
      while (i < oldRawKeys.length && i < newRawKeys.length) {
        const index = indexes === null ? i : indexes[i]
        const oldIndex = oldIndexes === null ? i : oldIndexes[i]
        const u = oriU === true || oriU === undefined ? oriU : oriU[index]
        updateItem(items[i], index, u, index !== oldIndex, n.children[i])
        i += 1
      }
      if (i < oldRawKeys.length) {
        n.children.splice(i, oldRawKeys.length - i)
      } else {
        for (; i < newRawKeys.length; i += 1) {
          n.children.push(self.newListItem(items[i], indexes === null ? i : indexes[i], lvaluePath, itemCallback))
        }
      }
      return
    }
    // keyed: match by key; reused items are updated with a conservative `true` tree
    const oldPos = Object.create(null)
    oldRawKeys.forEach((k, i) => { oldPos[k] = i })
    const oldChildren = n.children
    const next = []
    for (let i = 0; i < newRawKeys.length; i += 1) {
      const k = newRawKeys[i]
      const index = indexes === null ? i : indexes[i]
      if (oldPos[k] !== undefined && oldChildren[oldPos[k]]) {
        const node = oldChildren[oldPos[k]]
        oldChildren[oldPos[k]] = null
        const oldIndex = oldIndexes === null ? oldPos[k] : oldIndexes[oldPos[k]]
        updateItem(items[i], index, true, index !== oldIndex, node)
        next.push(node)
      } else {
        next.push(self.newListItem(items[i], index, lvaluePath, itemCallback))
      }
    }
    n.children = next
  }

  // ---- entry points ----
  create(procGen, data) {
    const r = procGen(this.R, true, data, undefined)
    this.root.children = this.createChildren(r.C)
    this.bindingMap = r.B
    return r
  }

  update(procGen, data, U) {
    const r = procGen(this.R, false, data, U)
    this.updateChildren(r.C, this.root)
    return r
  }

  // an instance of the real runtime's template-instance class whose ProcGenWrapper is this reference runtime
  realInstance(procGen, mode) {
    if (!RealTemplateInstance) throw new Error('the translated tmpl/index.ts is not available')
    const inst = Object.create(RealTemplateInstance.prototype)
    inst.forceBindingMapUpdate = mode === 'enabled' ? RealUpdateMode.Enabled : mode === 'forced' ? RealUpdateMode.Forced : RealUpdateMode.Disabled
    inst.bindingMapGen = undefined
    const self = this
    self.lastTree = undefined
    inst.procGenWrapper = {
      create(data) { return self.create(procGen, data).B },
      update(data, tree) { self.lastTree = tree; self.update(procGen, data, tree) },
      bindingMapUpdate(field, data, gen) {
        const updaters = gen[field]
        if (!updaters) return false
        self.lastTree = 'binding-map'
        self.runUpdaters(updaters, data, field)
        return true
      },
    }
    return inst
  }

  bindingMapUpdate(field, data) {
    const updaters = this.bindingMap && this.bindingMap[field]
    if (!updaters) return false
    this.runUpdaters(updaters, data, field)
    return true
  }

  // ProcGenWrapper.bindingMapUpdate: the queued property changes of an element are applied when a different element is
  // reported, and those of the last reported element at the end
  runUpdaters(updaters, data, field) {
    const apply = (n) => {
      if (n && n.pending) {
        const q = n.pending
        delete n.pending
        for (const f of q) f()
      }
    }
    let prev = null
    this.bmMode = true
    try {
      for (let i = 0; i < updaters.length; i += 1) {
        if (!updaters[i]) throw new Error('binding map slot ' + i + ' of field ' + field + ' is empty')
        updaters[i](data, (elem) => {
          if (prev !== null && elem !== prev) apply(prev)
          prev = elem
        }, (node, v) => { node.text = v })
      }
    } finally {
      this.bmMode = false
    }
    apply(prev)
  }
}

// does the update path tree `t` mark at least every path on which `a` and `b` differ?  (the premise of C06; descent as the
// generated code does it with Z: `true` covers everything, marks may be inherited from a prototype array)
function covers(t, a, b, depth) {
  depth = depth || 0
  if (t === true) return true
  if (Object.is(a, b)) return true
  const isObj = (x) => typeof x === 'object' && x !== null
  if (!isObj(a) || !isObj(b) || Array.isArray(a) !== Array.isArray(b)) {
    if (typeof a === 'function' && typeof b === 'function' && a.$name === b.$name) return true
    return false
  }
  if (depth > 40) return false
  const sub = (k) => (t ? t[k] : undefined)
  const keys = new Set([...Object.keys(a), ...Object.keys(b)])
  if (Array.isArray(a) && a.length !== b.length) keys.add('length')
  for (const k of keys) {
    const av = k === 'length' && Array.isArray(a) ? a.length : a[k]
    const bv = k === 'length' && Array.isArray(b) ? b.length : b[k]
    const st = sub(k)
    if (k === 'length') {
      if (!st) return false
      continue
    }
    if (!covers(st === undefined || st === null || st === false || typeof st === 'number' ? undefined : st, av, bv, depth + 1)) return false
  }
  return true
}

// ---- value (de)serialisation: JSON with markers for what JSON cannot carry ----
function encodeValue(v, depth) {
  depth = depth || 0
  if (depth > 40) return { $deep: 1 }
  if (v === undefined) return { $u: 1 }
  if (v === null) return null
  if (typeof v === 'number') {
    if (Number.isNaN(v)) return { $nan: 1 }
    if (v === Infinity) return { $inf: 1 }
    if (v === -Infinity) return { $inf: -1 }
    if (Object.is(v, -0)) return { $n0: 1 }
    return v
  }
  if (typeof v === 'string' || typeof v === 'boolean') return v
  if (typeof v === 'function') return { $fn: v.$name || v.name || 'anon' }
  if (typeof v === 'bigint' || typeof v === 'symbol') return { $other: String(typeof v) }
  if (Array.isArray(v)) {
    const out = []
    for (let i = 0; i < v.length; i += 1) out.push(i in v ? encodeValue(v[i], depth + 1) : { $hole: 1 })
    return { $a: out }
  }
  const o = {}
  for (const k of Object.keys(v)) o[k] = encodeValue(v[k], depth + 1)
  return { $o: o }
}

function decodeValue(j, fns) {
  if (j === null || typeof j !== 'object') return j
  if (Array.isArray(j)) return j.map((x) => decodeValue(x, fns))
  if (j.$u) return undefined
  if (j.$nan) return NaN
  if (j.$inf) return j.$inf > 0 ? Infinity : -Infinity
  if (j.$n0) return -0
  if (j.$fn) {
    const name = j.$fn
    const f = function (...args) { return 'fn:' + name + '(' + args.map((a) => JSON.stringify(encodeValue(a))).join(',') + ')' }
    f.$name = name
    return f
  }
  if (j.$a) {
    const out = []
    j.$a.forEach((x, i) => { if (!(x && x.$hole)) out[i] = decodeValue(x, fns); else out.length = i + 1 })
    return out
  }
  if (j.$o) {
    const o = {}
    for (const k of Object.keys(j.$o)) o[k] = decodeValue(j.$o[k], fns)
    return o
  }
  const o = {}
  for (const k of Object.keys(j)) o[k] = decodeValue(j[k], fns)
  return o
}

function decodeTree(j, arrayForm) {
  // update path tree: true | {k: tree}
  if (j === true) return true
  if (j === null || j === undefined) return undefined
  const keys = Object.keys(j)
  // the form the runtime builds for array splices (glass-easel/src/tmpl/index.ts): the index marks live in an array that is
  // the PROTOTYPE of the node, `length` is inherited from that array (a number) or an own `true`
  if (arrayForm && keys.length > 0 && keys.every((k) => k === 'length' || /^(0|[1-9][0-9]*)$/.test(k))) {
    const a = []
    for (const k of keys) if (k !== 'length') a[Number(k)] = decodeTree(j[k], arrayForm)
    const w = Object.create(a)
    if (keys.includes('length')) w.length = decodeTree(j.length, arrayForm)
    return w
  }
  const o = Object.create(null)
  for (const k of keys) o[k] = decodeTree(j[k], arrayForm)
  return o
}

function serializeNode(n) {
  const o = { k: n.kind }
  if (n.kind === 'text') o.text = encodeValue(n.text)
  if (n.kind === 'elem') {
    o.tag = n.tag
    o.generics = n.generics
    if (n.slot !== undefined) o.slot = encodeValue(n.slot)
    if (n.slotValueNames) o.svn = n.slotValueNames
  }
  if (n.kind === 'if') o.key = encodeValue(n.key)
  if (n.kind === 'slot') { o.name = n.name; if (n.slot !== undefined) o.slot = encodeValue(n.slot) }
  if (n.kind === 'virtual' && n.slot !== undefined) o.slot = encodeValue(n.slot)
  if (n.attrs) {
    o.attrs = n.attrs.map(([key, rec]) => {
      const r = {}
      for (const k of Object.keys(rec)) if (rec[k] !== undefined || k === 'v') r[k] = encodeValue(rec[k])
      return [key, r]
    })
  }
  if (n.dev && n.dev.A) o.dev = n.dev.A
  if (n.kind !== 'text' && n.kind !== 'slot') o.ch = n.children.map(serializeNode)
  return o
}

function loadGroup(bundleSrc) {
  // the bundle is an expression: (()=>{...; return G})()
  const script = new vm.Script('(' + bundleSrc + ')', { filename: 'bundle.js' })
  return script.runInThisContext()
}

function syntaxCheck(src) {
  const res = {}
  for (const [mode, prefix] of [['sloppy', ''], ['strict', '"use strict";\n']]) {
    try {
      // eslint-disable-next-line no-new
      new vm.Script(prefix + src, { filename: 'artefact.js' })
      res[mode] = null
    } catch (e) {
      res[mode] = String(e && e.message)
    }
  }
  return res
}

module.exports = { Runtime, encodeValue, decodeValue, decodeTree, serializeNode, loadGroup, syntaxCheck, listItems, covers }
