//! C14: stringify is a faithful, stable inverse of parse.
use crate::gen::*;
use crate::gen_tmpl::*;
use crate::util::*;
use glass_easel_template_compiler::stringify::{Stringifier, Stringify};
use glass_easel_template_compiler::TmplGroup;
use serde_json::json;

fn print(g: &TmplGroup, path: &str, src: &str, mangle: bool) -> String {
    let t = g.get_tree(path).unwrap();
    let mut s = Stringifier::new(String::new(), path, src);
    s.set_mangling(mangle);
    t.stringify_write(&mut s).unwrap();
    s.finish().0
}

fn mutate(rng: &mut Rng, s: &str) -> String {
    // light mutations that keep most of the structure: ill-formed but recoverable inputs
    let c: Vec<char> = s.chars().collect();
    if c.is_empty() {
        return "<v>".into();
    }
    let mut o = c.clone();
    let i = rng.below(o.len());
    match rng.below(6) {
        0 => {
            o.remove(i);
        }
        1 => o.insert(i, *rng.pick(&['<', '>', '"', '\'', '{', '}', '/', ' ', '&', ';', '=', ':'])),
        2 => o.truncate(i + 1),
        3 => o.insert(i, '\n'),
        4 => {
            let ins: Vec<char> = " x=\"1\" x=\"2\" wx:bad".chars().collect();
            for (k, ch) in ins.into_iter().enumerate() {
                o.insert((i + k).min(o.len()), ch);
            }
        }
        _ => o.swap(i, (i + 1).min(c.len() - 1)),
    }
    o.into_iter().collect()
}

pub fn run(tier: &str, seed: u64, out: &mut Out) {
    let mut rng = Rng::new(seed ^ 0x57f1);
    let n = if tier == "thorough" { 2500 } else { 350 };
    let hand: Vec<String> = vec![
        // a static piece that ends in `{` (third or later piece of a mixed value) directly before a binding
        "<v>{{a}} = &#123;{{b}}}</v><v t=\"{{a}}: &#123;{{b}}\">x{{c}}y&#123;{{d}}z&#123;{{a}}</v>".into(),
        // KF-C14-4: a data field spelled like a mangled scope name
        "<c><div slot:a>{{ _$0 }}|{{ a }}</div></c>".into(),
        "<v a=\"{{ 'a' + b }}\">{{ c + 'x' }}{{ 'p' + 'q' }}</v>".into(),
        "<v>&#123;&#123;a}} &#123;{ b }}</v><w a=\"&#123;&#123;c}}\"/>".into(),
        "<v a=\"{{ (1).a }}\" b=\"{{ (1.5).x }}\" c=\"{{ 1e999 }}\" d=\"{{ [.5,,] }}\"/>".into(),
        "<v a=\"{{ a ?? b || c }}\" b=\"{{ (a ?? b) && c }}\" c=\"{{ - -a + + +b }}\" d=\"{{ typeof typeof a }}\"/>".into(),
        "<wxs module=\"m\">var a = '</wxs' + '>';</wxs>{{ m.x }}".into(),
        "<v wx:for=\"{{l}}\" wx:for-item=\"a\" wx:for-index=\"b\">{{a}}{{b}}</v>".into(),
        "<c><v slot:x=\"y\" slot:z>{{y}}{{z}}</v></c>".into(),
        "<template name=\"t\">{{a}}</template><template is=\"t\" data=\"{{ a: 1, ...b }}\"/><template is=\"t\" data=\"{{ {a} }}\"/>".into(),
        "<v a=\"{{ {a: 1}.a }}\" b=\"{{ [1][0] }}\" c=\"{{ 'x'.length }}\" e=\"{{ f(1)(2) }}\"/>".into(),
        "<v a='{{ \"q\\'\\\"\\n\\u0041\" }}'>\"&amp;&lt;</v>".into(),        // adjacent literal pieces whose boundary would read as a binding start; the empty literal; comments between texts
        "<div>{{ \"a{\" + \"{b\" }}</div><v a=\"{{ 'x{' + '{' }}\" b=\"{{ 'p{' + '' + '{q' }}\"/>".into(),
        "<div>{{ \"\" }}</div><v a=\"{{ '' }}\">{{ '' }}{{a}}</v>".into(),
        "<wxs module=\"m\">module.exports = { s: \"</wxsx>\" }</wxs>{{m.s}}".into(),
        "<div>a{<!-- c -->{b}}</div>".into(),
        // source paths that still end with the file suffix after the parser stripped one
        "<import src=\"a.wxml.wxml\"/><import src=\"./b.wxml\"/><wxs module=\"m\" src=\"/e1.wxs.wxs\"/><wxs module=\"n\" src=\"/e1.wxs\"/><v>{{ n.g(a) }}</v><include src=\"c.wxml.wxml\"/>".into(),
        // several script modules, inline and external in every order, each one referenced (module names are scope
        // references: printing must keep each reference on its own module)
        "<wxs module=\"inl\">exports.f = function(a){ return 'I' + a }</wxs><wxs module=\"ext\" src=\"/e1\"/>{{ inl.f(a) }}{{ ext.g(a) }}".into(),
        "<wxs module=\"ext\" src=\"/e1\"/><wxs module=\"inl\">exports.f = function(a){ return 'I' + a }</wxs><v a=\"{{ inl.f(a) }}\" b=\"{{ ext.g(a) }}\"/>".into(),
        "<wxs module=\"m1\">exports.f = function(a){ return '1' + a }</wxs><wxs module=\"m2\" src=\"/e2\"/><wxs module=\"m3\">exports.f = function(a){ return '3' + a }</wxs><wxs module=\"m4\" src=\"./e1\"/><template name=\"t\">{{ m1.f(x) }}{{ m2.g(x) }}{{ m3.f(x) }}{{ m4.g(x) }}</template><template is=\"t\" data=\"{{ x: a }}\"/><v wx:for=\"{{ l }}\" wx:for-item=\"m2\">{{ m1.f(m2) }}{{ m4.g(index) }}</v>".into(),
        "<div>{{a}}<!-- c -->{{b}}</div><div>x<!-- c -->y</div><div>{<!-- c -->a}<!-- d --></div>".into(),
        // static-string attributes whose decoded value contains a well-formed character reference
        "<template name=\"cell-&amp;lt;b&amp;gt;\">T{{a}}</template><template is=\"cell-&amp;lt;b&amp;gt;\" data=\"{{ a: 1 }}\"/>".into(),
        "<c generic:g=\"x&amp;lt;y\" wx:for=\"{{l}}\" wx:key=\"k&amp;amp;\"><v slot:x=\"y\">{{y}}</v></c><include src=\"./q&amp;amp;r\"/>".into(),
    ];
    let total = n + hand.len();
    for i in 0..total {
        let (src, class) = if i < hand.len() {
            (hand[i].clone(), "hand")
        } else {
            let cfg = TmplCfg { max_depth: 1 + (i % 3), expr_depth: 1 + (i % 3), ..Default::default() };
            let mut g = TmplGen::new(&mut rng, cfg);
            let s = g.file();
            if i % 3 == 0 {
                (mutate(&mut rng, &s), "mutated")
            } else {
                (s, "wellformed")
            }
        };
        let r = catch(std::panic::AssertUnwindSafe(|| {
            let mut g0 = TmplGroup::new();
            g0.add_script("e1", "exports.g = function(a){ return 'E1' + a }");
            g0.add_script("e2", "exports.g = function(a){ return 'E2' + a }");
            let d0 = { crate::util::note_input(&*src); g0.add_tmpl("p", &src) };
            let level0 = d0.iter().map(|d| d.kind.level() as u8).max().unwrap_or(0);
            let mut rounds = vec![];
            for mangle in [false, true] {
                let s1 = print(&g0, "p", &src, mangle);
                let mut g1 = TmplGroup::new();
                g1.add_script("e1", "exports.g = function(a){ return 'E1' + a }");
                g1.add_script("e2", "exports.g = function(a){ return 'E2' + a }");
                let d1 = { crate::util::note_input(&*s1); g1.add_tmpl("p", &s1) };
                let diags1: Vec<(String, u8)> = d1.iter().map(|d| (d.kind.to_string(), d.kind.level() as u8)).collect();
                let s2 = print(&g1, "p", &s1, mangle);
                let b1 = g1.get_tmpl_gen_object_groups().unwrap_or_default();
                rounds.push(json!({"mangle": mangle, "s1": s1, "s2": s2, "diags1": diags1, "bundle1": b1}));
            }
            (level0, g0.get_tmpl_gen_object_groups().unwrap_or_default(), rounds)
        }));
        let Ok((level0, bundle0, rounds)) = r else {
            out.raw(&json!({"kind": "strfy", "id": i, "class": class, "src": src, "panic": true}).to_string());
            continue;
        };
        let d0 = random_data(&mut rng);
        let d1 = random_data(&mut rng);
        let job = json!({"kind": "strfy", "id": i, "class": class, "src": src, "level0": level0, "bundle0": bundle0, "rounds": rounds,
                         "datas": [d0, d1],
                         "slotValues": {"$o": {"sv": "SV", "x": {"$o": {"a": 1}}, "z": 2, "item": 3, "aB": 4}}});
        out.raw(&job.to_string());
    }
}
