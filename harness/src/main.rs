mod artefacts;
mod ast;
mod behave;
mod css;
mod determinism;
mod exprs;
mod gen;
mod gen_tmpl;
mod lit;
mod locs;
mod path;
mod probe;
mod scopes;
mod strfy;
mod total;
mod util;
mod valparse;

fn main() {
    let r = std::panic::catch_unwind(real_main);
    if r.is_err() {
        std::process::exit(3);
    }
}

fn real_main() {
    // panics inside `catch` are values; a panic outside is reported with the last input handed to the compiler (exit code 3)
    util::install_panic_reporter();
    let args: Vec<String> = std::env::args().collect();
    let cmd = args.get(1).map(|s| s.as_str()).unwrap_or("");
    let tier = args.get(2).map(|s| s.as_str()).unwrap_or("quick");
    let seed: u64 = args.get(3).and_then(|s| s.parse().ok()).unwrap_or(1);
    let mut out = util::Out::new();
    match cmd {
        "css" => css::run(tier, seed, &args, &mut out),
        "cssone" => css::run_one(&mut out),
        "cssnum" => css::run_num(tier, seed, &mut out),
        "ident" => artefacts::ident(tier, seed, &mut out),
        "artefacts" => artefacts::artefacts(tier, seed, &mut out),
        "behave" => behave::run(tier, seed, &mut out),
        "render" => behave::run_render(tier, seed, &mut out),
        "behave_subsets" => behave::run_subsets(tier, seed, &mut out),
        "behave_matrix" => behave::run_matrix(tier, seed, &mut out),
        "behave_changes" => behave::run_changes(tier, seed, &mut out),
        "pairs" => behave::run_pairs(tier, seed, &mut out),
        "attrroute" => behave::run_attrroute(tier, seed, &mut out),
        "guardden" => exprs::run_guardden(tier, seed, &mut out),
        "entnames" => lit::run_entnames(&mut out),
        "links" => path::run_links(tier, seed, &mut out),
        "entscan" => lit::run_entscan(tier, seed, &mut out),
        "wxscan" => lit::run_wxscan(tier, seed, &mut out),
        "wxscan_js" => lit::run_wxscan_js(tier, seed, &mut out),
        "determinism" => determinism::run(tier, seed, args.get(4).and_then(|s| s.parse().ok()).unwrap_or(0), &mut out),
        "exprgen" => exprs::run_gen(tier, seed, &mut out),
        "exprval" => exprs::run_val(tier, seed, &mut out),
        "locs" => locs::run_locs(tier, seed, &mut out),
        "diag" => locs::run_diag(tier, seed, &mut out),
        "diag_levels" => locs::level_table(&mut out),
        "lit" => lit::run(tier, seed, &mut out),
        "litctx" => lit::run_ctx(tier, seed, &mut out),
        "identctx" => lit::run_identctx(tier, seed, &mut out),
        "pathctx" => lit::run_pathctx(tier, seed, &mut out),
        "path" => path::run(tier, seed, &mut out),
        "numlit" => total::numlit(tier, seed, &mut out),
        "total" => total::total(tier, seed, args.get(4).and_then(|s| s.parse().ok()).unwrap_or(0), &mut out),
        "one" => total::one(tier, args.get(3).map(|s| s.as_str()).unwrap_or(""), &mut out),
        "scale" => total::scale(tier, seed, &mut out),
        "strfy" => strfy::run(tier, seed, &mut out),
        "valparse" => valparse::run(tier, seed, &mut out),
        "scopes" => scopes::run(tier, seed, &mut out),
        "scopeval" => scopes::run_val(tier, seed, &mut out),
        "probe" => probe::run(&args[2..]),
        _ => {
            eprintln!("unknown command {}", cmd);
            std::process::exit(2);
        }
    }
    out.flush();
}
