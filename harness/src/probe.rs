//! Manual probes: `probe <what> <wxml-source>` (debug aid; also used by replay).
use glass_easel_template_compiler::{stringify::Stringify, TmplGroup};

pub fn run(args: &[String]) {
    let what = args.get(0).map(|s| s.as_str()).unwrap_or("gen");
    let src = args.get(1).cloned().unwrap_or_default();
    let path = args.get(2).cloned().unwrap_or_else(|| "p".to_string());
    let mut g = TmplGroup::new();
    let diags = { crate::util::note_input(&*src); g.add_tmpl(&path, &src) };
    for d in &diags {
        println!("DIAG {:?} level={} {}:{}-{}:{}", d.kind, d.kind.level() as u8, d.location.start.line, d.location.start.utf16_col, d.location.end.line, d.location.end.utf16_col);
    }
    match what {
        "gen" => println!("{}", g.get_tmpl_gen_object(&path).unwrap()),
        "groups" => println!("{}", g.get_tmpl_gen_object_groups().unwrap()),
        "str" => println!("{}", g.stringify_tmpl(&path).unwrap()),
        "mangle" => {
            let t = g.get_tree(&path).unwrap();
            let mut s = glass_easel_template_compiler::stringify::Stringifier::new(String::new(), &path, &src);
            s.set_mangling(true);
            t.stringify_write(&mut s).unwrap();
            println!("{}", s.finish().0);
        }
        "ast" => println!("{:#?}", g.get_tree(&path).unwrap().content),
        _ => {}
    }
}
