//! C01: totality. `numlit` = number scanner correspondence; `total` = every API on generated and
//! malformed inputs (the caller isolates this process: timeout + memory limit); `scale` = timing.
use crate::artefacts::*;
use crate::gen_tmpl::*;
use crate::util::*;
use glass_easel_stylesheet_compiler::{StyleSheetOptions, StyleSheetTransformer};
use glass_easel_template_compiler::parse::expr::Expression;
use glass_easel_template_compiler::parse::tag::{ElementKind, Node, Value};
use glass_easel_template_compiler::stringify::{Stringifier, Stringify};
use glass_easel_template_compiler::TmplGroup;
use std::io::Write;

pub fn numlit(tier: &str, seed: u64, out: &mut Out) {
    let mut rng = Rng::new(seed ^ 0x9a1);
    let mut lits: Vec<String> = vec![];
    for s in ["0", "00", "07", "08", "09", "017", "0777777777777777777777", "01777777777777777777777", "0x", "0x0", "0xff", "0XFF", "0xg", "0x1g",
              "0x7fffffffffffffff", "0x8000000000000000", "0xffffffffffffffff", "0x10000000000000000", "0x1fffffffffffff8", "0x20000000000001",
              "0x20000000000003", "0x40000000000001000000000000001", "9223372036854775807", "9223372036854775808", "18446744073709551616",
              "99999999999999999999", "99999999999999999999.5", "9007199254740993", "1.5", ".5", "5.", ".", "..5", "1..5", "1.2.3", "1e3", "1e-3", "1e",
              "1e-", "1e+3", "1E3", "1e3.5", "1.e3", ".e3", "e3", "1e999", "1e-999", "0e0", "0.0", "0.", "0e", "0a", "0_", "0$", "1a", "1_", "1$", "12abc",
              "0b101", "0o17", "1_000", "08.5", "09e1", "00.5", "007", "0x.5", "0xe", "0xe+1", "0xabcdefABCDEF", "1e5x", "1ee5", "1e5e5", "1.5e5.5"] {
        lits.push(s.to_string());
    }
    for c in b'a'..=b'z' {
        lits.push(format!("0x{}", c as char));
        lits.push(format!("0x1{}", c as char));
        lits.push(format!("0x{}", (c as char).to_ascii_uppercase()));
        lits.push(format!("1{}", c as char));
        lits.push(format!("0{}", c as char));
    }
    let alphabet: Vec<char> = "0123456789abcdefxe.-_$gGzZ".chars().collect();
    let n = if tier == "thorough" { 200_000 } else { 30_000 };
    for i in 0..n {
        let len = 1 + rng.below(if i % 10 == 0 { 40 } else { 8 });
        let mut s = String::new();
        let first = *rng.pick(&['0', '1', '9', '.', '0', '7']);
        s.push(first);
        for _ in 0..len {
            if rng.chance(2, 3) {
                s.push((b'0' + rng.below(10) as u8) as char);
            } else {
                s.push(*rng.pick(&alphabet));
            }
        }
        lits.push(s);
    }
    // tails that complete the binding whenever the literal itself is accepted
    let tails = [" }}", "}}", "+1 }}", " .x }}", "\n}}", "/*c*/}}", "? 1 : 2 }}", "*2}}"];
    for (i, l) in lits.iter().enumerate() {
        let tail = tails[i % tails.len()];
        let src = format!("<v a=\"{{{{ {}{}\"/>", l, tail);
        let model_in = format!("{}{}\"/>", l, tail);
        let mut g = TmplGroup::new();
        let r = catch(std::panic::AssertUnwindSafe(|| {
            { crate::util::note_input(&*src); g.add_tmpl("p", &src) };
            let t = g.get_tree("p").unwrap();
            match t.content.get(0) {
                Some(Node::Element(el)) => match &el.kind {
                    ElementKind::Normal { attributes, .. } => match attributes.get(0).and_then(|a| a.value.as_ref()) {
                        Some(Value::Dynamic { expression, .. }) => first_number(expression),
                        _ => "E".to_string(),
                    },
                    _ => "E".to_string(),
                },
                _ => "E".to_string(),
            }
        }));
        let res = match r {
            Ok(s) => s,
            Err(e) => format!("PANIC {}", e.replace('\n', " ").chars().take(80).collect::<String>()),
        };
        out.case(&["numlit", &enc(&model_in), &l.chars().count().to_string()], &res);
    }
}

/// the number literal the expression starts with (the scanner's result), looking through the
/// operators that the tail may have added
fn first_number(e: &Expression) -> String {
    match e {
        Expression::LitInt { value, .. } => format!("I{}", value),
        Expression::LitFloat { value, .. } => format!("F{}", value),
        Expression::Plus { left, .. } => first_number(left),
        Expression::Multiply { left, .. } => first_number(left),
        Expression::Cond { cond, .. } => first_number(cond),
        Expression::StaticMember { obj, .. } => first_number(obj),
        _ => "E".to_string(),
    }
}

fn option_sets() -> Vec<StyleSheetOptions> {
    let mut v = vec![StyleSheetOptions::default()];
    v.push(StyleSheetOptions {
        class_prefix: Some("p".into()),
        class_prefix_sign: Some("S".into()),
        rpx_ratio: 750.,
        import_sign: Some("I".into()),
        convert_host: true,
        host_is: Some("h".into()),
    });
    v.push(StyleSheetOptions { class_prefix: Some("".into()), class_prefix_sign: None, rpx_ratio: 0.1, import_sign: None, convert_host: true, host_is: None });
    // every numeric option value is a configuration: zero, negative zero, negative, huge, tiny, non-finite ratios
    for r in [0.0f32, -0.0, -750., 1., 3., f32::MAX, f32::MIN_POSITIVE, f32::INFINITY, f32::NEG_INFINITY, f32::NAN] {
        v.push(StyleSheetOptions { class_prefix: None, class_prefix_sign: None, rpx_ratio: r, import_sign: None, convert_host: false, host_is: None });
    }
    v.push(StyleSheetOptions { class_prefix: Some("a b{}".into()), class_prefix_sign: Some("*/ x".into()), rpx_ratio: 750., import_sign: Some("*/".into()), convert_host: true, host_is: Some("\"]{".into()) });
    v
}

fn exercise_template(path: &str, src: &str) -> usize {
    let mut g = TmplGroup::new_dev();
    let diags = { crate::util::note_input(&*src); g.add_tmpl(path, src) };
    let mut n = diags.len();
    n += g.get_tmpl_gen_object(path).map(|s| s.len()).unwrap_or(0);
    n += g.get_tmpl_gen_object_groups().map(|s| s.len()).unwrap_or(0);
    n += g.get_wx_gen_object_groups().map(|s| s.len()).unwrap_or(0);
    n += g.export_globals().map(|s| s.len()).unwrap_or(0);
    n += g.export_all_scripts().map(|s| s.len()).unwrap_or(0);
    n += g.stringify_tmpl(path).map(|s| s.len()).unwrap_or(0);
    let _: Vec<String> = g.direct_dependencies(path).unwrap().collect();
    let _: Vec<String> = g.script_dependencies(path).unwrap().collect();
    let t = g.get_tree(path).unwrap();
    let mut s = Stringifier::new(String::new(), path, src);
    s.set_mangling(true);
    t.stringify_write(&mut s).unwrap();
    let (text, sm) = s.finish();
    n += text.len();
    let mut v = vec![];
    let _ = sm.to_writer(&mut v);
    n + v.len()
}

fn exercise_css(css: &str) -> usize {
    let mut n = 0;
    for o in option_sets() {
        let t = StyleSheetTransformer::from_css("p.wxss", css, o);
        n += t.warnings().count();
        let (a, b) = t.output_and_low_priority_output();
        let mut s = String::new();
        a.write_str(&mut s).unwrap();
        b.write_str(&mut s).unwrap();
        n += s.len();
        let mut m = vec![];
        let _ = a.write_source_map(&mut m);
        n += m.len();
    }
    n
}

fn mutate_text(rng: &mut Rng, s: &str) -> String {
    let chars: Vec<char> = s.chars().collect();
    if chars.is_empty() {
        return "<".into();
    }
    let specials: Vec<char> = "<>/\"'{}=&;:!-#.()[]?\\\u{0}\u{a0}\u{3000}\u{2028}\u{85}\u{1680}\u{feff}\u{1f600}x0 \n\t".chars().collect();
    let mut c = chars.clone();
    let k = 1 + rng.below(3);
    for _ in 0..k {
        let i = rng.below(c.len());
        match rng.below(6) {
            0 => {
                c.remove(i);
            }
            5 => {
                // flip the letter case of the word around i (keywords, function and tag names)
                let mut a = i;
                while a > 0 && c[a - 1].is_ascii_alphabetic() {
                    a -= 1;
                }
                let mut b = i;
                while b < c.len() && c[b].is_ascii_alphabetic() {
                    b += 1;
                }
                let mode = rng.below(3);
                for q in a..b {
                    c[q] = match mode {
                        0 => c[q].to_ascii_uppercase(),
                        1 => if q == a { c[q].to_ascii_uppercase() } else { c[q] },
                        _ => if (q - a) % 2 == 0 { c[q].to_ascii_uppercase() } else { c[q].to_ascii_lowercase() },
                    };
                }
            }
            1 => c.insert(i, *rng.pick(&specials)),
            2 => c[i] = *rng.pick(&specials),
            3 => {
                let j = rng.below(c.len());
                let (a, b) = (i.min(j), i.max(j));
                c.drain(a..b);
            }
            _ => {
                let j = rng.below(c.len());
                let (a, b) = (i.min(j), i.max(j));
                let seg: Vec<char> = c[a..b].to_vec();
                for (q, ch) in seg.into_iter().enumerate() {
                    c.insert(a + q, ch);
                }
            }
        }
        if c.is_empty() {
            c.push('<');
        }
    }
    c.into_iter().collect()
}

pub fn inputs(tier: &str, seed: u64) -> Vec<(String, String)> {
    let mut rng = Rng::new(seed ^ 0x7071);
    let thorough = tier == "thorough";
    let mut v: Vec<(String, String)> = vec![];
    // the defect classes of record, and every White_Space character in every tag position
    for s in ["<v\u{3000}a=\"1\"/>", "<!meta\u{3000}a>", "{{ 0xg }}", "{{ 99999999999999999999 }}", "{{ 0x8000000000000000 }}", "<v a=\"{{", "<!--", "<v a='",
              "{{ [.5] }}", "<wxs module=\"m\">", "</wxs", "<wxs module='m'></wxsx</wxs>", "<v wx:for>", "&#xffffffffff;&#99999999999;&bogus;&;&#;&#x;",
              "{{ '\\u{41}\\x4\\u12' }}", "{{ a ? b }}", "{{ a[ }}", "{{ f( }}", "{{ {a:} }}", "{{ ...a }}", "<template is data=\"{{ }}\"/>", "<a:b:c d:e:f=g/>",
              "<!-- \n\u{1f600} --><v a=\"{{ a b }}\"/>", "<wxs module=\"m\" src=\"a.wxs\">\n// \u{1f600}</wxs>", "{{ a /* \n\u{1f600}\u{1f600} */ b c }}",
              "<v \u{1f600}\n\u{1f600} a=1 a=2>", "<!-- x\n汉\u{1f600} --></v>", "<wxs module=\"m\">\n\u{1f600}</wxs><include/>",
              // slot values declared on every kind of element and used in that element's own attributes and children
              "<c><slot slot:item item=\"{{item}}\"/></c>", "<slot slot:a name=\"{{a}}\"/>", "<c><block slot:a wx:if=\"{{a}}\">{{a}}</block></c>",
              "<c><template is=\"t\" slot:a data=\"{{a}}\"/></c>", "<c><include src=\"x\" slot:a/></c>", "<c><v slot:a=\"b\" x=\"{{b}}\"><slot slot:b=\"c\" y=\"{{c}}{{b}}\"/></v></c>",
              "<c><slot slot:a wx:for=\"{{a}}\" name=\"{{item}}\">{{a}}</slot></c>", "<template name=\"t\"><slot slot:a x=\"{{a}}\"/></template>",
              "<c><import src=\"x\" slot:a/><wxs module=\"m\" slot:a/></c>"] {
        v.push(("tmpl".into(), s.to_string()));
    }
    let ws = ['\u{9}', '\u{a}', '\u{b}', '\u{c}', '\u{d}', ' ', '\u{85}', '\u{a0}', '\u{1680}', '\u{2000}', '\u{2001}', '\u{2002}', '\u{2003}', '\u{2004}', '\u{2005}',
              '\u{2006}', '\u{2007}', '\u{2008}', '\u{2009}', '\u{200a}', '\u{2028}', '\u{2029}', '\u{202f}', '\u{205f}', '\u{3000}', '\u{feff}', '\u{200b}'];
    for w in ws {
        for pat in ["<v{}a=\"1\"/>", "<v a{}=\"1\"/>", "<v a={}\"1\"/>", "<v a=\"1\"{}/>", "<v a=\"1\"/{}>", "<{}v/>", "<v>x</v{}>", "<!m{}a>", "<!{}m>", "<v wx:for{}=\"{{{{l}}}}\"/>",
                    "{{{{ a{}+b }}}}", "{{{{ {}typeof a }}}}", "<v a=\"{{{{a}}}}{}\" />", "<wxs{}module=\"m\"/>", "<slot{}name=x />"] {
            v.push(("tmpl".into(), pat.replace("{}", &w.to_string())));
        }
    }
    // regions the parser skips in one step, spanning lines, ending right after k astral characters, followed on the
    // same line by something that is diagnosed (column bookkeeping in UTF-16 units)
    for k in 1..=9usize {
        let a = "\u{1f600}".repeat(k);
        v.push(("tmpl".into(), format!("<!--\n{}--><v a=1 a=2/>", a)));
        v.push(("tmpl".into(), format!("<!-- x\ny{}--></v><v wx:foo/>", a)));
        v.push(("tmpl".into(), format!("<wxs module=\"m\" src=\"x\">\n{}</wxs><include/>", a)));
        v.push(("tmpl".into(), format!("<wxs module=\"m\">\n//{}</wxs><v a=1 a=2/>", a)));
        v.push(("tmpl".into(), format!("{{{{ a /*\n{}*/ b }}}}", a)));
        v.push(("tmpl".into(), format!("<v a=\"{{{{ a /*\n{}*/ # }}}}\" b b/>", a)));
    }
    // character references: `&` followed by every mix of ASCII / non-ASCII letters, digits, `#`, `x` and `;` (the scanners
    // slice the reference by byte offsets), in text, attribute values, static-string attributes and next to bindings
    let ent_alpha = ['a', 'Z', 'x', 'X', '9', '0', '#', ';', '&', 'é', 'ß', '中', 'Ω', '２', '²', '½', '\u{1f600}', '\u{301}', 'ǅ', ' '];
    let n_ent = if thorough { 6000 } else { 900 };
    for i in 0..n_ent {
        let len = 1 + rng.below(6);
        let mut e = String::from("&");
        for _ in 0..len {
            e.push(*rng.pick(&ent_alpha));
        }
        if rng.chance(2, 3) {
            e.push(';');
        }
        v.push(("tmpl".into(), match i % 5 {
            0 => format!("<v>R{}D</v>", e),
            1 => format!("<v title=\"{}\"/>", e),
            2 => format!("<template name=\"{}\"/><v wx:key=\"{}\" wx:for=\"{{{{l}}}}\"/>", e, e),
            3 => format!("<v>{}{{{{a}}}}{}</v>", e, e),
            _ => format!("<v a='{}' b={} />{}", e, e.replace(' ', ""), e),
        }));
    }
    // inline scripts holding characters whose lower- / upper-case forms have another UTF-8 length (byte offsets computed on
    // a case-folded copy drift), with and without the end tag; `<!` followed by neither `--` nor a name
    for s in ["<wxs module=\"m\">var s = \"\u{130}\";</wxs><v/>", "<wxs module=\"m\">\u{212a}\u{212a}\u{212a}\u{212a}", "<wxs module=\"m\">\"\u{1e9e}\u{df}\u{fb01}\"</WXS><v/>",
              "<wxs module=\"m\">var a = '\u{130}\u{130}\u{130}'\n</wxs>{{ m.a }}", "<div>a<!>b</div>", "<! doctype html><v/>", "x <!1 y", "<v/><!", "<v><!-</v>", "<!\u{130}>"] {
        v.push(("tmpl".into(), s.to_string()));
    }
    // deep nesting (up to 64) of elements, brackets and operator chains
    for d in [8usize, 32, 64] {
        v.push(("tmpl".into(), format!("{}x{}", "<v>".repeat(d), "</v>".repeat(d))));
        v.push(("tmpl".into(), format!("{}x", "<v wx:if=\"{{a}}\">".repeat(d))));
        v.push(("tmpl".into(), format!("{{{{ {}a{} }}}}", "(".repeat(d), ")".repeat(d))));
        v.push(("tmpl".into(), format!("{{{{ {}a{} }}}}", "[".repeat(d), "]".repeat(d))));
        v.push(("tmpl".into(), format!("{{{{ {}a }}}}", "!-~+ typeof ".repeat(d / 4))));
        v.push(("tmpl".into(), format!("{{{{ a{} }}}}", " ? b : c".repeat(d))));
        v.push(("tmpl".into(), format!("{{{{ a{} }}}}", "+b*c".repeat(d * 4))));
        v.push(("tmpl".into(), format!("{{{{ a{} }}}}", ".b[c](d)".repeat(d))));
        v.push(("tmpl".into(), format!("{{{{ {}1{} }}}}", "{a:".repeat(d), "}".repeat(d))));
        v.push(("css".into(), format!("{}.a{{}}{}", "@media x{".repeat(d), "}".repeat(d))));
        v.push(("css".into(), format!(".a{}{}{{x:calc({}1rpx{})}}", ":not(".repeat(d), ")".repeat(d), "(".repeat(d), ")".repeat(d))));
    }
    // generated templates and mutations of them
    let n = if thorough { 4000 } else { 500 };
    for i in 0..n {
        let cfg = TmplCfg { max_depth: 1 + (i % 4), allow_include: vec!["/x".into()], ..Default::default() };
        let mut g = TmplGen::new(&mut rng, cfg);
        let src = g.file();
        if i % 3 == 0 {
            v.push(("tmpl".into(), src.clone()));
        }
        for _ in 0..3 {
            v.push(("tmpl".into(), mutate_text(&mut rng, &src)));
        }
    }
    // stylesheets: a seed corpus and mutations (malformed CSS, unbalanced blocks, bad strings/urls)
    let css_seed = [
        ".a .b > .c:not(.d .e), #i [x=\"y\"] { width: 10rpx; margin: calc(1rpx + 2px * -3rpx); color: #fff; background: url(a.png) }",
        "@import 'a.wxss' layer(x) supports(display:grid) screen and (min-width: 10rpx); @import url(b.wxss); :host { color: red } :host(.x) .y { a: b }",
        "@media (min-width: 1rpx) { @supports (a: b) { .a { b: c } :host { d: 1.5rpx } } } @font-face { font-family: x; unicode-range: U+0025-00FF }",
        "@keyframes k { from { a: 1rpx } 50.5% { b: -2RPX } to { c: +.5rpx } } .x::after { content: \"\\201C}{\"; } /* c */ .y { --v: { a b }; }",
        "@layer a, b; @layer a { .p .q { r: s } } @container c (min-width: 1rpx) { .t { u: v } } @scope (.a) to (.b) { .c { d: e } } @page :first { margin: 1rpx }",
    ];
    let n = if thorough { 3000 } else { 400 };
    for i in 0..n {
        let base = css_seed[i % css_seed.len()];
        if i < css_seed.len() {
            v.push(("css".into(), base.to_string()));
            v.push(("css".into(), base.to_ascii_uppercase()));
            // each word of the seed upper-cased on its own
            let b: Vec<char> = base.chars().collect();
            let mut a = 0;
            while a < b.len() {
                if b[a].is_ascii_alphabetic() {
                    let mut e = a;
                    while e < b.len() && b[e].is_ascii_alphabetic() {
                        e += 1;
                    }
                    let t: String = b[..a].iter().chain(b[a..e].iter().map(|c| c.to_ascii_uppercase()).collect::<Vec<_>>().iter()).chain(b[e..].iter()).collect();
                    v.push(("css".into(), t));
                    a = e;
                } else {
                    a += 1;
                }
            }
        }
        v.push(("css".into(), mutate_text(&mut rng, base)));
    }
    for s in [".a{width:75rpx;height:7.5rpx;margin:-750rpx 0rpx 1rpx 2147483647rpx}", "@media (min-width:10rpx){.a{b:calc(1rpx*2)}}", ".a{b:1e38rpx;c:1e-38rpx;d:-0rpx}"] {
        v.push(("css".into(), s.to_string()));
    }
    for s in ["{", "}", "}}}{{{", "\"", "'\n", "url(", "url( a b )", "/*", "@", "@import", "@import ;", "@media {", ".a{b:c", ".a{b:\"", "\\", "a\\\n", "<!-- -->", "U+?", "1e999rpx", "-.e5rpx", "@charset \"x\";", ":host", ":host{", "@import url();"] {
        v.push(("css".into(), s.to_string()));
    }
    v
}

pub fn total(tier: &str, seed: u64, start: usize, out: &mut Out) {
    let cases = inputs(tier, seed);
    let mut err = std::io::stderr();
    for (i, (kind, src)) in cases.iter().enumerate().skip(start) {
        // announce the case before running it: if the process is killed the caller knows the culprit
        let _ = writeln!(err, "CASE {} {} {}", i, kind, enc(src));
        let _ = err.flush();
        let t0 = std::time::Instant::now();
        let r = catch(std::panic::AssertUnwindSafe(|| if kind == "css" { exercise_css(src) } else { exercise_template("p/q", src) }));
        let ms = t0.elapsed().as_millis();
        match r {
            Ok(n) => out.raw(&format!("OK {} {} len={} out={} ms={}", i, kind, src.len(), n, ms)),
            Err(e) => out.raw(&format!("PANIC {} {} {} :: {}", i, kind, enc(src), e.replace('\n', " ").chars().take(200).collect::<String>())),
        }
        if i % 64 == 0 {
            out.flush();
        }
    }
    out.raw(&format!("DONE {}", cases.len()));
}

/// runs one input given as a file (used for known-finding witnesses; the caller isolates the process)
pub fn one(kind: &str, file: &str, out: &mut Out) {
    let src = std::fs::read_to_string(file).unwrap_or_default();
    let r = catch(std::panic::AssertUnwindSafe(|| if kind == "css" { exercise_css(&src) } else { exercise_template("p", &src) }));
    match r {
        Ok(n) => out.raw(&format!("OK one out={}", n)),
        Err(e) => out.raw(&format!("PANIC one :: {}", e.replace('\n', " ").chars().take(200).collect::<String>())),
    }
}

pub fn scale(tier: &str, _seed: u64, out: &mut Out) {
    let sizes: Vec<usize> = if tier == "thorough" { vec![250, 2500, 25_000, 200_000] } else { vec![250, 2500, 25_000] };
    let families: Vec<(&str, Box<dyn Fn(usize) -> String>)> = vec![
        ("flat-elements", Box::new(|n| "<v a=\"{{a}}\" class=\"x {{b}}\">t{{c}}</v>".repeat(n))),
        // (was quadratic in the number of branches and capped at 2500 until the repair of the chained iterators)
        ("if-chain", Box::new(|n| format!("<v wx:if=\"{{{{a}}}}\"/>{}", "<v wx:elif=\"{{b}}\">x</v>".repeat(n)))),
        ("nested-64", Box::new(|n| { let d = 64; let per = (n / d).max(1); format!("{}{}{}", "<v>".repeat(d), "<w a=\"{{a.b[c]}}\"/>".repeat(per), "</v>".repeat(d)) })),
        // operator chains are bounded by the property (nesting <= 64): many bounded expressions instead
        ("many-expressions", Box::new(|n| format!("<v a=\"{{{{ a{} }}}}\"/>", "+b*c".repeat(32)).repeat(n / 8 + 1))),
        ("bindings-in-one-text", Box::new(|n| "x{{a}}".repeat(n.min(2500)))),
        ("many-attributes", Box::new(|n| format!("<v{}/>", (0..n).map(|i| format!(" a{}=\"{{{{x{}}}}}\"", i, i % 5)).collect::<String>()))),
        ("invalid-attribute-names", Box::new(|n| format!("<v{}/>", " # ?".repeat(n)))),
        // the bindings of one text node form a left-deep chain (recursion depth = number of bindings): capped,
        // see known finding KF-C01-1
        ("text-entities", Box::new(|n| format!("<v>{}</v>", "&lt;&amp;&#65;x{{a}} ".repeat(50)).repeat(n / 50 + 1))),
    ];
    for (name, f) in families.iter() {
        for n in &sizes {
            let src = f(*n);
            let t0 = std::time::Instant::now();
            let r = catch(std::panic::AssertUnwindSafe(|| exercise_template("p", &src)));
            let ms = t0.elapsed().as_secs_f64() * 1000.0;
            out.raw(&format!("SCALE {} n={} bytes={} ms={:.2} ok={}", name, n, src.len(), ms, r.is_ok()));
            out.flush();
        }
    }
    // depth-scaled expression families: one binding whose expression nests k levels (k <= 64, the bound of the property) in
    // every recursive position of the expression grammar; the generated code must stay within a constant factor of the
    // input (a sub-expression written twice by the generator doubles the output per level)
    let chain = |op: &str, k: usize| -> String { (0..k).map(|i| format!("a{}", i % 7)).collect::<Vec<_>>().join(op) };
    let depth_families: Vec<(&str, Box<dyn Fn(usize) -> String>)> = vec![
        ("nullish-left", Box::new(move |k| chain(" ?? ", k))),
        ("nullish-right", Box::new(|k| format!("{}z{}", "a ?? (".repeat(k), ")".repeat(k)))),
        ("or-left", Box::new(move |k| chain(" || ", k))),
        ("and-left", Box::new(move |k| chain(" && ", k))),
        ("plus-left", Box::new(move |k| chain(" + ", k))),
        ("cond-right", Box::new(|k| format!("{}z", "a ? b : ".repeat(k)))),
        ("cond-middle", Box::new(|k| format!("{}z{}", "a ? ".repeat(k), " : c".repeat(k)))),
        ("cond-test", Box::new(|k| format!("{}a{}", "(".repeat(k), " ? b : c)".repeat(k)))),
        ("member-chain", Box::new(|k| format!("a{}", ".b[c]".repeat(k)))),
        ("member-of-cond", Box::new(|k| format!("{}a{}", "(".repeat(k), " ? o : p).x".repeat(k)))),
        ("index-nest", Box::new(|k| format!("{}a{}", "l[".repeat(k), "]".repeat(k)))),
        ("call-nest", Box::new(|k| format!("{}a{}", "f(".repeat(k), ")".repeat(k)))),
        ("call-chain", Box::new(|k| format!("f{}", "(a)".repeat(k)))),
        ("unary", Box::new(|k| format!("{}a", "!-".repeat(k / 2 + 1)))),
        ("array-nest", Box::new(|k| format!("{}a{}", "[".repeat(k), "]".repeat(k)))),
        ("object-nest", Box::new(|k| format!("{}a{}", "{x: ".repeat(k), "}".repeat(k)))),
        ("spread-nest", Box::new(|k| format!("{}a{}", "[...".repeat(k), "]".repeat(k)))),
        ("nullish-of-member", Box::new(|k| format!("{}a{}", "(".repeat(k), ".x ?? b)".repeat(k)))),
        ("typeof-paren", Box::new(|k| format!("{}a{}", "typeof (".repeat(k), ")".repeat(k)))),
    ];
    let contexts: Vec<(&str, Box<dyn Fn(&str) -> String>)> = vec![
        ("text", Box::new(|e| format!("<v>{{{{ {} }}}}</v>", e))),
        ("attr", Box::new(|e| format!("<v a=\"{{{{ {} }}}}\"/>", e))),
        ("for", Box::new(|e| format!("<v wx:for=\"{{{{ {} }}}}\" wx:key=\"k\" model:x=\"{{{{ item.x }}}}\">{{{{ item }}}}</v>", e))),
        ("data", Box::new(|e| format!("<template is=\"t\" data=\"{{{{ x: {} }}}}\"/>", e))),
    ];
    for (name, f) in depth_families.iter() {
        for (cname, ctx) in contexts.iter() {
            for k in [2usize, 4, 8, 12, 16, 20, 24, 32, 48, 62] {
                let src = ctx(&f(k));
                let t0 = std::time::Instant::now();
                let r = catch(std::panic::AssertUnwindSafe(|| exercise_template("p", &src)));
                let ms = t0.elapsed().as_secs_f64() * 1000.0;
                let outb = r.as_ref().map(|x| *x).unwrap_or(0);
                out.raw(&format!("DEPTH {}/{} k={} bytes={} out={} ms={:.2} ok={}", name, cname, k, src.len(), outb, ms, r.is_ok()));
                out.flush();
                // a family that explodes is reported by the driver from the points so far: stop before it exhausts memory
                if outb > 4000 * src.len() + 2_000_000 || ms > 4000.0 {
                    break;
                }
            }
        }
    }
    let css_families: Vec<(&str, Box<dyn Fn(usize) -> String>)> = vec![
        ("css-rules", Box::new(|n| ".a .b > .c:not(.d) { width: 10rpx; margin: calc(1rpx + 2px) }".repeat(n))),
        ("css-hosts", Box::new(|n| "@media x { :host { a: 1rpx } .p { q: r } }".repeat(n))),
        // long flat runs where the transformer reads the tokens itself (no nesting): comments between selector tokens, in
        // selector functions, at-rule parentheses and calc sums; many tokens in one prelude / one block
        ("css-comment-run-selector", Box::new(|n| format!(".a{}.b{{c:d}}", "/**/".repeat(n * 8)))),
        ("css-comment-run-function", Box::new(|n| format!(".a:not({} .b){{w:calc(1px {}+ 2rpx)}}@media ({}min-width:1rpx){{.c{{}}}}", "/*x*/".repeat(n * 8), "/**/".repeat(n * 8), "/**/".repeat(n * 8)))),
        ("css-long-selector", Box::new(|n| format!("{}{{c:d}}", ".a > .b ~ c ".repeat(n)))),
        ("css-long-value", Box::new(|n| format!(".a{{b:{}}}", "1rpx calc(1px + 2px) ".repeat(n)))),
    ];
    for (name, f) in css_families.iter() {
        for n in &sizes {
            let src = f(*n);
            let t0 = std::time::Instant::now();
            let r = catch(std::panic::AssertUnwindSafe(|| exercise_css(&src)));
            let ms = t0.elapsed().as_secs_f64() * 1000.0;
            out.raw(&format!("SCALE {} n={} bytes={} ms={:.2} ok={}", name, n, src.len(), ms, r.is_ok()));
            out.flush();
        }
    }
}
