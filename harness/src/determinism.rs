//! C20: emitted bytes must not depend on insertion order or on the process (hash seeds).
use crate::artefacts::*;
use crate::util::*;
use glass_easel_stylesheet_compiler::{StyleSheetOptions, StyleSheetTransformer};
use glass_easel_template_compiler::TmplGroup;

fn fnv(s: &str) -> u64 {
    let mut h: u64 = 0xcbf29ce484222325;
    for b in s.as_bytes() {
        h ^= *b as u64;
        h = h.wrapping_mul(0x100000001b3);
    }
    h
}

fn permutations(n: usize, rng: &mut Rng, limit: usize) -> Vec<Vec<usize>> {
    let mut all = vec![];
    fn rec(cur: &mut Vec<usize>, used: &mut Vec<bool>, n: usize, all: &mut Vec<Vec<usize>>) {
        if cur.len() == n {
            all.push(cur.clone());
            return;
        }
        for i in 0..n {
            if !used[i] {
                used[i] = true;
                cur.push(i);
                rec(cur, used, n, all);
                cur.pop();
                used[i] = false;
            }
        }
    }
    if n <= 4 {
        rec(&mut vec![], &mut vec![false; n], n, &mut all);
    } else {
        for _ in 0..limit {
            let mut p: Vec<usize> = (0..n).collect();
            for i in (1..n).rev() {
                let j = rng.below(i + 1);
                p.swap(i, j);
            }
            all.push(p);
        }
        all.push((0..n).collect());
        all.push((0..n).rev().collect());
    }
    all
}

/// order in which `G["path"]=` assignments appear in the bundle
fn g_order(bundle: &str, paths: &[String]) -> Vec<String> {
    let mut pos: Vec<(usize, String)> = paths
        .iter()
        .filter_map(|p| bundle.find(&format!("G[{:?}]=", p)).map(|i| (i, p.clone())))
        .collect();
    pos.sort();
    pos.into_iter().map(|x| x.1).collect()
}

/// `order`: the groups are always GENERATED in the same sequence; they are COMPILED in this process in index order (0),
/// in reverse (1), or the script-less groups first (2): what a group emits must not depend on what the process compiled before
pub fn run(tier: &str, seed: u64, order: usize, out: &mut Out) {
    let mut rng = Rng::new(seed ^ 0xc20);
    let n_groups = if tier == "thorough" { 40 } else { 10 };
    let mut prepared = vec![];
    for gi in 0..n_groups {
        let k = 2 + (gi % 5); // 2..6 files
        let mut g = gen_group(&mut rng, k, 2, false);
        if gi % 3 == 1 {
            g.scripts.clear();
        }
        // several data fields per file: binding-map key order is part of the output
        for f in g.files.iter_mut() {
            f.1.push_str("<v a=\"{{zz+aa+mm}}\" b=\"{{bb}}{{yy}}\">{{kk}}{{aa}}</v>");
            // names that only differ in letter case, or that collate differently under other orders
            f.1.push_str("<v c=\"{{userName}}{{username}}{{UserName}}{{USERNAME}}\" d=\"{{itemID}}{{itemId}}{{item_id}}{{Z}}{{a1}}{{a10}}{{a2}}{{_x}}{{$y}}\"/>");
        }
        // character references in unusual spellings (names that differ from a known one only in letter case, with several
        // candidates; unknown names; upper-case `X`): what they decode to must not depend on the process
        for f in g.files.iter_mut() {
            f.1.push_str("<v t=\"&AACUTE;&DAGGER;&PRIME;&Amp;&NBSP;&aMp;&OUML;&LT;&notanentity;&#X41;&#x1F600;\">&AACUTE; &DAGGER; &PRIME; &Amp; &NBSP; &OUML; &EACUTE; &Gt; &ETH; &oSLASH; &Nu; &NU; &PI; &SIGMA; &THORN; &YACUTE;</v>");
        }
        // a third of the groups has no external script at all (the script runtime then depends on inline wxs only)
        if g.scripts.is_empty() && gi % 3 != 1 {
            g.scripts.push(("s/z".into(), "exports.z = 1".into()));
            g.scripts.push(("s/a".into(), "exports.a = 1".into()));
            g.scripts.push(("b".into(), "exports.b = 1".into()));
        }
        // a file with several imports whose targets are all in the group (the import chain of the emitted code)
        if g.files.len() >= 3 && gi % 2 == 0 {
            let targets: Vec<String> = g.files.iter().map(|x| x.0.clone()).collect();
            for (fi, f) in g.files.iter_mut().enumerate() {
                let mut head = String::new();
                for (ti, t) in targets.iter().enumerate() {
                    if ti != fi {
                        head.push_str(&format!("<import src=\"/{}\"/>", t));
                    }
                }
                head.push_str(&format!("<template name=\"shared\">from {}</template><template name=\"own{}\">o</template>", fi, fi));
                f.1 = format!("{}{}<template is=\"shared\"/><template is=\"own{}\"/>", head, f.1, (fi + 1) % targets.len());
            }
        }
        let paths: Vec<String> = g.files.iter().map(|x| x.0.clone()).collect();
        let perms = permutations(g.files.len(), &mut rng, 12);
        prepared.push((gi, k, g, paths, perms));
    }
    // two more groups: one without any script (no external script, no inline module) and one with both
    {
        let mut plain = gen_group(&mut rng, 2, 1, false);
        plain.scripts.clear();
        for (k, f) in plain.files.iter_mut().enumerate() {
            f.1 = format!("<view id=\"{}\">{{{{ a }}}}<text>{{{{ b.c }}}}</text></view>", k);
        }
        let paths: Vec<String> = plain.files.iter().map(|x| x.0.clone()).collect();
        let perms = permutations(plain.files.len(), &mut rng, 12);
        prepared.push((n_groups, 2, plain, paths, perms));
        let mut scripted = gen_group(&mut rng, 2, 1, false);
        scripted.scripts = vec![("lib/s".into(), "exports.s = 1".into())];
        for (k, f) in scripted.files.iter_mut().enumerate() {
            f.1 = format!("<wxs module=\"m\">exports.x = {}</wxs><wxs module=\"s\" src=\"/lib/s\"/><view>{{{{ m.x }}}}{{{{ s.s }}}}</view>", k);
        }
        let paths: Vec<String> = scripted.files.iter().map(|x| x.0.clone()).collect();
        let perms = permutations(scripted.files.len(), &mut rng, 12);
        prepared.push((n_groups + 1, 2, scripted, paths, perms));
    }
    let has_script = |i: usize| -> bool { !prepared[i].2.scripts.is_empty() || prepared[i].2.files.iter().any(|f| f.1.contains("<wxs")) };
    let mut idx: Vec<usize> = (0..prepared.len()).collect();
    match order {
        1 => idx.reverse(),
        2 => idx.sort_by_key(|i| (has_script(*i), *i)),
        _ => {}
    }
    let mut lines: Vec<(usize, Vec<String>)> = vec![];
    for pi_ in idx {
        let (gi, k, g, paths, perms) = &prepared[pi_];
        let (gi, k) = (*gi, *k);
        let mut glines: Vec<String> = vec![];
        let mut reference: Option<Vec<(String, String)>> = None;
        let mut n_diff = 0;
        let mut first_diff = String::new();
        for (pi, perm) in perms.iter().enumerate() {
            let mut tg = TmplGroup::new();
            // scripts first or last, in permuted order as well
            let mut sidx: Vec<usize> = (0..g.scripts.len()).collect();
            if pi % 2 == 1 {
                sidx.reverse();
            }
            if pi % 3 == 0 {
                for i in &sidx {
                    tg.add_script(&g.scripts[*i].0, &g.scripts[*i].1);
                }
            }
            for i in perm {
                { crate::util::note_input(&*g.files[*i].1); tg.add_tmpl(&g.files[*i].0, &g.files[*i].1) };
            }
            if pi % 3 != 0 {
                for i in &sidx {
                    tg.add_script(&g.scripts[*i].0, &g.scripts[*i].1);
                }
            }
            let arts = all_artefacts(&tg, &paths);
            match &reference {
                None => reference = Some(arts),
                Some(r) => {
                    for (a, b) in r.iter().zip(arts.iter()) {
                        if a.1 != b.1 {
                            n_diff += 1;
                            if first_diff.is_empty() {
                                first_diff = format!("{} differs for insertion order {:?}", a.0, perm);
                            }
                        }
                    }
                }
            }
        }
        // import_group == adding directly, for every way of splitting the files and scripts between the importing and the
        // imported group and for the import happening before or after the importing group's own additions
        let mut imported_all: Vec<Vec<(String, String)>> = vec![];
        let nf = g.files.len();
        let ns = g.scripts.len();
        // (files kept by main, scripts kept by main, import first?)
        let mut splits: Vec<(Vec<usize>, Vec<usize>, bool)> = vec![
            (vec![0], vec![], false),
            (vec![], (0..ns).collect(), false),
            (vec![], vec![], false),
            ((0..nf).collect(), vec![], false),
            (vec![0], (0..ns).step_by(2).collect(), false),
            (vec![0], (0..ns).collect(), true),
            ((0..nf).filter(|i| i % 2 == 1).collect(), (0..ns).filter(|i| i % 2 == 1).collect(), true),
        ];
        splits.dedup();
        for (mf, ms, import_first) in &splits {
            let mut sub = TmplGroup::new();
            for (i, (p, s)) in g.files.iter().enumerate() {
                if !mf.contains(&i) {
                    { crate::util::note_input(&*s); sub.add_tmpl(p, s) };
                }
            }
            for (i, (p, s)) in g.scripts.iter().enumerate() {
                if !ms.contains(&i) {
                    sub.add_script(p, s);
                }
            }
            let mut main = TmplGroup::new();
            if *import_first {
                main.import_group(&sub);
            }
            for i in ms {
                main.add_script(&g.scripts[*i].0, &g.scripts[*i].1);
            }
            for i in mf {
                { crate::util::note_input(&*g.files[*i].1); main.add_tmpl(&g.files[*i].0, &g.files[*i].1) };
            }
            if !*import_first {
                main.import_group(&sub);
            }
            imported_all.push(all_artefacts(&main, &paths));
        }
        // development mode (TmplGroup::new_dev: the generated code carries the list of active attributes of every element):
        // compiled twice in this process, compared across processes through the digest
        let dev = |rev: bool| -> Vec<(String, String)> {
            let mut tg = TmplGroup::new_dev();
            let mut idx: Vec<usize> = (0..g.files.len()).collect();
            if rev {
                idx.reverse();
            }
            for (p, s) in g.scripts.iter() {
                tg.add_script(p, s);
            }
            for i in idx {
                { crate::util::note_input(&*g.files[i].1); tg.add_tmpl(&g.files[i].0, &g.files[i].1) };
            }
            all_artefacts(&tg, &paths)
        };
        let dev_a = dev(false);
        let dev_b = dev(true);
        let dev_same = dev_a.iter().zip(dev_b.iter()).all(|(a, b)| a.1 == b.1);
        let dev_digest: u64 = dev_a.iter().fold(0u64, |h, (k, s)| h.rotate_left(7) ^ fnv(k) ^ fnv(s));
        // the imported group replaces files the importing group already holds under the same path (as adding them would)
        {
            let mut sub = TmplGroup::new();
            for (p, s) in g.files.iter() {
                { crate::util::note_input(&*s); sub.add_tmpl(p, s) };
            }
            for (p, s) in g.scripts.iter() {
                sub.add_script(p, s);
            }
            let mut main = TmplGroup::new();
            if let Some((p, _)) = g.files.first() {
                main.add_tmpl(p, "<view>stale content of the importing group</view>");
            }
            if let Some((p, _)) = g.scripts.first() {
                main.add_script(p, "exports.stale = 1");
            }
            main.import_group(&sub);
            imported_all.push(all_artefacts(&main, &paths));
        }
        let r = reference.unwrap();
        let import_equal = imported_all.iter().all(|imported| imported.iter().zip(r.iter()).all(|(a, b)| a.1 == b.1));
        let digest: Vec<String> = r.iter().map(|(k, s)| format!("{}={:016x}", k, fnv(s))).collect();
        let bundle = &r.iter().find(|x| x.0 == "tmpl_gen_object_groups").unwrap().1;
        let order = g_order(bundle, paths);
        glines.push(format!(
            "GROUP {} files={} perms={} perm_diffs={} import_equal={} first_diff={:?} digest={}",
            gi, k, perms.len(), n_diff + if dev_same { 0 } else { 1 }, import_equal,
            if first_diff.is_empty() && !dev_same { "development-mode artefacts differ between two compilations".to_string() } else { first_diff.clone() },
            digest.join(",") + &format!(",dev={:016x}", dev_digest)
        ));
        // model case: emission order of the G[...] assignments
        let keys: Vec<String> = paths.iter().map(|p| enc(p)).collect();
        let obs: Vec<String> = order.iter().map(|p| enc(p)).collect();
        glines.push(format!("sort_keys\t{}\t=>\t{}", keys.join(";"), obs.join(";")));
        lines.push((gi, glines));
    }
    // printed in group order, whatever the compilation order was
    lines.sort_by_key(|x| x.0);
    for (_, gl) in lines {
        for l in gl {
            out.raw(&l);
        }
    }
    // stylesheets: same input and options twice in this process (cross-process comparison is done by the caller)
    let css_inputs = [
        ".a .b > .c { width: 10rpx; color: red } @media (min-width: 1px) { .d { margin: calc(1rpx + 2px) } }",
        ":host { color: red } @import 'a.wxss'; .x:not(.y) { top: 1.5rpx }",
    ];
    // the sheet is also compiled under a relative path that exists on disk below the working directory, in a scratch
    // directory of this process: nothing of the machine (checkout location, working directory) may reach the outputs
    let scratch = std::env::temp_dir().join(format!("verif_c20_{}_{}", std::process::id(), order));
    let rel = "components/card/card.wxss";
    let _ = std::fs::create_dir_all(scratch.join("components/card"));
    let old_cwd = std::env::current_dir().ok();
    let on_disk = std::fs::write(scratch.join(rel), css_inputs[0]).is_ok() && std::env::set_current_dir(&scratch).is_ok();
    for (i, css) in css_inputs.iter().enumerate() {
        let path = if i == 0 && on_disk { rel } else { "p.wxss" };
        let mk = || {
            let opts = StyleSheetOptions {
                class_prefix: Some("p".into()),
                class_prefix_sign: Some("SIGN".into()),
                rpx_ratio: 750.,
                import_sign: Some("IMPORT".into()),
                convert_host: true,
                host_is: Some("h".into()),
            };
            let t = StyleSheetTransformer::from_css(path, css, opts);
            let (a, b) = t.output_and_low_priority_output();
            let mut s1 = String::new();
            let mut s2 = String::new();
            a.write_str(&mut s1).unwrap();
            b.write_str(&mut s2).unwrap();
            let mut m = vec![];
            a.write_source_map(&mut m).unwrap();
            format!("{}\n{}\n{}", s1, s2, String::from_utf8_lossy(&m))
        };
        let x = mk();
        let y = mk();
        out.raw(&format!("CSS {} same_in_process={} digest={:016x}", i, x == y, fnv(&x)));
    }
    if let Some(d) = old_cwd {
        let _ = std::env::set_current_dir(d);
    }
    let _ = std::fs::remove_dir_all(&scratch);
}
