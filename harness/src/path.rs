//! C13: path algebra through the hooks and through the public dependency queries.
use crate::util::*;
use glass_easel_template_compiler::verif_hooks as hooks;
use glass_easel_template_compiler::TmplGroup;

fn seg_lists(max: usize) -> Vec<Vec<&'static str>> {
    let alphabet = ["a", "b", ".", "..", ""];
    let mut all: Vec<Vec<&'static str>> = vec![];
    let mut cur: Vec<Vec<&'static str>> = vec![vec![]];
    for _ in 0..max {
        let mut next = vec![];
        for p in &cur {
            for a in alphabet.iter() {
                let mut q = p.clone();
                q.push(*a);
                next.push(q);
            }
        }
        all.extend(next.iter().cloned());
        cur = next;
    }
    all
}

pub fn run(tier: &str, seed: u64, out: &mut Out) {
    let mut rng = Rng::new(seed);
    let max = if tier == "thorough" { 4 } else { 3 };
    let lists = seg_lists(max);
    let paths: Vec<String> = lists.iter().map(|l| l.join("/")).collect();
    // exhaustive pairs (hook level)
    for b in &paths {
        for r in &paths {
            for lead in ["", "/"] {
                let rel = format!("{}{}", lead, r);
                let res = hooks::path_resolve(b, &rel);
                out.case(&["path_resolve", &enc(b), &enc(&rel)], &enc(&res));
            }
        }
    }
    for p in &paths {
        out.case(&["path_normalize", &enc(p)], &enc(&hooks::path_normalize(p)));
        let p2 = format!("/{}", p);
        out.case(&["path_normalize", &enc(&p2)], &enc(&hooks::path_normalize(&p2)));
    }
    // random longer / odd-character paths
    let odd = ["a", "b", ".", "..", "", "...", ".a", "a.", "é", "x y", "\\", "'", "a.wxml", ".wxml", "%2e"];
    let n_rand = if tier == "thorough" { 200_000 } else { 20_000 };
    let gen = |rng: &mut Rng| -> String {
        let n = rng.below(7);
        let mut v = vec![];
        for _ in 0..n {
            v.push(*rng.pick(&odd));
        }
        let s = v.join("/");
        if rng.chance(1, 4) { format!("/{}", s) } else { s }
    };
    for _ in 0..n_rand {
        let b = gen(&mut rng);
        let r = gen(&mut rng);
        let res = hooks::path_resolve(&b, &r);
        out.case(&["path_resolve", &enc(&b), &enc(&r)], &enc(&res));
    }
    // dependency queries through the public API: <import>/<include>/<wxs src> with suffixes
    let n_dep = if tier == "thorough" { 30_000 } else { 6_000 };
    let all4 = seg_lists(4);
    for i in 0..n_dep {
        let b = {
            let l = &all4[rng.below(all4.len())];
            let mut s = l.join("/");
            if s.is_empty() { s = "t".into(); }
            s
        };
        let r = {
            let l = &all4[rng.below(all4.len())];
            let mut s = l.join("/");
            if rng.chance(1, 3) { s = format!("/{}", s); }
            s
        };
        let kind = i % 3;
        let suffix = if kind == 2 { ".wxs" } else { ".wxml" };
        let w = match rng.below(5) {
            0 => format!("{}{}", r, suffix),
            1 => format!("{}{}{}", r, suffix, suffix),
            2 => format!("{}{}", r, if kind == 2 { ".wxml" } else { ".wxs" }),
            _ => r.to_string(),
        };
        let src = match kind {
            0 => format!("<import src=\"{}\"/><div/>", w),
            1 => format!("<include src=\"{}\"/><div/>", w),
            _ => format!("<wxs module=\"m\" src=\"{}\"/><div/>", w),
        };
        let mut g = TmplGroup::new();
        g.add_tmpl(&b, &src);
        let deps: Vec<String> = if kind == 2 {
            g.script_dependencies(&b).unwrap().collect()
        } else {
            g.direct_dependencies(&b).unwrap().collect()
        };
        let js = g.get_tmpl_gen_object(&b).unwrap_or_default();
        let res = match deps.len() {
            0 => "?".to_string(),
            1 => {
                let d = &deps[0];
                let linked = match kind {
                    0 => js.contains(&format!("(G[{:?}]||{{}})._", d)),
                    1 => js.contains(&format!("=G[{:?}]", d)),
                    _ => js.contains(&format!("=R[{:?}]()", d)),
                };
                format!("{};{}", enc(d), if linked { "linked" } else { "NOT-LINKED" })
            }
            _ => "MANY".to_string(),
        };
        let kinds = ["import", "include", "wxs"];
        out.case(&["path_dep", kinds[kind], &enc(&b), &enc(&w)], &res);
    }
}
