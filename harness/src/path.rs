//! C13: path algebra through the hooks and through the public dependency queries.
use crate::util::*;
use glass_easel_template_compiler::verif_hooks as hooks;
use glass_easel_template_compiler::TmplGroup;

fn seg_lists(max: usize) -> Vec<Vec<&'static str>> {
    let alphabet = ["a", "b", ".", "..", ""];
    let mut all: Vec<Vec<&'static str>> = vec![];
    let mut cur: Vec<Vec<&'static str>> = vec![vec![]];
    for _ in 0..max {
        let mut next = vec![];
        for p in &cur {
            for a in alphabet.iter() {
                let mut q = p.clone();
                q.push(*a);
                next.push(q);
            }
        }
        all.extend(next.iter().cloned());
        cur = next;
    }
    all
}

pub fn run(tier: &str, seed: u64, out: &mut Out) {
    let mut rng = Rng::new(seed);
    let max = if tier == "thorough" { 4 } else { 3 };
    let lists = seg_lists(max);
    let paths: Vec<String> = lists.iter().map(|l| l.join("/")).collect();
    // exhaustive pairs (hook level)
    for b in &paths {
        for r in &paths {
            for lead in ["", "/"] {
                let rel = format!("{}{}", lead, r);
                let res = hooks::path_resolve(b, &rel);
                out.case(&["path_resolve", &enc(b), &enc(&rel)], &enc(&res));
            }
        }
    }
    for p in &paths {
        out.case(&["path_normalize", &enc(p)], &enc(&hooks::path_normalize(p)));
        let p2 = format!("/{}", p);
        out.case(&["path_normalize", &enc(&p2)], &enc(&hooks::path_normalize(&p2)));
    }
    // random longer / odd-character paths
    let odd = ["a", "b", ".", "..", "", "...", ".a", "a.", "é", "x y", "\\", "'", "a.wxml", ".wxml", "%2e"];
    let n_rand = if tier == "thorough" { 200_000 } else { 20_000 };
    let gen = |rng: &mut Rng| -> String {
        let n = rng.below(7);
        let mut v = vec![];
        for _ in 0..n {
            v.push(*rng.pick(&odd));
        }
        let s = v.join("/");
        if rng.chance(1, 4) { format!("/{}", s) } else { s }
    };
    for _ in 0..n_rand {
        let b = gen(&mut rng);
        let r = gen(&mut rng);
        let res = hooks::path_resolve(&b, &r);
        out.case(&["path_resolve", &enc(&b), &enc(&r)], &enc(&res));
    }
    // dependency queries through the public API: <import>/<include>/<wxs src> with suffixes
    let n_dep = if tier == "thorough" { 30_000 } else { 6_000 };
    let all4 = seg_lists(4);
    for i in 0..n_dep {
        let b = {
            let l = &all4[rng.below(all4.len())];
            let mut s = l.join("/");
            if s.is_empty() { s = "t".into(); }
            s
        };
        let r = {
            let l = &all4[rng.below(all4.len())];
            let mut s = l.join("/");
            if rng.chance(1, 3) { s = format!("/{}", s); }
            s
        };
        let kind = i % 3;
        let suffix = if kind == 2 { ".wxs" } else { ".wxml" };
        let w = match rng.below(5) {
            0 => format!("{}{}", r, suffix),
            1 => format!("{}{}{}", r, suffix, suffix),
            2 => format!("{}{}", r, if kind == 2 { ".wxml" } else { ".wxs" }),
            _ => r.to_string(),
        };
        let src = match kind {
            0 => format!("<import src=\"{}\"/><div/>", w),
            1 => format!("<include src=\"{}\"/><div/>", w),
            _ => format!("<wxs module=\"m\" src=\"{}\"/><div/>", w),
        };
        let mut g = TmplGroup::new();
        { crate::util::note_input(&*src); g.add_tmpl(&b, &src) };
        let deps: Vec<String> = if kind == 2 {
            g.script_dependencies(&b).unwrap().collect()
        } else {
            g.direct_dependencies(&b).unwrap().collect()
        };
        let js = g.get_tmpl_gen_object(&b).unwrap_or_default();
        let res = match deps.len() {
            0 => "?".to_string(),
            1 => {
                let d = &deps[0];
                let linked = match kind {
                    0 => js.contains(&format!("(G[{:?}]||{{}})._", d)),
                    1 => js.contains(&format!("=G[{:?}]", d)),
                    _ => js.contains(&format!("=R[{:?}]()", d)),
                };
                format!("{};{}", enc(d), if linked { "linked" } else { "NOT-LINKED" })
            }
            _ => "MANY".to_string(),
        };
        let kinds = ["import", "include", "wxs"];
        out.case(&["path_dep", kinds[kind], &enc(&b), &enc(&w)], &res);
    }
}

// ---------------------------------------------------------------- linking (rendered under node)

/// small multi-file groups in several insertion orders: which file's template / include / script a
/// reference reaches when the bundle is executed
pub fn run_links(tier: &str, seed: u64, out: &mut Out) {
    use glass_easel_template_compiler::TmplGroup;
    // dangling references whose resolved paths are spelled like members of Object.prototype: nothing is linked, nothing throws
    {
        let src = "before<include src=\"../constructor.wxml\"/><import src=\"/hasOwnProperty\"/><import src=\"../toString\"/><template is=\"call\"/><template is=\"constructor\"/><include src=\"/valueOf\"/>after";
        let mut tg = TmplGroup::new();
        { crate::util::note_input(src); tg.add_tmpl("pages/index", src) };
        tg.add_tmpl("pages/other", "<view>other</view>");
        let job = serde_json::json!({"kind": "dangling", "main": "pages/index", "src": src, "bundle": tg.get_tmpl_gen_object_groups().unwrap_or_default(),
                                     "bundle_wx": tg.get_wx_gen_object_groups().unwrap_or_default(), "expect": "beforeafter"});
        out.raw(&job.to_string());
    }
    let mut rng = Rng::new(seed ^ 0x11f);
    let n = if tier == "thorough" { 600 } else { 80 };
    // registered paths (normalised) and how a referrer at `pages/main` may spell them
    let targets: [(&str, &[&str]); 4] = [
        ("pages/x", &["x", "./x", "x.wxml", "/pages/x", "../pages/x", "./a/../x", "/pages/./x.wxml"]),
        ("pages/sub/y", &["sub/y", "./sub/y.wxml", "/pages/sub/y", "sub/../sub/y", "sub/./y"]),
        ("z", &["../z", "/z", "/z.wxml", "../../z", "./../z", "/a/../z"]),
        ("lib/w", &["../lib/w", "/lib/w", "/lib/w.wxml", "../lib/./w"]),
    ];
    // (names found on Object.prototype: a table lookup must not see them unless a file defines them)
    let names = ["t", "u", "v", "toString", "constructor", "__proto__"];
    for gi in 0..n {
        let main_path = "pages/main";
        // which names each file defines
        let mut files: Vec<(String, String, Vec<&str>)> = vec![]; // (path, source, defs)
        for (tp, _) in targets.iter() {
            let defs: Vec<&str> = names.iter().cloned().filter(|_| rng.chance(1, 2)).collect();
            let mut src = String::new();
            for d in &defs {
                src.push_str(&format!("<template name=\"{}\">[{}@{}]</template>", d, d, tp));
            }
            src.push_str(&format!("(inc@{})", tp));
            files.push((tp.to_string(), src, defs));
        }
        let local: Vec<&str> = names.iter().cloned().filter(|_| rng.chance(1, 4)).collect();
        let k = rng.below(4);
        let mut imports: Vec<String> = vec![];
        let mut main_src = String::new();
        for d in &local {
            main_src.push_str(&format!("<template name=\"{}\">[{}@{}]</template>", d, d, main_path));
        }
        for _ in 0..k {
            let (_, spellings) = targets[rng.below(targets.len())];
            let s = rng.pick(spellings).to_string();
            main_src.push_str(&format!("<import src=\"{}\"/>", s));
            imports.push(s);
        }
        let inc = { let (_, sp) = targets[rng.below(targets.len())]; rng.pick(sp).to_string() };
        main_src.push_str(&format!("<include src=\"{}\"/>", inc));
        let (script_path, script_spellings): (&str, &[&str]) = *rng.pick(&[("pages/s", &["s.wxs", "./s", "/pages/s.wxs", "../pages/s"][..]), ("lib/s", &["../lib/s.wxs", "/lib/s", "../lib/./s"][..])]);
        let wxs = rng.pick(script_spellings).to_string();
        // half of the files declare an inline module BEFORE the external one (each reference must stay on its own module)
        let inline_first = rng.chance(1, 2);
        if inline_first {
            main_src.push_str(&format!("<wxs module=\"loc\">exports.id = 'L@inline'</wxs><wxs module=\"m\" src=\"{}\"/>{{{{ m.id }}}}{{{{ loc.id }}}}", wxs));
        } else {
            main_src.push_str(&format!("<wxs module=\"m\" src=\"{}\"/>{{{{ m.id }}}}", wxs));
        }
        for nm in names {
            main_src.push_str(&format!("<template is=\"{}\"/>", nm));
        }
        files.push((main_path.to_string(), main_src.clone(), local.clone()));
        let scripts = vec![("pages/s".to_string(), "exports.id = 's@pages/s'".to_string()), ("lib/s".to_string(), "exports.id = 's@lib/s'".to_string())];
        // insertion orders
        let orders: Vec<Vec<usize>> = {
            let mut v = vec![(0..files.len()).collect::<Vec<_>>(), (0..files.len()).rev().collect::<Vec<_>>()];
            for _ in 0..2 {
                let mut o: Vec<usize> = (0..files.len()).collect();
                for i in (1..o.len()).rev() {
                    let j = rng.below(i + 1);
                    o.swap(i, j);
                }
                v.push(o);
            }
            v
        };
        let mut bundles = vec![];
        for (oi, o) in orders.iter().enumerate() {
            let mut tg = TmplGroup::new();
            if oi % 2 == 0 {
                for (p, s) in &scripts {
                    tg.add_script(p, s);
                }
            }
            for &i in o {
                { crate::util::note_input(&*files[i].1); tg.add_tmpl(&files[i].0, &files[i].1) };
            }
            if oi % 2 == 1 {
                for (p, s) in scripts.iter().rev() {
                    tg.add_script(p, s);
                }
            }
            bundles.push(tg.get_tmpl_gen_object_groups().unwrap_or_default());
        }
        let reg: Vec<String> = files.iter().map(|(p, _, d)| format!("{}:{}", enc(p), d.iter().map(|x| enc(x)).collect::<Vec<_>>().join("+"))).collect();
        let job = serde_json::json!({
            "kind": "links", "id": gi, "main": main_path, "src": main_src, "bundles": bundles, "inline_first": inline_first,
            "model_args": [enc(main_path), local.iter().map(|x| enc(x)).collect::<Vec<_>>().join("+"),
                           imports.iter().map(|x| enc(x)).collect::<Vec<_>>().join("+"), reg.join(";")],
            "include": [enc(main_path), enc(&inc)], "wxs": [enc(main_path), enc(&wxs)], "script_registered": script_path,
            "files": files.iter().map(|(p, s, _)| (p.clone(), s.clone())).collect::<Vec<_>>(),
        });
        out.raw(&job.to_string());
    }
}
