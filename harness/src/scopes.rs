//! C05 / C07 (analysis level): scope resolution and binding-map collection of whole templates.
use crate::ast;
use crate::gen_tmpl::*;
use crate::util::*;
use glass_easel_template_compiler::TmplGroup;

pub fn root_a_init(js: &str) -> Option<&str> {
    let end = js.rfind(",K=U===true")?;
    let start = js[..end].rfind(",A=")? + 3;
    Some(&js[start..end])
}

pub fn gen_sources(tier: &str, seed: u64) -> Vec<String> {
    let mut rng = Rng::new(seed ^ 0x5c0);
    let n = if tier == "thorough" { 6000 } else { 800 };
    let mut v: Vec<String> = vec![
        // hand-written shapes: shadowing, index after item, list expression not seeing its own variables
        "<v wx:for=\"{{ item }}\">{{ item }}{{ index }}</v>".into(),
        "<v wx:for=\"{{ l }}\" wx:for-item=\"index\" wx:for-index=\"item\">{{ item }}{{ index }}</v>{{ item }}".into(),
        "<v wx:for=\"{{ l }}\" wx:for-item=\"a\" wx:for-index=\"a\">{{ a }}</v>".into(),
        "<v wx:for=\"{{ l }}\"><w wx:for=\"{{ item }}\">{{ [ , item, ...index] }}{{ {item, a: index} }}</w>{{ item }}</v>{{ index }}".into(),
        "<wxs module=\"item\">exports.x=1</wxs><template name=\"t\">{{ item }}{{ index }}</template><v wx:for=\"{{ item }}\">{{ item }}<template is=\"t\" data=\"{{ item }}\"/></v>".into(),
        "<c><v slot:a slot:b-c=\"a\" x=\"{{ a }}{{ bC }}\">{{ a }}{{ b }}</v>{{ a }}</c>".into(),
        "<v wx:if=\"{{ item }}\" wx:for=\"{{ l }}\">{{ item }}</v><v wx:elif=\"{{ item }}\"/>".into(),
        "<slot name=\"{{ a }}\" v=\"{{ b }}\" id=\"{{ c }}\"/><include src=\"x\"/>{{ d }}".into(),
        // a <slot> binds its own slot: values for its own attributes (name, value attributes, data:, mark:)
        "<c><slot name=\"cell-{{ n2 }}\" slot:row slot:pos=\"n2\" value=\"{{ row }}\" data:d=\"{{ n2 }}\" mark:m=\"{{ row.a }}\"/>{{ row }}{{ n2 }}</c>".into(),
        "<v wx:for=\"{{ l }}\" wx:for-item=\"row\"><c><slot slot:row=\"r2\" v=\"{{ row }}{{ r2 }}\"/></c></v>".into(),
        // slot: values bound on a <block>, with deeper scopes below
        "<c><block slot:a>{{ a }}<v wx:for=\"{{ l }}\">{{ item }}{{ index }}{{ a }}</v></block><block slot:b=\"bb\" wx:if=\"{{ c }}\">{{ bb }}{{ b }}</block></c>".into(),
        "<c><block wx:if=\"{{ a }}\"><v slot:p>{{ p }}</v></block><block wx:else><v slot:q>{{ q }}{{ p }}</v><c><w slot:x>{{ q }}{{ x }}</w></c></block></c>".into(),
        // a wx:for over a static string, a wx:if group whose conditions are all static: still dynamic subtrees
        "<v wx:for=\"abc\">{{ a }}{{ item }}</v><v x=\"{{ a }}\"/>".into(),
        "<v wx:if=\"on\">{{ b }}</v><v wx:else>{{ c }}</v><w y=\"{{ b }}{{ c }}\"/>".into(),
        // an include anywhere (static tree, wx:if / wx:for subtree, sub-template body) switches the binding map off
        "<v>{{ a }}</v><block wx:if=\"{{ b }}\"><include src=\"/inc\"/></block>".into(),
        "<v x=\"{{ a }}\"/><v wx:for=\"{{ l }}\"><include src=\"/inc\"/>{{ item }}</v>{{ c }}".into(),
        "<template name=\"t\"><include src=\"/inc\"/></template><v>{{ a }}</v><template is=\"t\"/>".into(),
        "<v wx:if=\"{{ b }}\">x</v><v wx:else><w wx:for=\"{{ l }}\"><include src=\"/inc\"/></w></v>{{ a }}{{ d }}".into(),
        // consecutive empty array slots before an item that reads a field
        "<v x=\"{{ [ , , a] }}\" y=\"{{ [ , , , ...c, , , d] }}\">{{ a }}{{ c }}{{ d }}</v><w wx:if=\"{{ [ , , , b][3] }}\">{{ b }}</w>{{ b }}".into(),
    ];
    for i in 0..n {
        let cfg = TmplCfg { max_depth: 2 + (i % 3), expr_depth: 1 + (i % 3), allow_include: if i % 9 == 0 { vec!["/inc".into()] } else { vec![] }, ..Default::default() };
        let mut g = TmplGen::new(&mut rng, cfg);
        v.push(g.file());
    }
    v
}

pub fn run(tier: &str, seed: u64, out: &mut Out) {
    for src in gen_sources(tier, seed) {
        let mut g = TmplGroup::new();
        { crate::util::note_input(&*src); g.add_tmpl("p", &src) };
        let t = g.get_tree("p").unwrap();
        let s = ast::Src::new(&src);
        let dump = ast::template(t, &s);
        let js = g.get_tmpl_gen_object("p").unwrap_or_default();
        let a = root_a_init(&js).unwrap_or("?");
        out.case(&["analyse", &dump], &format!("OK|{}", enc(a)));
    }
}

// ---------------------------------------------------------------- behavioural scope resolution (node)

use crate::gen::*;

/// nested wx:for / slot-value / wxs scopes with colliding names; the body is one text binding.
/// The reference is a JS program that resolves names lexically (innermost scope, then data).
pub fn run_val(tier: &str, seed: u64, out: &mut Out) {
    let mut rng = Rng::new(seed ^ 0x5c0fe);
    let n = if tier == "thorough" { 4000 } else { 500 };
    let names = ["item", "index", "a", "b", "l", "o", "x", "m"];
    for i in 0..n {
        let depth = 1 + rng.below(3);
        // scope stack for the reference: (name, js variable)
        let mut stack: Vec<(String, String)> = vec![];
        let with_module = rng.chance(1, 3);
        let mut head = String::new();
        let mut ref_head = String::from("(() => { const out = [];\n");
        if with_module {
            let m = rng.pick(&["m", "item", "a"]).to_string();
            head.push_str(&format!("<wxs module=\"{}\">exports.sub = [{{sub:[1,2]}}, 'x']; exports.a = 'MOD'</wxs>", m));
            ref_head.push_str("const MOD = {sub: [{sub:[1,2]}, 'x'], a: 'MOD'};\n");
            stack.push((m, "MOD".into()));
        }
        let mut open = String::new();
        let mut close = String::new();
        let mut ref_open = String::new();
        let mut ref_close = String::new();
        let mut n_slot_levels = 0;
        for d in 0..depth {
            // a slot-value level: <c><v slot:n1 slot:n2="alias">: one scope per reference, in attribute order
            if rng.chance(1, 3) {
                let pool = [("sv", "sv"), ("a-b", "aB"), ("item", "item"), ("x", "x")];
                let k = 1 + rng.below(3);
                let first = rng.below(pool.len());
                let mut attrs = String::new();
                for q in 0..k {
                    let (raw, camel) = pool[(first + q) % pool.len()];
                    let alias = if rng.chance(1, 2) { Some(*rng.pick(&["al", "index", "it2", "item", "a"])) } else { None };
                    match alias {
                        Some(al) => {
                            attrs.push_str(&format!(" slot:{}=\"{}\"", raw, al));
                            stack.push((al.to_string(), format!("SV[\"{}\"]", camel)));
                        }
                        None => {
                            attrs.push_str(&format!(" slot:{}", raw));
                            stack.push((camel.to_string(), format!("SV[\"{}\"]", camel)));
                        }
                    }
                }
                open.push_str(&format!("<c><v{}>", attrs));
                close = format!("</v></c>{}", close);
                n_slot_levels += 1;
                continue;
            }
            let idents: Vec<String> = DATA_FIELDS.iter().map(|s| s.to_string()).chain(stack.iter().map(|x| x.0.clone())).collect();
            // the list expression is resolved in the scopes outside this loop
            let list = match rng.below(4) {
                0 => GE::Ident("l".into()),
                1 if !stack.is_empty() => GE::Member(Box::new(GE::Ident(stack[rng.below(stack.len())].0.clone())), "sub".into()),
                2 => GE::Arr(vec![GA::Item(GE::Ident(rng.pick(&idents).clone())), GA::Item(GE::Num("2".into()))]),
                _ => GE::Ident(rng.pick(&idents).clone()),
            };
            let resolve = |name: &str, stack: &Vec<(String, String)>| -> Option<String> {
                stack.iter().rev().find(|x| x.0 == name).map(|x| x.1.clone())
            };
            let st = stack.clone();
            let list_ref = list.reference_js(&|n| resolve(n, &st));
            let mut no_extra = || false;
            let list_wxml = list.wxml(&mut no_extra);
            let item = if rng.chance(1, 2) { "item".to_string() } else { rng.pick(&names).to_string() };
            let index = if rng.chance(1, 2) { "index".to_string() } else { rng.pick(&names).to_string() };
            let mut attrs = format!(" wx:for=\"{{{{ {} }}}}\"", list_wxml);
            if item != "item" || rng.chance(1, 4) {
                attrs.push_str(&format!(" wx:for-item=\"{}\"", item));
            }
            if index != "index" || rng.chance(1, 4) {
                attrs.push_str(&format!(" wx:for-index=\"{}\"", index));
            }
            let tag = if rng.chance(1, 2) { "block" } else { "v" };
            open.push_str(&format!("<{}{}>", tag, attrs));
            close = format!("</{}>{}", tag, close);
            ref_open.push_str(&format!("for (const [v{d}, i{d}] of ITEMS({})) {{\n", list_ref, d = d));
            ref_close.push_str("}\n");
            // item first, then index
            stack.push((item, format!("v{}", d)));
            stack.push((index, format!("i{}", d)));
        }
        let idents: Vec<String> = DATA_FIELDS.iter().map(|s| s.to_string()).chain(stack.iter().map(|x| x.0.clone())).chain(stack.iter().map(|x| x.0.clone())).collect();
        let e = {
            let mut g = ExprGen { rng: &mut rng, idents: idents.clone(), allow_instanceof: false };
            let inner = g.gen(1 + (i % 3));
            // every position an identifier can sit in: a scope name is placed there explicitly
            let id = || GE::Ident(idents[idents.len() - 1 - (i % idents.len().min(4))].clone());
            let b = |x: GE| Box::new(x);
            match i % 16 {
                0 => GE::Arr(vec![GA::Hole, GA::Item(id())]),
                1 => GE::Arr(vec![GA::Item(inner), GA::Hole, GA::Hole, GA::Spread(GE::Arr(vec![GA::Item(id())]))]),
                2 => GE::Call(b(GE::Ident("f".into())), vec![inner, id()]),
                3 => GE::Obj(vec![GO::Named("k".into(), id()), GO::Spread(GE::Obj(vec![GO::Short(match id() { GE::Ident(s) => s, _ => "a".into() })]))]),
                4 => GE::Index(b(GE::Ident("o".into())), b(id())),
                5 => GE::Index(b(id()), b(GE::Str("sub".into()))),
                6 => GE::Cond(b(inner), b(id()), b(GE::Arr(vec![GA::Hole, GA::Item(id())]))),
                7 => GE::Cond(b(id()), b(inner), b(id())),
                8 => GE::Member(b(id()), "a".into()),
                9 => GE::Un("typeof", b(id())),
                10 => GE::Bin("??", b(id()), b(inner)),
                11 => GE::Bin("+", b(GE::Str("s".into())), b(id())),
                12 => GE::Call(b(GE::Member(b(id()), "f".into())), vec![GE::Arr(vec![GA::Hole, GA::Spread(id())])]),
                13 => GE::Obj(vec![GO::Short(match id() { GE::Ident(s) => s, _ => "a".into() }), GO::Named("z".into(), GE::Arr(vec![GA::Hole, GA::Hole, GA::Item(id())]))]),
                _ => inner,
            }
        };
        let st = stack.clone();
        let e_ref = e.reference_js(&|n| st.iter().rev().find(|x| x.0 == n).map(|x| x.1.clone()));
        let mut no_extra = || false;
        let e_wxml = e.wxml(&mut no_extra);
        // a sibling after the loops must not see the loop scopes (only the module)
        let after = GE::Ident(if depth > 0 { stack.last().unwrap().0.clone() } else { "a".into() });
        let st_after: Vec<(String, String)> = stack.iter().take(if with_module { 1 } else { 0 }).cloned().collect();
        let after_ref = after.reference_js(&|n| st_after.iter().rev().find(|x| x.0 == n).map(|x| x.1.clone()));
        // ... nor may they shift the scopes of a loop that follows
        // the same expression in every attribute family of one element: each position is resolved by the scope analysis
        let body = format!("<q mark:m=\"{{{{ {e} }}}}\" data:d=\"{{{{ {e} }}}}\" p=\"{{{{ {e} }}}}\" data-h=\"{{{{ {e} }}}}\" id=\"{{{{ {e} }}}}\" class=\"{{{{ {e} }}}}\" style=\"{{{{ {e} }}}}\" slot=\"{{{{ {e} }}}}\">T{{{{ {e} }}}}</q>",
                           e = e_wxml.replace('"', "&quot;"));
        let src = format!("{}{}{}{}<w/>A{{{{ {} }}}}<block wx:for=\"{{{{ [7] }}}}\" wx:for-item=\"z9\" wx:for-index=\"z8\">Z{{{{ z9 }}}}{{{{ {} }}}}</block>",
                          head, open, body, close, after.wxml(&mut no_extra), after.wxml(&mut no_extra));
        let reference = format!("{}const SV = {{sv: 'SLOT-sv', aB: [{{a: 'SLOT-aB', sub: ['s1', 's2']}}], item: {{a: 3, sub: {{k: 'SLOT-item'}}}}, x: 'SLOT-x'}};\n{}out.push('T' + Y({}));\n{}out.push('A' + Y({}));\nout.push('Z7' + Y({}));\nreturn out }})()",
                                ref_head, ref_open, e_ref, ref_close, after_ref, after_ref);
        let mut g = TmplGroup::new();
        let diags = { crate::util::note_input(&*src); g.add_tmpl("p", &src) };
        let max_level = diags.iter().map(|d| d.kind.level() as u8).max().unwrap_or(0);
        let bundle = g.get_tmpl_gen_object_groups().unwrap_or_default();
        // data with fields named like the scope variables
        let mut datas = vec![];
        for _ in 0..3 {
            let mut d = random_data(&mut rng);
            let o = d.get_mut("$o").unwrap().as_object_mut().unwrap();
            o.insert("l".into(), serde_json::json!({"$a": [{"$o": {"sub": {"$a": ["p", "q"]}, "a": 1}}, {"$o": {"sub": {"$o": {"k": "kv"}}, "a": 2}}]}));
            o.insert("item".into(), serde_json::json!("DATA-item"));
            o.insert("index".into(), serde_json::json!("DATA-index"));
            o.insert("x".into(), serde_json::json!({"$o": {"sub": {"$a": [7]}}}));
            o.insert("m".into(), serde_json::json!("DATA-m"));
            datas.push(d);
        }
        let job = serde_json::json!({"kind": "scopeval", "id": i, "src": src, "ref": reference, "bundle": bundle,
                                     "max_level": max_level, "datas": datas, "depth": depth, "module": with_module, "slot_levels": n_slot_levels,
                                     "slotValues": {"$o": {"sv": "SLOT-sv", "aB": {"$a": [{"$o": {"sub": {"$a": ["s1", "s2"]}, "a": "SLOT-aB"}}]},
                                                           "item": {"$o": {"sub": {"$o": {"k": "SLOT-item"}}, "a": 3}}, "x": "SLOT-x"}}});
        out.raw(&job.to_string());
    }
    // hand-written: an inline module declared before an external one (the generated variables of the two kinds of module
    // must follow the declaration order the analysis uses), read at top level, in a loop and in a sub-template
    {
        let src = "<wxs module=\"a\">exports.v = 'INL'</wxs><wxs module=\"b\" src=\"/e1\"/><wxs module=\"c\">exports.v = 'INL2'</wxs>X{{ a.v }}|{{ b.v }}|{{ c.v }}<block wx:for=\"{{ [1] }}\">Y{{ a.v }}{{ b.v }}{{ c.v }}{{ item }}</block><template name=\"t\">Z{{ b.v }}{{ a.v }}</template><template is=\"t\"/>";
        let mut g = TmplGroup::new();
        g.add_script("e1", "exports.v = 'EXT'");
        let diags = { crate::util::note_input(src); g.add_tmpl("p", src) };
        let max_level = diags.iter().map(|d| d.kind.level() as u8).max().unwrap_or(0);
        let bundle = g.get_tmpl_gen_object_groups().unwrap_or_default();
        let job = serde_json::json!({"kind": "scopeval", "id": n, "src": src, "ref": "(() => ['XINL|EXT|INL2', 'YINLEXTINL21', 'ZEXTINL'])()", "bundle": bundle,
                                     "max_level": max_level, "datas": [{"$o": {"a": "DATA-a", "b": "DATA-b"}}], "depth": 1, "module": true, "slot_levels": 0,
                                     "slotValues": {"$o": {}}});
        out.raw(&job.to_string());
    }
}
