//! C05 / C07 (analysis level): scope resolution and binding-map collection of whole templates.
use crate::ast;
use crate::gen_tmpl::*;
use crate::util::*;
use glass_easel_template_compiler::TmplGroup;

pub fn root_a_init(js: &str) -> Option<&str> {
    let end = js.rfind(",K=U===true")?;
    let start = js[..end].rfind(",A=")? + 3;
    Some(&js[start..end])
}

pub fn gen_sources(tier: &str, seed: u64) -> Vec<String> {
    let mut rng = Rng::new(seed ^ 0x5c0);
    let n = if tier == "thorough" { 6000 } else { 800 };
    let mut v: Vec<String> = vec![
        // hand-written shapes: shadowing, index after item, list expression not seeing its own variables
        "<v wx:for=\"{{ item }}\">{{ item }}{{ index }}</v>".into(),
        "<v wx:for=\"{{ l }}\" wx:for-item=\"index\" wx:for-index=\"item\">{{ item }}{{ index }}</v>{{ item }}".into(),
        "<v wx:for=\"{{ l }}\" wx:for-item=\"a\" wx:for-index=\"a\">{{ a }}</v>".into(),
        "<v wx:for=\"{{ l }}\"><w wx:for=\"{{ item }}\">{{ [ , item, ...index] }}{{ {item, a: index} }}</w>{{ item }}</v>{{ index }}".into(),
        "<wxs module=\"item\">exports.x=1</wxs><template name=\"t\">{{ item }}{{ index }}</template><v wx:for=\"{{ item }}\">{{ item }}<template is=\"t\" data=\"{{ item }}\"/></v>".into(),
        "<c><v slot:a slot:b-c=\"a\" x=\"{{ a }}{{ bC }}\">{{ a }}{{ b }}</v>{{ a }}</c>".into(),
        "<v wx:if=\"{{ item }}\" wx:for=\"{{ l }}\">{{ item }}</v><v wx:elif=\"{{ item }}\"/>".into(),
        "<slot name=\"{{ a }}\" v=\"{{ b }}\" id=\"{{ c }}\"/><include src=\"x\"/>{{ d }}".into(),
    ];
    for i in 0..n {
        let cfg = TmplCfg { max_depth: 2 + (i % 3), expr_depth: 1 + (i % 3), allow_include: if i % 9 == 0 { vec!["/inc".into()] } else { vec![] }, ..Default::default() };
        let mut g = TmplGen::new(&mut rng, cfg);
        v.push(g.file());
    }
    v
}

pub fn run(tier: &str, seed: u64, out: &mut Out) {
    for src in gen_sources(tier, seed) {
        let mut g = TmplGroup::new();
        g.add_tmpl("p", &src);
        let t = g.get_tree("p").unwrap();
        let s = ast::Src::new(&src);
        let dump = ast::template(t, &s);
        let js = g.get_tmpl_gen_object("p").unwrap_or_default();
        let a = root_a_init(&js).unwrap_or("?");
        out.case(&["analyse", &dump], &format!("OK|{}", enc(a)));
    }
}
