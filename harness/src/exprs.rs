//! C03 (and the expression part of C05/C06/C07/C11): generated code of single bindings.
use crate::ast;
use crate::gen::*;
use crate::util::*;
use glass_easel_template_compiler::parse::tag::{ClassAttribute, ElementKind, Node, StyleAttribute, Value};
use glass_easel_template_compiler::TmplGroup;

fn between<'a>(s: &'a str, start: &str, end: &str) -> Option<&'a str> {
    let i = s.find(start)? + start.len();
    let j = s.rfind(end)?;
    if j < i {
        return None;
    }
    Some(&s[i..j])
}

fn exprs_for(tier: &str, rng: &mut Rng) -> Vec<GE> {
    let mut v = exhaustive_depth2();
    let n = if tier == "thorough" { 6000 } else { 800 };
    let idents: Vec<String> = DATA_FIELDS.iter().map(|s| s.to_string()).collect();
    for i in 0..n {
        let depth = 2 + (i % 5);
        let mut g = ExprGen { rng, idents: idents.clone(), allow_instanceof: true };
        let e = g.gen(depth);
        if e.size() <= 60 {
            v.push(e);
        }
    }
    v
}

/// model/implementation text correspondence for one binding in four contexts
pub fn run_gen(tier: &str, seed: u64, out: &mut Out) {
    let mut rng = Rng::new(seed ^ 0xe3);
    let exprs = exprs_for(tier, &mut rng);
    for (i, e) in exprs.iter().enumerate() {
        let mut extra_rng = Rng::new(seed.wrapping_add(i as u64));
        let mut extra = || extra_rng.chance(1, 12);
        let text = e.wxml(&mut extra);
        // class / style / id / data-* / mark: (write_attribute_value, to_proc_gen_with_method); a third of the expressions
        let setters: &[(&str, &str)] = if i % 3 == 0 { &[("class", ""), ("style", ""), ("id", ""), ("data", "myK"), ("mark", "k-1")] }
            else if i % 3 == 1 { &[("change", "myProp"), ("ev", "tap"), ("evcatch", "tap"), ("evmut", "tap"), ("evcap", "tap"), ("evcapcatch", "tap")] } else { &[] };
        for (kind, name) in [("attr", "a"), ("model", "mo"), ("attr", "bindx"), ("text", "")].iter().chain(setters.iter()).cloned() {
            let src = match kind {
                "text" => format!("{{{{ {} }}}}", text),
                "model" => format!("<v model:{}=\"{{{{ {} }}}}\"/>", name, text),
                "class" | "style" | "id" => format!("<v {}=\"{{{{ {} }}}}\"/>", kind, text),
                "data" => format!("<v data-my-k=\"{{{{ {} }}}}\"/>", text),
                "mark" => format!("<v mark:{}=\"{{{{ {} }}}}\"/>", name, text),
                "change" => format!("<v change:my-prop=\"{{{{ {} }}}}\"/>", text),
                "ev" => format!("<v bind:{}=\"{{{{ {} }}}}\"/>", name, text),
                "evcatch" => format!("<v catch:{}=\"{{{{ {} }}}}\"/>", name, text),
                "evmut" => format!("<v mut-bind:{}=\"{{{{ {} }}}}\"/>", name, text),
                "evcap" => format!("<v capture-bind:{}=\"{{{{ {} }}}}\"/>", name, text),
                "evcapcatch" => format!("<v capture-catch:{}=\"{{{{ {} }}}}\"/>", name, text),
                _ => format!("<v {}=\"{{{{ {} }}}}\"/>", name, text),
            };
            let mut g = TmplGroup::new();
            let diags = { crate::util::note_input(&*src); g.add_tmpl("p", &src) };
            let bad = diags.iter().any(|d| d.kind.level() as u8 >= 3);
            let tree = g.get_tree("p").unwrap();
            // locate the expression in the parsed tree
            let sx = match (kind, tree.content.get(0)) {
                ("text", Some(Node::Text(Value::Dynamic { expression, .. }))) => Some(ast::expr(expression)),
                (_, Some(Node::Element(el))) => match &el.kind {
                    ElementKind::Normal { attributes, class, style, change_attributes, common, .. } => {
                        let v = match kind {
                            "class" => match class { ClassAttribute::String(_, v) => Some(v), _ => None },
                            "style" => match style { StyleAttribute::String(_, v) => Some(v), _ => None },
                            "id" => common.id.as_ref().map(|x| &x.1),
                            "data" => common.data.get(0).and_then(|a| a.value.as_ref()),
                            "mark" => common.marks.get(0).and_then(|a| a.value.as_ref()),
                            "change" => change_attributes.get(0).and_then(|a| a.value.as_ref()),
                            "ev" | "evcatch" | "evmut" | "evcap" | "evcapcatch" => common.event_bindings.get(0).and_then(|a| a.value.as_ref()),
                            _ => attributes.get(0).and_then(|a| a.value.as_ref()),
                        };
                        match v {
                            Some(Value::Dynamic { expression, .. }) => Some(ast::expr(expression)),
                            _ => None,
                        }
                    }
                    _ => None,
                },
                _ => None,
            };
            let Some(sx) = sx else {
                // the generator only produces well-formed bindings: a parse failure is reported as such
                out.case(&["attrgen_parse", kind, &enc(&text)], if bad { "PARSE-ERROR" } else { "NO-DYNAMIC-VALUE" });
                continue;
            };
            let js = g.get_tmpl_gen_object("p").unwrap_or_default();
            let body = if kind == "text" {
                between(&js, "a=(C,T)=>{", "};;return {C:a,B:A}")
            } else {
                between(&js, "E(\"v\",{},(N,C)=>{", "},b)};;return {C:a,B:A}")
            };
            let ainit = between(&js, "O=R.r,A=", ",K=U===true");
            let res = match (body, ainit) {
                (Some(b), Some(a)) => format!("{}|{}", enc(b), enc(a)),
                _ => "NO-MARKERS".to_string(),
            };
            out.case(&["attrgen", kind, &enc(name), &ast::escaped_chars_of(&text), &sx], &res);
            if kind == "attr" && name == "a" {
                // the stringifier's expression printer (C14)
                let printed = g.stringify_tmpl("p").unwrap_or_default();
                let r = match (printed.strip_prefix("<v a=\""), printed.strip_suffix("\"/>")) {
                    (Some(_), Some(_)) => enc(&printed["<v a=\"".len()..printed.len() - "\"/>".len()]),
                    _ => format!("UNEXPECTED {}", enc(&printed)),
                };
                out.case(&["strexpr", &ast::escaped_chars_of(&text), &sx], &r);
            }
        }
    }
}

/// value differential jobs for node: generated code vs reference translation
pub fn run_val(tier: &str, seed: u64, out: &mut Out) {
    let mut rng = Rng::new(seed ^ 0xe3);
    let exprs = exprs_for(tier, &mut rng);
    let n_data = if tier == "thorough" { 14 } else { 6 };
    for (i, e) in exprs.iter().enumerate() {
        let mut extra_rng = Rng::new(seed.wrapping_add(i as u64));
        let mut extra = || extra_rng.chance(1, 12);
        let text = e.wxml(&mut extra);
        let src = format!("<v a=\"{{{{ {} }}}}\"/>", text);
        let mut g = TmplGroup::new();
        let diags = { crate::util::note_input(&*src); g.add_tmpl("p", &src) };
        let max_level = diags.iter().map(|d| d.kind.level() as u8).max().unwrap_or(0);
        let bundle = g.get_tmpl_gen_object_groups().unwrap_or_default();
        let reference = e.reference_js(&|_| None);
        let datas: Vec<serde_json::Value> = (0..n_data).map(|_| random_data(&mut rng)).collect();
        let job = serde_json::json!({
            "kind": "exprval", "id": i, "wxml": text, "src": src, "ref": reference, "bundle": bundle,
            "max_level": max_level, "datas": datas, "shape": e.kind(), "size": e.size(),
        });
        out.raw(&job.to_string());
    }
    run_val_hand(out, exprs.len());
}

/// hand-written value jobs (appended to the generated ones): hoisted sub-expressions under operands JavaScript may skip
pub fn run_val_hand(out: &mut Out, first_id: usize) {
    let cases: &[(&str, &str)] = &[
        ("a && o[1 instanceof z]", "((D.a) && (X(D.o)[((1) instanceof (D.z))]))"),
        ("a || o[b instanceof z]", "((D.a) || (X(D.o)[((D.b) instanceof (D.z))]))"),
        ("a ? 1 : o[1 instanceof z]", "((D.a) ? (1) : (X(D.o)[((1) instanceof (D.z))]))"),
        ("a && o[b][c]", "((D.a) && (X((X(D.o)[D.b]))[D.c]))"),
        ("a ? o[f(1)] : 2", "((D.a) ? (X(D.o)[P(D.f)(1)]) : (2))"),
    ];
    let datas = serde_json::json!([
        {"$o": {"a": false, "z": 0, "b": 1, "c": "k", "o": {"$o": {"1": {"$o": {"k": "v"}}, "true": 5}}, "f": {"$fn": "ff"}}},
        {"$o": {"a": true, "z": {"$fn": "ff"}, "b": 1, "c": "k", "o": {"$o": {"1": {"$o": {"k": "v"}}, "false": 6}}, "f": {"$fn": "ff"}}},
        {"$o": {"a": 0, "z": null, "b": 1, "c": "k", "o": {"$o": {}}, "f": 3}}
    ]);
    for (k, (wxml, reference)) in cases.iter().enumerate() {
        let src = format!("<v a=\"{{{{ {} }}}}\"/>", wxml);
        let mut g = TmplGroup::new();
        let diags = { crate::util::note_input(&*src); g.add_tmpl("p", &src) };
        let max_level = diags.iter().map(|d| d.kind.level() as u8).max().unwrap_or(0);
        let bundle = g.get_tmpl_gen_object_groups().unwrap_or_default();
        let job = serde_json::json!({
            "kind": "exprval", "id": first_id + k, "wxml": wxml, "src": src, "ref": reference, "bundle": bundle,
            "max_level": max_level, "datas": datas, "shape": "hand", "size": 5,
        });
        out.raw(&job.to_string());
    }
}

// ---------------------------------------------------------------- C06: guard denotation validation

fn frag_expr(rng: &mut Rng, depth: usize) -> String {
    let fields = ["a", "b", "c", "d", "o", "l", "s"];
    let keys = ["a", "b", "x", "o", "length", "k1", "list"];
    if depth == 0 || rng.chance(1, 4) {
        return match rng.below(8) {
            0 => format!("{}", rng.below(3)),
            1 => format!("'{}'", rng.pick(&keys)),
            2 => (*rng.pick(&["true", "false", "null", "undefined"])).to_string(),
            _ => rng.pick(&fields).to_string(),
        };
    }
    match rng.below(10) {
        0 | 1 => format!("{}.{}", frag_access(rng, depth - 1), rng.pick(&keys)),
        2 | 3 => format!("{}[{}]", frag_access(rng, depth - 1), frag_expr(rng, depth - 1)),
        4 => format!("({} ? {} : {})", frag_expr(rng, depth - 1), frag_expr(rng, depth - 1), frag_expr(rng, depth - 1)),
        5 => format!("({} ? {} : {}).{}", frag_expr(rng, depth - 1), frag_access(rng, depth - 1), frag_access(rng, depth - 1), rng.pick(&keys)),
        6 => format!("({} {} {})", frag_expr(rng, depth - 1), rng.pick(&["+", "-", "*", "<", "===", "&&", "||", "??"]), frag_expr(rng, depth - 1)),
        7 => format!("{}({})", rng.pick(&["!", "-", "typeof "]), frag_expr(rng, depth - 1)),
        8 => format!("({} ? {} : {})[{}]", frag_expr(rng, depth - 1), frag_access(rng, depth - 1), frag_access(rng, depth - 1), frag_expr(rng, depth - 1)),
        _ => frag_access(rng, depth),
    }
}

fn frag_access(rng: &mut Rng, depth: usize) -> String {
    let fields = ["a", "b", "o", "l", "s"];
    let keys = ["a", "b", "x", "o", "k1", "list"];
    if depth == 0 || rng.chance(1, 3) {
        return rng.pick(&fields).to_string();
    }
    match rng.below(5) {
        0 => format!("{}.{}", frag_access(rng, depth - 1), rng.pick(&keys)),
        1 => format!("{}[{}]", frag_access(rng, depth - 1), frag_expr(rng, depth - 1)),
        // object / array literals (named fields / plain items only) as the head of an access chain
        2 => format!("({{a: {}, x: {}, k1: {}}})", frag_expr(rng, depth - 1), frag_expr(rng, depth - 1), frag_expr(rng, depth - 1)),
        3 => format!("[{}, {}, {}]", frag_expr(rng, depth - 1), frag_expr(rng, depth - 1), frag_expr(rng, depth - 1)),
        _ => format!("({} ? {} : {})", frag_expr(rng, depth - 1), frag_access(rng, depth - 1), frag_access(rng, depth - 1)),
    }
}

fn rand_upt(rng: &mut Rng, depth: usize) -> (String, serde_json::Value) {
    // (sexp for the model, JSON for node: true | {..}); undefined children are left out
    let keys = ["a", "b", "c", "d", "o", "l", "s", "x", "k1", "0", "1", "list", "length"];
    let mut sx = String::from("(o");
    let mut m = serde_json::Map::new();
    let n = rng.below(4);
    for _ in 0..n {
        let k = *rng.pick(&keys);
        if m.contains_key(k) {
            continue;
        }
        if depth == 0 || rng.chance(1, 2) {
            sx.push_str(&format!(" ({} t)", ast::q(k)));
            m.insert(k.to_string(), serde_json::Value::Bool(true));
        } else {
            let (s2, j2) = rand_upt(rng, depth - 1);
            sx.push_str(&format!(" ({} {})", ast::q(k), s2));
            m.insert(k.to_string(), j2);
        }
    }
    sx.push(')');
    (sx, serde_json::Value::Object(m))
}

/// expression in the theorem's fragment x update-path tree x data: the model's denotation of the
/// guard must agree with the guard TEXT evaluated by node
pub fn run_guardden(tier: &str, seed: u64, out: &mut Out) {
    let mut rng = Rng::new(seed ^ 0x9d3);
    let n = if tier == "thorough" { 20000 } else { 2500 };
    for i in 0..n {
        let text = frag_expr(&mut rng, 1 + i % 3);
        let src = format!("<v a=\"{{{{ {} }}}}\"/>", text);
        let mut g = TmplGroup::new();
        { crate::util::note_input(&*src); g.add_tmpl("p", &src) };
        let tree = g.get_tree("p").unwrap();
        let sx = match tree.content.get(0) {
            Some(Node::Element(el)) => match &el.kind {
                ElementKind::Normal { attributes, .. } => match attributes.get(0).and_then(|a| a.value.as_ref()) {
                    Some(Value::Dynamic { expression, .. }) => Some(ast::expr(expression)),
                    _ => None,
                },
                _ => None,
            },
            _ => None,
        };
        let Some(sx) = sx else { continue };
        let js = g.get_tmpl_gen_object("p").unwrap_or_default();
        let body = between(&js, "E(\"v\",{},(N,C)=>{", "},b)};;return {C:a,B:A}").unwrap_or("").to_string();
        for _ in 0..2 {
            let (usx, ujson) = rand_upt(&mut rng, 2);
            let d = random_data(&mut rng);
            let job = serde_json::json!({"kind": "guardden", "text": text, "sexp": sx, "esc": ast::escaped_chars_of(&text), "impl_body": body,
                                         "u_sexp": usx, "u": ujson, "data": d, "data_sexp": crate::behave::val_sexp_pub(&d)});
            out.raw(&job.to_string());
        }
    }
}
