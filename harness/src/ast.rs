//! S-expression dumps of the public AST (expressions, values, nodes) for the Coq model.
use glass_easel_template_compiler::parse::expr::{ArrayFieldKind, Expression, ObjectFieldKind};
use glass_easel_template_compiler::parse::tag::*;

pub fn q(s: &str) -> String {
    let mut o = String::from("\"");
    for c in s.chars() {
        let i = c as u32;
        if c == '"' {
            o.push_str("\\\"");
        } else if c == '\\' {
            o.push_str("\\\\");
        } else if (32..127).contains(&i) {
            o.push(c);
        } else {
            o.push_str(&format!("\\u{{{:x}}}", i));
        }
    }
    o.push('"');
    o
}

pub fn expr(e: &Expression) -> String {
    use Expression as E;
    let bin = |name: &str, l: &Expression, r: &Expression| format!("(bin {} {} {})", name, expr(l), expr(r));
    let un = |name: &str, v: &Expression| format!("(un {} {})", name, expr(v));
    match e {
        E::ScopeRef { index, .. } => format!("(scope {})", index),
        E::DataField { name, .. } => format!("(field {})", q(name)),
        E::ToStringWithoutUndefined { value, .. } => format!("(tostr {})", expr(value)),
        E::LitUndefined { .. } => "undef".into(),
        E::LitNull { .. } => "null".into(),
        E::LitStr { value, .. } => format!("(str {})", q(value)),
        E::LitInt { value, .. } => format!("(int {})", value),
        E::LitFloat { value, .. } => format!("(float {})", q(&value.to_string())),
        E::LitBool { value, .. } => format!("(bool {})", *value as u8),
        E::LitObj { fields, .. } => {
            let mut o = String::from("(obj");
            for f in fields {
                match f {
                    ObjectFieldKind::Named { name, value, .. } => o.push_str(&format!(" (named {} {})", q(name), expr(value))),
                    ObjectFieldKind::Spread { value, .. } => o.push_str(&format!(" (spread {})", expr(value))),
                }
            }
            o.push(')');
            o
        }
        E::LitArr { fields, .. } => {
            let mut o = String::from("(arr");
            for f in fields {
                match f {
                    ArrayFieldKind::Normal { value } => o.push_str(&format!(" (n {})", expr(value))),
                    ArrayFieldKind::Spread { value, .. } => o.push_str(&format!(" (s {})", expr(value))),
                    ArrayFieldKind::EmptySlot => o.push_str(" h"),
                }
            }
            o.push(')');
            o
        }
        E::StaticMember { obj, field_name, .. } => format!("(member {} {})", expr(obj), q(field_name)),
        E::DynamicMember { obj, field_name, .. } => format!("(index {} {})", expr(obj), expr(field_name)),
        E::FuncCall { func, args, .. } => {
            let mut o = format!("(call {}", expr(func));
            for a in args {
                o.push(' ');
                o.push_str(&expr(a));
            }
            o.push(')');
            o
        }
        E::Reverse { value, .. } => un("Not", value),
        E::BitReverse { value, .. } => un("BitNot", value),
        E::Positive { value, .. } => un("Pos", value),
        E::Negative { value, .. } => un("Neg", value),
        E::TypeOf { value, .. } => un("Typeof", value),
        E::Void { value, .. } => un("Void", value),
        E::Multiply { left, right, .. } => bin("Mul", left, right),
        E::Divide { left, right, .. } => bin("Div", left, right),
        E::Remainer { left, right, .. } => bin("Rem", left, right),
        E::Plus { left, right, .. } => bin("Add", left, right),
        E::Minus { left, right, .. } => bin("Sub", left, right),
        E::LeftShift { left, right, .. } => bin("Shl", left, right),
        E::RightShift { left, right, .. } => bin("Shr", left, right),
        E::UnsignedRightShift { left, right, .. } => bin("Ushr", left, right),
        E::Lt { left, right, .. } => bin("Lt", left, right),
        E::Gt { left, right, .. } => bin("Gt", left, right),
        E::Lte { left, right, .. } => bin("Le", left, right),
        E::Gte { left, right, .. } => bin("Ge", left, right),
        E::InstanceOf { left, right, .. } => bin("Instanceof", left, right),
        E::Eq { left, right, .. } => bin("Eq", left, right),
        E::Ne { left, right, .. } => bin("Ne", left, right),
        E::EqFull { left, right, .. } => bin("Eqq", left, right),
        E::NeFull { left, right, .. } => bin("Neq", left, right),
        E::BitAnd { left, right, .. } => bin("And", left, right),
        E::BitXor { left, right, .. } => bin("Xor", left, right),
        E::BitOr { left, right, .. } => bin("Or", left, right),
        E::LogicAnd { left, right, .. } => bin("LAnd", left, right),
        E::LogicOr { left, right, .. } => bin("LOr", left, right),
        E::NullishCoalescing { left, right, .. } => bin("Nullish", left, right),
        E::Cond { cond, true_br, false_br, .. } => format!("(cond {} {} {})", expr(cond), expr(true_br), expr(false_br)),
        _ => "(unknown)".into(),
    }
}

pub fn value(v: &Value) -> String {
    match v {
        Value::Static { value, .. } => format!("(static {})", q(value)),
        Value::Dynamic { expression, .. } => format!("(dyn {})", expr(expression)),
        _ => "(unknown)".into(),
    }
}

/// the non-ASCII / control characters of all string literals in the expression that the
/// implementation writes as \u{..} (the model's `esc_u` parameter)
pub fn escaped_chars_of(text: &str) -> String {
    let mut v: Vec<u32> = vec![];
    for c in text.chars() {
        let mut s = String::new();
        s.push(c);
        if glass_easel_template_compiler::verif_hooks::gen_lit_str(&s).starts_with("\"\\u{") && !v.contains(&(c as u32)) {
            v.push(c as u32);
        }
    }
    v.iter().map(|x| x.to_string()).collect::<Vec<_>>().join(",")
}
