//! S-expression dumps of the public AST (expressions, values, nodes) for the Coq model.
use glass_easel_template_compiler::parse::expr::{ArrayFieldKind, Expression, ObjectFieldKind};
use glass_easel_template_compiler::parse::tag::*;

pub fn q(s: &str) -> String {
    let mut o = String::from("\"");
    for c in s.chars() {
        let i = c as u32;
        if c == '"' {
            o.push_str("\\\"");
        } else if c == '\\' {
            o.push_str("\\\\");
        } else if (32..127).contains(&i) {
            o.push(c);
        } else {
            o.push_str(&format!("\\u{{{:x}}}", i));
        }
    }
    o.push('"');
    o
}

pub fn expr(e: &Expression) -> String {
    use Expression as E;
    let bin = |name: &str, l: &Expression, r: &Expression| format!("(bin {} {} {})", name, expr(l), expr(r));
    let un = |name: &str, v: &Expression| format!("(un {} {})", name, expr(v));
    match e {
        E::ScopeRef { index, .. } => format!("(scope {})", index),
        E::DataField { name, .. } => format!("(field {})", q(name)),
        E::ToStringWithoutUndefined { value, .. } => format!("(tostr {})", expr(value)),
        E::LitUndefined { .. } => "undef".into(),
        E::LitNull { .. } => "null".into(),
        E::LitStr { value, .. } => format!("(str {})", q(value)),
        E::LitInt { value, .. } => format!("(int {})", value),
        E::LitFloat { value, .. } => format!("(float {})", q(&value.to_string())),
        E::LitBool { value, .. } => format!("(bool {})", *value as u8),
        E::LitObj { fields, .. } => {
            let mut o = String::from("(obj");
            for f in fields {
                match f {
                    ObjectFieldKind::Named { name, value, .. } => o.push_str(&format!(" (named {} {})", q(name), expr(value))),
                    ObjectFieldKind::Spread { value, .. } => o.push_str(&format!(" (spread {})", expr(value))),
                }
            }
            o.push(')');
            o
        }
        E::LitArr { fields, .. } => {
            let mut o = String::from("(arr");
            for f in fields {
                match f {
                    ArrayFieldKind::Normal { value } => o.push_str(&format!(" (n {})", expr(value))),
                    ArrayFieldKind::Spread { value, .. } => o.push_str(&format!(" (s {})", expr(value))),
                    ArrayFieldKind::EmptySlot => o.push_str(" h"),
                }
            }
            o.push(')');
            o
        }
        E::StaticMember { obj, field_name, .. } => format!("(member {} {})", expr(obj), q(field_name)),
        E::DynamicMember { obj, field_name, .. } => format!("(index {} {})", expr(obj), expr(field_name)),
        E::FuncCall { func, args, .. } => {
            let mut o = format!("(call {}", expr(func));
            for a in args {
                o.push(' ');
                o.push_str(&expr(a));
            }
            o.push(')');
            o
        }
        E::Reverse { value, .. } => un("Not", value),
        E::BitReverse { value, .. } => un("BitNot", value),
        E::Positive { value, .. } => un("Pos", value),
        E::Negative { value, .. } => un("Neg", value),
        E::TypeOf { value, .. } => un("Typeof", value),
        E::Void { value, .. } => un("Void", value),
        E::Multiply { left, right, .. } => bin("Mul", left, right),
        E::Divide { left, right, .. } => bin("Div", left, right),
        E::Remainer { left, right, .. } => bin("Rem", left, right),
        E::Plus { left, right, .. } => bin("Add", left, right),
        E::Minus { left, right, .. } => bin("Sub", left, right),
        E::LeftShift { left, right, .. } => bin("Shl", left, right),
        E::RightShift { left, right, .. } => bin("Shr", left, right),
        E::UnsignedRightShift { left, right, .. } => bin("Ushr", left, right),
        E::Lt { left, right, .. } => bin("Lt", left, right),
        E::Gt { left, right, .. } => bin("Gt", left, right),
        E::Lte { left, right, .. } => bin("Le", left, right),
        E::Gte { left, right, .. } => bin("Ge", left, right),
        E::InstanceOf { left, right, .. } => bin("Instanceof", left, right),
        E::Eq { left, right, .. } => bin("Eq", left, right),
        E::Ne { left, right, .. } => bin("Ne", left, right),
        E::EqFull { left, right, .. } => bin("Eqq", left, right),
        E::NeFull { left, right, .. } => bin("Neq", left, right),
        E::BitAnd { left, right, .. } => bin("And", left, right),
        E::BitXor { left, right, .. } => bin("Xor", left, right),
        E::BitOr { left, right, .. } => bin("Or", left, right),
        E::LogicAnd { left, right, .. } => bin("LAnd", left, right),
        E::LogicOr { left, right, .. } => bin("LOr", left, right),
        E::NullishCoalescing { left, right, .. } => bin("Nullish", left, right),
        E::Cond { cond, true_br, false_br, .. } => format!("(cond {} {} {})", expr(cond), expr(true_br), expr(false_br)),
        _ => "(unknown)".into(),
    }
}

pub fn value(v: &Value) -> String {
    match v {
        Value::Static { value, .. } => format!("(static {})", q(value)),
        Value::Dynamic { expression, .. } => format!("(dyn {})", expr(expression)),
        _ => "(unknown)".into(),
    }
}

/// the non-ASCII / control characters of all string literals in the expression that the
/// implementation writes as \u{..} (the model's `esc_u` parameter)
pub fn escaped_chars_of(text: &str) -> String {
    let mut v: Vec<u32> = vec![];
    for c in text.chars() {
        let mut s = String::new();
        s.push(c);
        if glass_easel_template_compiler::verif_hooks::gen_lit_str(&s).starts_with("\"\\u{") && !v.contains(&(c as u32)) {
            v.push(c as u32);
        }
    }
    v.iter().map(|x| x.to_string()).collect::<Vec<_>>().join(",")
}

// ---------------------------------------------------------------- whole templates

use glass_easel_template_compiler::parse::{Position, Template, TemplateStructure};
use std::ops::Range;

pub struct Src<'a> {
    pub text: &'a str,
    line_starts: Vec<usize>,
}

impl<'a> Src<'a> {
    pub fn new(text: &'a str) -> Self {
        let mut line_starts = vec![0];
        for (i, b) in text.bytes().enumerate() {
            if b == b'\n' {
                line_starts.push(i + 1);
            }
        }
        Src { text, line_starts }
    }
    /// byte offset of (line, utf16 column); None if the position does not exist in the text
    pub fn offset(&self, p: Position) -> Option<usize> {
        let start = *self.line_starts.get(p.line as usize)?;
        let end = self.line_starts.get(p.line as usize + 1).map(|x| x - 1).unwrap_or(self.text.len());
        let mut col = 0u32;
        let line = &self.text[start..end];
        for (i, c) in line.char_indices() {
            if col == p.utf16_col {
                return Some(start + i);
            }
            col += c.len_utf16() as u32;
            if col > p.utf16_col {
                return None; // inside a surrogate pair
            }
        }
        if col == p.utf16_col {
            Some(end)
        } else {
            None
        }
    }
    pub fn slice(&self, r: &Range<Position>) -> Option<&'a str> {
        let a = self.offset(r.start)?;
        let b = self.offset(r.end)?;
        if a <= b {
            Some(&self.text[a..b])
        } else {
            None
        }
    }
}

/// like `expr` but scope references carry the source spelling: (scope i "name")
pub fn expr_named(e: &Expression, src: &Src) -> String {
    // re-use `expr` and patch scope refs: simplest is a dedicated walk
    fn walk(e: &Expression, src: &Src, out: &mut Vec<(usize, String)>) {
        if let Expression::ScopeRef { index, location } = e {
            out.push((*index, src.slice(location).unwrap_or("?BADLOC?").to_string()));
        }
        for s in e.sub_expressions() {
            walk(s, src, out);
        }
    }
    let mut names = vec![];
    walk(e, src, &mut names);
    let plain = expr(e);
    // scope refs appear in `plain` in the same pre-order as `names`
    let mut out = String::new();
    let mut rest = plain.as_str();
    let mut k = 0;
    while let Some(i) = rest.find("(scope ") {
        let j = i + rest[i..].find(')').unwrap();
        out.push_str(&rest[..j]);
        out.push(' ');
        out.push_str(&q(names.get(k).map(|x| x.1.as_str()).unwrap_or("?MISSING?")));
        out.push(')');
        rest = &rest[j + 1..];
        k += 1;
    }
    out.push_str(rest);
    out
}

fn val(v: &Value, src: &Src) -> String {
    match v {
        Value::Static { value, .. } => format!("(static {})", q(value)),
        Value::Dynamic { expression, .. } => format!("(dyn {})", expr_named(expression, src)),
        _ => "(unknown)".into(),
    }
}

fn optval(v: &Option<Value>, src: &Src) -> String {
    match v {
        None => "none".into(),
        Some(v) => val(v, src),
    }
}

fn refs(l: &[StaticAttribute]) -> String {
    let mut o = String::from("(refs");
    for a in l {
        o.push_str(&format!(" ({} {})", q(&a.name.name), q(&a.value.name)));
    }
    o.push(')');
    o
}

fn common_vals(c: &CommonElementAttributes, src: &Src, o: &mut String) {
    if let Some((_, v)) = &c.id {
        o.push_str(&format!(" (id {})", val(v, src)));
    }
    if let Some((_, v)) = &c.slot {
        o.push_str(&format!(" (slotattr {})", val(v, src)));
    }
    for ev in &c.event_bindings {
        o.push_str(&format!(
            " (event {} {} {} {} {})",
            q(&ev.name.name),
            ev.is_catch as u8,
            ev.is_mut as u8,
            ev.is_capture as u8,
            optval(&ev.value, src)
        ));
    }
    for a in &c.data {
        o.push_str(&format!(" (data {} {})", q(&a.name.name), optval(&a.value, src)));
    }
    for a in &c.marks {
        o.push_str(&format!(" (mark {} {})", q(&a.name.name), optval(&a.value, src)));
    }
}

pub fn nodes(l: &[Node], src: &Src) -> String {
    let mut o = String::from("(");
    for (i, n) in l.iter().enumerate() {
        if i > 0 {
            o.push(' ');
        }
        o.push_str(&node(n, src));
    }
    o.push(')');
    o
}

pub fn node(n: &Node, src: &Src) -> String {
    match n {
        Node::Text(v) => format!("(text {})", val(v, src)),
        Node::Comment(..) | Node::UnknownMetaTag(..) => "other".into(),
        Node::Element(el) => match &el.kind {
            ElementKind::Normal {
                tag_name,
                attributes,
                class,
                style,
                change_attributes,
                worklet_attributes,
                children,
                generics,
                extra_attr,
                common,
                ..
            } => {
                let mut st = String::from("(statics");
                for a in worklet_attributes {
                    st.push_str(&format!(" (worklet {} {})", q(&a.name.name), q(&a.value.name)));
                }
                for a in generics {
                    st.push_str(&format!(" (generic {} {})", q(&a.name.name), q(&a.value.name)));
                }
                for a in extra_attr {
                    st.push_str(&format!(" (extra {} {})", q(&a.name.name), q(&a.value.name)));
                }
                st.push(')');
                let mut vals = String::from("(vals");
                for a in attributes {
                    let is_model = matches!(a.prefix, NormalAttributePrefix::Model(_));
                    vals.push_str(&format!(" (attr {} {} {})", q(&a.name.name), is_model as u8, optval(&a.value, src)));
                }
                if let ClassAttribute::String(_, v) = class {
                    vals.push_str(&format!(" (class {})", val(v, src)));
                }
                if let StyleAttribute::String(_, v) = style {
                    vals.push_str(&format!(" (style {})", val(v, src)));
                }
                for a in change_attributes {
                    vals.push_str(&format!(" (change {} {})", q(&a.name.name), optval(&a.value, src)));
                }
                common_vals(common, src, &mut vals);
                vals.push(')');
                format!(
                    "(elem {} {} {} {} {})",
                    q(&tag_name.name),
                    st,
                    vals,
                    refs(&common.slot_value_refs),
                    nodes(children, src)
                )
            }
            ElementKind::Pure { children, slot, slot_value_refs, .. } => format!(
                "(pure {} {} {})",
                match slot {
                    Some((_, v)) => val(v, src),
                    None => "none".into(),
                },
                refs(slot_value_refs),
                nodes(children, src)
            ),
            ElementKind::For { list, item_name, index_name, key, children, .. } => format!(
                "(for {} {} {} {} {})",
                val(&list.1, src),
                q(&item_name.1.name),
                q(&index_name.1.name),
                q(&key.1.name),
                nodes(children, src)
            ),
            ElementKind::If { branches, else_branch, .. } => {
                let mut o = String::from("(if (");
                for (i, (_, c, body)) in branches.iter().enumerate() {
                    if i > 0 {
                        o.push(' ');
                    }
                    o.push_str(&format!("({} {})", val(c, src), nodes(body, src)));
                }
                o.push_str(") ");
                match else_branch {
                    Some((_, body)) => o.push_str(&format!("(else {})", nodes(body, src))),
                    None => o.push_str("noelse"),
                }
                o.push(')');
                o
            }
            ElementKind::TemplateRef { target, data, .. } => format!("(tmplref {} {})", val(&target.1, src), val(&data.1, src)),
            ElementKind::Include { path, .. } => format!("(include {})", q(&path.1.name)),
            ElementKind::Slot { name, values, common, .. } => {
                let mut vals = String::from("(vals");
                for a in values {
                    vals.push_str(&format!(" (slotvalue {} {})", q(&a.name.name), optval(&a.value, src)));
                }
                common_vals(common, src, &mut vals);
                vals.push(')');
                format!("(slot {} {} {})", val(&name.1, src), vals, refs(&common.slot_value_refs))
            }
            _ => "other".into(),
        },
        _ => "other".into(),
    }
}

pub fn template(t: &Template, src: &Src) -> String {
    let mut o = format!("(tmpl {} (imports", q(&t.path));
    for i in &t.globals.imports {
        o.push(' ');
        o.push_str(&q(&i.src.name));
    }
    o.push_str(") (includes");
    for i in &t.globals.includes {
        o.push(' ');
        o.push_str(&q(&i.src.name));
    }
    o.push_str(") (scripts");
    for s in &t.globals.scripts {
        match s {
            Script::Inline { module_name, .. } => o.push_str(&format!(" (inline {})", q(&module_name.name))),
            Script::GlobalRef { module_name, src: s, .. } => o.push_str(&format!(" (ref {} {})", q(&module_name.name), q(&s.name))),
            _ => {}
        }
    }
    o.push_str(") (subs");
    for s in &t.globals.sub_templates {
        o.push_str(&format!(" ({} {})", q(&s.name.name), nodes(&s.content, src)));
    }
    o.push_str(&format!(") {})", nodes(&t.content, src)));
    let _ = TemplateStructure::location(&t.content.get(0).map(|n| n.clone()).unwrap_or(Node::Comment(Comment::new("", Default::default()..Default::default()))));
    o
}
