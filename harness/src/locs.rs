//! C15 / C16: diagnostics, recorded source positions, stringifier source maps.
use crate::ast::Src;
use crate::gen_tmpl::*;
use crate::util::*;
use glass_easel_template_compiler::parse::expr::{ArrayFieldKind, Expression, ObjectFieldKind};
use glass_easel_template_compiler::parse::tag::*;
use glass_easel_template_compiler::parse::{ParseErrorKind, Position, TemplateStructure};
use glass_easel_template_compiler::stringify::{Stringifier, Stringify};
use serde_json::{json, Value as J};
use std::ops::Range;

fn loc(r: &Range<Position>) -> J {
    json!([r.start.line, r.start.utf16_col, r.end.line, r.end.utf16_col])
}

fn located(out: &mut Vec<J>, class: &str, r: &Range<Position>, spelling: &str) {
    out.push(json!({"class": class, "loc": loc(r), "spelling": spelling}));
}

fn walk_expr(e: &Expression, out: &mut Vec<J>) {
    use Expression as E;
    match e {
        E::DataField { name, location } => located(out, "ident", location, name),
        E::ScopeRef { location, .. } => located(out, "scope-ident", location, ""),
        E::LitStr { location, .. } => located(out, "lit-str", location, ""),
        E::LitInt { location, .. } | E::LitFloat { location, .. } => located(out, "lit-num", location, ""),
        E::LitBool { value, location } => located(out, "keyword", location, if *value { "true" } else { "false" }),
        E::LitNull { location } => located(out, "keyword", location, "null"),
        E::LitUndefined { location } => located(out, "keyword", location, "undefined"),
        E::StaticMember { field_name, field_location, dot_location, .. } => {
            located(out, "member", field_location, field_name);
            located(out, "punct", dot_location, ".");
        }
        E::LitObj { fields, brace_location } => {
            for f in fields {
                match f {
                    ObjectFieldKind::Named { name, location, .. } => located(out, "obj-key", location, name),
                    ObjectFieldKind::Spread { location, .. } => located(out, "punct", location, "..."),
                }
            }
            // `{{ a: 1 }}` (template data) has zero-width braces
            if brace_location.0.start != brace_location.0.end {
                located(out, "punct", &brace_location.0, "{");
                located(out, "punct", &brace_location.1, "}");
            }
        }
        E::LitArr { fields, bracket_location } => {
            for f in fields {
                if let ArrayFieldKind::Spread { location, .. } = f {
                    located(out, "punct", location, "...");
                }
            }
            located(out, "punct", &bracket_location.0, "[");
            located(out, "punct", &bracket_location.1, "]");
        }
        E::DynamicMember { bracket_location, .. } => {
            located(out, "punct", &bracket_location.0, "[");
            located(out, "punct", &bracket_location.1, "]");
        }
        E::FuncCall { paren_location, .. } => {
            located(out, "punct", &paren_location.0, "(");
            located(out, "punct", &paren_location.1, ")");
        }
        E::Cond { question_location, colon_location, .. } => {
            located(out, "punct", question_location, "?");
            located(out, "punct", colon_location, ":");
        }
        _ => {}
    }
    // the location of a compound node (computed from its parts) contains its sub-expressions and its own tokens
    let subs: Vec<&Expression> = e.sub_expressions().collect();
    if !subs.is_empty() && !matches!(e, E::ToStringWithoutUndefined { .. }) {
        let mut children: Vec<J> = subs.iter().map(|x| loc(&x.location())).collect();
        match e {
            E::StaticMember { field_location, dot_location, .. } => {
                children.push(loc(field_location));
                children.push(loc(dot_location));
            }
            E::DynamicMember { bracket_location, .. } => {
                children.push(loc(&bracket_location.0));
                children.push(loc(&bracket_location.1));
            }
            E::FuncCall { paren_location, .. } => {
                children.push(loc(&paren_location.0));
                children.push(loc(&paren_location.1));
            }
            E::Cond { question_location, colon_location, .. } => {
                children.push(loc(question_location));
                children.push(loc(colon_location));
            }
            _ => {}
        }
        out.push(json!({"class": "expr-span", "loc": loc(&e.location()), "spelling": "", "children": children}));
    }
    for s in subs {
        walk_expr(s, out);
    }
}

fn walk_value(v: &Value, out: &mut Vec<J>) {
    match v {
        Value::Static { value, location, .. } => located(out, "static-value", location, value),
        Value::Dynamic { expression, double_brace_location, .. } => {
            located(out, "punct", &double_brace_location.0, "{{");
            if double_brace_location.1.start != double_brace_location.1.end {
                located(out, "punct2", &double_brace_location.1, "}}");
            }
            walk_expr(expression, out);
        }
        _ => {}
    }
}

fn walk_optvalue(v: &Option<Value>, out: &mut Vec<J>) {
    if let Some(v) = v {
        walk_value(v, out);
    }
}

fn walk_common(c: &CommonElementAttributes, out: &mut Vec<J>) {
    if let Some((_, v)) = &c.id {
        walk_value(v, out);
    }
    if let Some((_, v)) = &c.slot {
        walk_value(v, out);
    }
    for a in &c.slot_value_refs {
        located(out, "attr-name-camel", &a.name.location, &a.name.name);
    }
    for ev in &c.event_bindings {
        located(out, "attr-name", &ev.name.location, &ev.name.name);
        walk_optvalue(&ev.value, out);
    }
    for a in c.data.iter() {
        located(out, "attr-name-data", &a.name.location, &a.name.name);
        walk_optvalue(&a.value, out);
    }
    for a in c.marks.iter() {
        located(out, "attr-name", &a.name.location, &a.name.name);
        walk_optvalue(&a.value, out);
    }
}

/// elements form a tree (for nesting / sibling order); everything else is a flat list
fn walk_nodes(l: &[Node], out: &mut Vec<J>) -> Vec<J> {
    let mut tree = vec![];
    for n in l {
        match n {
            Node::Text(v) => {
                walk_value(v, out);
                tree.push(json!({"kind": "text", "loc": loc(&v.location()), "children": []}));
            }
            Node::Comment(c) => tree.push(json!({"kind": "comment", "loc": loc(&c.location), "children": []})),
            Node::UnknownMetaTag(m) => tree.push(json!({"kind": "meta", "loc": loc(&m.location), "children": []})),
            Node::Element(el) => {
                let mut ch = vec![];
                match &el.kind {
                    ElementKind::Normal { tag_name, attributes, class, style, change_attributes, worklet_attributes, children, generics, extra_attr, common, .. } => {
                        located(out, "tag-name", &tag_name.location, &tag_name.name);
                        for a in attributes {
                            let cls = if matches!(a.prefix, NormalAttributePrefix::Model(_)) { "attr-name-camel" } else { "attr-name" };
                            located(out, cls, &a.name.location, &a.name.name);
                            walk_optvalue(&a.value, out);
                        }
                        if let ClassAttribute::String(_, v) = class {
                            walk_value(v, out);
                        }
                        if let StyleAttribute::String(_, v) = style {
                            walk_value(v, out);
                        }
                        for a in change_attributes {
                            located(out, "attr-name-camel", &a.name.location, &a.name.name);
                            walk_optvalue(&a.value, out);
                        }
                        for a in worklet_attributes.iter() {
                            located(out, "attr-name-camel", &a.name.location, &a.name.name);
                            located(out, "static-value", &a.value.location, &a.value.name);
                        }
                        for a in generics.iter().chain(extra_attr.iter()) {
                            located(out, "attr-name", &a.name.location, &a.name.name);
                            located(out, "static-value", &a.value.location, &a.value.name);
                        }
                        walk_common(common, out);
                        ch = walk_nodes(children, out);
                    }
                    ElementKind::Pure { children, slot, .. } => {
                        if let Some((_, v)) = slot {
                            walk_value(v, out);
                        }
                        ch = walk_nodes(children, out);
                    }
                    ElementKind::For { list, item_name, index_name, key, children, .. } => {
                        walk_value(&list.1, out);
                        // default names borrow the location of wx:for
                        if item_name.1.location != list.0 {
                            located(out, "static-value", &item_name.1.location, &item_name.1.name);
                        }
                        if index_name.1.location != list.0 {
                            located(out, "static-value", &index_name.1.location, &index_name.1.name);
                        }
                        if !key.1.name.is_empty() {
                            located(out, "static-value", &key.1.location, &key.1.name);
                        }
                        ch = walk_nodes(children, out);
                    }
                    ElementKind::If { branches, else_branch, .. } => {
                        for (_, v, body) in branches {
                            walk_value(v, out);
                            ch.extend(walk_nodes(body, out));
                        }
                        if let Some((_, body)) = else_branch {
                            ch.extend(walk_nodes(body, out));
                        }
                    }
                    ElementKind::TemplateRef { target, data, .. } => {
                        walk_value(&target.1, out);
                        walk_value(&data.1, out);
                    }
                    ElementKind::Include { path, .. } => located(out, "static-value-path", &path.1.location, &path.1.name),
                    ElementKind::Slot { name, values, common, .. } => {
                        walk_value(&name.1, out);
                        for a in values {
                            located(out, "attr-name-camel", &a.name.location, &a.name.name);
                            walk_optvalue(&a.value, out);
                        }
                        walk_common(common, out);
                    }
                    _ => {}
                }
                let kind = match &el.kind {
                    ElementKind::If { .. } => "if",
                    ElementKind::For { .. } => "for",
                    _ => "element",
                };
                tree.push(json!({"kind": kind, "loc": loc(&el.location()), "children": ch}));
            }
            _ => {}
        }
    }
    tree
}

fn diag_json(d: &glass_easel_template_compiler::parse::ParseError) -> J {
    json!({"code": d.code(), "level": d.kind.level() as u8, "loc": loc(&d.location), "msg": d.kind.to_string()})
}

pub fn analyse_source(id: &str, class: &str, src: &str) -> J {
    let (t, ps) = glass_easel_template_compiler::parse::parse("p", src);
    let diags: Vec<J> = ps.warnings().map(diag_json).collect();
    let mut flat = vec![];
    let mut trees = vec![walk_nodes(&t.content, &mut flat)];
    for sub in &t.globals.sub_templates {
        located(&mut flat, "static-value", &sub.name.location, &sub.name.name);
        trees.push(walk_nodes(&sub.content, &mut flat));
    }
    for s in &t.globals.scripts {
        let m = s.module_name();
        located(&mut flat, "static-value", &m.location, &m.name);
    }
    for i in t.globals.imports.iter() {
        located(&mut flat, "static-value-path", &i.src.location, &i.src.name);
    }
    // stringify (no mangling) with its source map
    let mut st = Stringifier::new(String::new(), "p", src);
    t.stringify_write(&mut st).unwrap();
    let (text, sm) = st.finish();
    let tokens: Vec<J> = sm
        .tokens()
        .map(|tk| json!([tk.get_dst_line(), tk.get_dst_col(), tk.get_src_line(), tk.get_src_col(), tk.get_name()]))
        .collect();
    // the map must survive serialisation
    let mut buf = vec![];
    let roundtrip_ok = sm.to_writer(&mut buf).is_ok() && sourcemap::SourceMap::from_slice(&buf).map(|m| m.get_token_count() == sm.get_token_count()).unwrap_or(false);
    let _ = Src::new(src);
    json!({"kind": "locs", "id": id, "class": class, "src": src, "diags": diags, "located": flat, "trees": trees,
           "stringified": text, "tokens": tokens, "map_roundtrip": roundtrip_ok})
}

fn decorate(rng: &mut Rng, src: &str) -> String {
    // random line breaks, multi-byte and astral characters before and between tokens (only at
    // places where they are plain text / whitespace)
    // (a comment that spans lines and ends on a line with astral characters: the parser skips it in one step)
    let fill = ["\n", "\n\n", "汉", "\u{1f600}", "é\n", "\u{1f600}\u{1f600} ", "\r\n", "  ", "<!-- c\n\u{1f600}\u{1f600} -->", "<!--\n\n汉\u{1f600}-->"];
    let mut out = String::new();
    out.push_str(*rng.pick(&fill[..]));
    let mut depth_tag = false;
    let mut in_quote: Option<char> = None;
    let chars: Vec<char> = src.chars().collect();
    let mut i = 0;
    let mut in_binding = 0;
    let mut expr_quote: Option<char> = None;
    while i < chars.len() {
        let c = chars[i];
        if in_quote.is_none() && i + 1 < chars.len() && c == '{' && chars[i + 1] == '{' {
            in_binding += 1;
        }
        if i + 1 < chars.len() && c == '}' && chars[i + 1] == '}' && in_binding > 0 {
            in_binding -= 1;
        }
        if depth_tag {
            if let Some(q) = in_quote {
                if c == q {
                    in_quote = None;
                }
            } else if c == '"' || c == '\'' {
                in_quote = Some(c);
            } else if c == '>' {
                depth_tag = false;
            } else if c == ' ' && in_binding == 0 && rng.chance(1, 4) {
                out.push_str(*rng.pick(&["\n", "\n\t", "  "]));
            }
        } else if c == '<' && in_binding == 0 {
            // between nodes: text is allowed here
            if rng.chance(1, 5) {
                out.push_str(*rng.pick(&fill[..]));
            }
            depth_tag = true;
        }
        out.push(c);
        // inside a binding (outside its string literals): white space, line breaks and comments after the dot of a member
        // access and after opening brackets / commas (the expression parser skips them; recorded locations must not
        // include them)
        if in_binding > 0 {
            if let Some(q) = expr_quote {
                if c == '\\' && i + 1 < chars.len() {
                    out.push(chars[i + 1]);
                    i += 1;
                } else if c == q {
                    expr_quote = None;
                }
            } else if (c == '\'' || c == '"') && Some(c) != in_quote {
                expr_quote = Some(c);
            } else if c == '.' && i > 0 && i + 1 < chars.len() {
                let prev = chars[i - 1];
                let next = chars[i + 1];
                if (prev.is_ascii_alphabetic() || prev == ')' || prev == ']' || prev == '_') && (next.is_ascii_alphabetic() || next == '_' || next == '$') && rng.chance(1, 3) {
                    out.push_str(*rng.pick(&[" ", "\n  ", " /* c */ ", "/*\u{1f600}\n*/", "\t"]));
                }
            } else if (c == '(' || c == '[' || c == ',') && rng.chance(1, 8) {
                out.push_str(*rng.pick(&[" ", "\n", " /* c */"]));
            }
        } else {
            expr_quote = None;
        }
        i += 1;
    }
    out
}

fn clean_cfg(i: usize) -> TmplCfg {
    TmplCfg { max_depth: 1 + (i % 3), expr_depth: 1 + (i % 3), vary_syntax: i % 2 == 0, allow_include: if i % 5 == 0 { vec!["/inc".into()] } else { vec![] }, ..Default::default() }
}

pub fn run_locs(tier: &str, seed: u64, out: &mut Out) {
    let mut rng = Rng::new(seed ^ 0x10c5);
    let n = if tier == "thorough" { 3000 } else { 400 };
    for i in 0..n {
        let mut g = TmplGen::new(&mut rng, clean_cfg(i));
        let src = g.file();
        let src = if i % 2 == 0 { decorate(&mut rng, &src) } else { src };
        out.raw(&analyse_source(&format!("g{}", i), "clean", &src).to_string());
    }
    // static-string values whose source spelling contains a bare ampersand or a double quote inside single quotes
    // (what the printer has to escape): names, keys, paths, aliases
    for (k, src) in ["<view wx:for=\"{{ l }}\" wx:key=\"k&v\">{{ item }}</view>",
                     "<template name='say \"hi\"'>t</template><template is='say \"hi\"'/>",
                     "<include src=\"../a&b/c\"/><import src='x&y.wxml'/>",
                     "<wxs module=\"m\" src=\"../u&v.wxs\"/>{{ m.a }}",
                     "<c generic:g=\"p&q\" extra-attr:e=\"r&s\"><v slot:x=\"al\">{{ al }}</v></c>",
                     "<view wx:for=\"{{ l }}\" wx:for-item=\"it\" wx:for-index=\"ix\" wx:key='a\"b'>{{ it }}{{ ix }}</view>",
                     "<template name=\"p&amp;q\">t</template><template is=\"p&amp;q\"/><view wx:for=\"{{ l }}\" wx:key=\"k&lt;\">{{ item }}</view>"].iter().enumerate() {
        out.raw(&analyse_source(&format!("s{}", k), "clean", src).to_string());
    }
    // empty bindings (a warning, not an error) between a binding and static text: the literal of the text that follows starts
    // at the text (the pieces around an empty binding that has text on both sides are merged into one literal)
    for (k, src) in ["<div>{{a}}{{ }}c</div>", "<v t=\"{{ a }}{{}}tail\">x{{ b }}{{ }}{{  }}z</v>", "<v>{{ a }}\n{{ }}tail text</v><w u=\"p{{ a }}{{ }}\"/>"].iter().enumerate() {
        out.raw(&analyse_source(&format!("e{}", k), "clean", src).to_string());
    }
    // fuzzed / malformed inputs: only location validity is required
    let bad = crate::total::inputs(if tier == "thorough" { "quick" } else { "quick" }, seed);
    let step = if tier == "thorough" { 1 } else { 4 };
    for (k, (kind, src)) in bad.iter().enumerate() {
        if kind != "tmpl" || (k % step != 0 && k >= 150) {
            continue;
        }
        let r = catch(std::panic::AssertUnwindSafe(|| analyse_source(&format!("f{}", k), "fuzzed", src)));
        if let Ok(j) = r {
            out.raw(&j.to_string());
        }
    }
}

// ---------------------------------------------------------------- C15: levels, clean inputs, injections

pub fn level_table(out: &mut Out) {
    use ParseErrorKind as K;
    let all = [
        K::UnexpectedCharacter, K::UnexpectedExpressionCharacter, K::UnknownMetaTag, K::MissingExpressionEnd, K::IllegalEntity, K::IncompleteTag,
        K::MissingEndTag, K::IllegalNamePrefix, K::InvalidAttributePrefix, K::InvalidAttributeName, K::InvalidAttributeValue, K::InvalidAttribute,
        K::DuplicatedAttribute, K::DuplicatedName, K::AvoidUppercaseLetters, K::UnexpectedWhitespace, K::MissingAttributeValue, K::DataBindingNotAllowed,
        K::InvalidIdentifier, K::InvalidScopeName, K::ChildNodesNotAllowed, K::IllegalEscapeSequence, K::IncompleteConditionExpression, K::UnmatchedBracket,
        K::UnmatchedParenthesis, K::MissingModuleName, K::MissingSourcePath, K::UnsupportedSyntax, K::ShouldQuoted, K::EmptyExpression, K::InvalidEndTag,
    ];
    for k in all.iter() {
        out.case(&["diag_level", &(k.clone() as u32).to_string()], &(k.level() as u8).to_string());
    }
}

/// hand-written templates in the documented syntax: none of them may be diagnosed at Warn level or above
const CLEAN_HAND: &[&str] = &[
    // a script reference written with a separate end tag, with nothing / white space / line breaks in between
    "<wxs module=\"tools\" src=\"./tools.wxs\"></wxs><view>{{ tools.f(a) }}</view>",
    "<wxs module=\"tools\" src=\"./tools.wxs\">\n</wxs>",
    "<wxs module=\"tools\" src=\"./tools.wxs\">  \t\r\n  </wxs><wxs module=\"u\" src=\"u\" />",
    // `class:` and `style:` attributes of the same name on one element; several of each
    "<view class:a=\"{{ x }}\" style:a=\"1\"/>",
    "<view class=\"c\" class:active=\"{{ on }}\" class:big=\"{{ big }}\" style=\"color: red\" style:color=\"{{ c }}\" style:active=\"1px\"/>",
    // childless elements written with end tags and white space
    "<include src=\"x\">\n</include><import src=\"y\"> </import><template is=\"t\" data=\"{{ a }}\">\n  </template>",
    "<slot name=\"s\">\n</slot><slot/>",
    // comments everywhere, entities, line breaks inside tags
    "<!-- a --><view\n  id=\"i\"\n  hidden\n>\n  <!-- b -->x &amp; y &#65; &#x42;\n</view><!-- c -->",
    "<block wx:if=\"{{ a }}\">1</block>\n<!-- between -->\n<block wx:elif=\"{{ b }}\">2</block> <block wx:else>3</block>",
    "<view wx:for=\"{{ l }}\" wx:for-item=\"it\" wx:for-index=\"ix\" wx:key=\"id\" data-i=\"{{ ix }}\" mark:m=\"{{ it }}\" bind:tap=\"f\" catch:tap=\"g\" capture-bind:tap=\"h\" mut-bind:tap=\"k\">{{ it.name }}</view>",
    "<c generic:g=\"x\" model:value=\"{{ v }}\" change:p=\"{{ m.f }}\" worklet:w=\"w\" slot=\"s\"><view slot:sv slot:other=\"o\">{{ sv }}{{ o }}</view></c><wxs module=\"m\">exports.f = function(){}</wxs>",
];

pub fn run_diag(tier: &str, seed: u64, out: &mut Out) {
    let mut rng = Rng::new(seed ^ 0xd1a6);
    let n = if tier == "thorough" { 3000 } else { 400 };
    for (k, src) in CLEAN_HAND.iter().enumerate() {
        let (_, ps) = glass_easel_template_compiler::parse::parse("p", src);
        let diags: Vec<J> = ps.warnings().map(diag_json).collect();
        out.raw(&json!({"kind": "clean", "id": format!("hand{}", k), "src": src, "diags": diags}).to_string());
    }
    for i in 0..n {
        let mut g = TmplGen::new(&mut rng, clean_cfg(i));
        let src = g.file();
        let (_, ps) = glass_easel_template_compiler::parse::parse("p", &src);
        let diags: Vec<J> = ps.warnings().map(diag_json).collect();
        out.raw(&json!({"kind": "clean", "id": i, "src": src, "diags": diags}).to_string());
        // single defect injections into a large well-formed template
        let injections: Vec<(&str, String, u32, u8)> = inject(&mut rng, &src);
        for (name, bad_src, code, level) in injections {
            let (_, ps) = glass_easel_template_compiler::parse::parse("p", &bad_src);
            let diags: Vec<J> = ps.warnings().map(diag_json).collect();
            out.raw(&json!({"kind": "inject", "id": i, "injection": name, "src": bad_src, "expect_code": code, "expect_level": level, "diags": diags}).to_string());
        }
    }
}

/// (name, source, expected kind code, documented minimum level)
fn inject(rng: &mut Rng, src: &str) -> Vec<(&'static str, String, u32, u8)> {
    use ParseErrorKind as K;
    let code = |k: K| k as u32;
    let mut v = vec![];
    // the defect is placed at the start, at the end, or nested inside a wrapper / conditional / loop
    // at the start or the end of a large well-formed template
    let insert_at = |rng: &mut Rng, piece: &str| -> String {
        let wrapped = match rng.below(8) {
            0 => piece.to_string(),
            1 => format!("<view class=\"w\">{}</view>", piece),
            2 => format!("<block wx:if=\"{{{{ a }}}}\">{}</block>", piece),
            3 => format!("<view wx:for=\"{{{{ l }}}}\"><text>t</text>{}</view>", piece),
            4 => {
                // after a long stretch of legal but remark-producing markup (more than a hundred Note-level diagnostics)
                let mut noisy = String::new();
                for r in 0..6 {
                    noisy.push_str("<view");
                    for k in 0..12 {
                        noisy.push_str(&format!(" a{}{} = \"{}\"", r, k, k));
                    }
                    noisy.push_str("/>\n");
                }
                format!("{}{}", noisy, piece)
            }
            5 => format!("<!-- multi\nline \u{1f600}\u{1f600} -->{}", piece),
            6 => format!("<wxs module=\"zz8\">var a = 1\n// \u{1f600}</wxs>{}", piece),
            _ => format!("<view>\n  汉\u{1f600}\n  {}\n</view>", piece),
        };
        if rng.chance(1, 2) {
            format!("{}{}", wrapped, src)
        } else {
            format!("{}{}", src, wrapped)
        }
    };
    v.push(("missing end tag", insert_at(rng, "<view><text>x</text>"), code(K::MissingEndTag), 2));
    v.push(("unterminated tag at end of input", format!("{}<view a=\"1\"", src), code(K::IncompleteTag), 4));
    v.push(("unterminated end tag at end of input", format!("{}<view>x</view", src), code(K::IncompleteTag), 4));
    v.push(("unterminated end tag at end of input (after white space)", format!("{}<view><text>t</text></view \n", src), code(K::IncompleteTag), 4));
    v.push(("unterminated binding in an attribute", insert_at(rng, "<view a=\"{{ a + b \"/>"), code(K::MissingExpressionEnd), 4));
    v.push(("unterminated binding at end of input", format!("{}<view>{{{{ a + b", src), code(K::MissingExpressionEnd), 4));
    v.push(("trailing garbage in a binding", insert_at(rng, "<view a=\"{{ a b }}\"/>"), code(K::UnexpectedExpressionCharacter), 4));
    v.push(("trailing garbage in a binding (#)", insert_at(rng, "<view>{{ a.b # }}</view>"), code(K::UnexpectedExpressionCharacter), 4));
    // object-shaped bindings (template data, or any binding that starts like an object body)
    v.push(("trailing garbage after a shorthand field", insert_at(rng, "<template is=\"t\" data=\"{{ a, b c }}\"/>"), code(K::UnexpectedExpressionCharacter), 4));
    v.push(("trailing garbage after a shorthand field (text)", insert_at(rng, "<view>{{ a, b c }}</view>"), code(K::UnexpectedExpressionCharacter), 4));
    v.push(("trailing garbage after a named field", insert_at(rng, "<template is=\"t\" data=\"{{ a: 1, b: 2 c }}\"/>"), code(K::UnexpectedExpressionCharacter), 4));
    v.push(("trailing garbage after a spread", insert_at(rng, "<template is=\"t\" data=\"{{ ...a b }}\"/>"), code(K::UnexpectedExpressionCharacter), 4));
    v.push(("trailing garbage after a single shorthand field", insert_at(rng, "<template is=\"t\" data=\"{{ a b }}\"/>"), code(K::UnexpectedExpressionCharacter), 4));
    v.push(("trailing garbage after a comment in a binding", insert_at(rng, "<view a=\"{{ a /* x\n\u{1f600} */ b }}\"/>"), code(K::UnexpectedExpressionCharacter), 4));
    v.push(("trailing garbage in an index", insert_at(rng, "<view a=\"{{ a[b c] }}\"/>"), code(K::UnexpectedExpressionCharacter), 4));
    v.push(("trailing garbage in call arguments", insert_at(rng, "<view a=\"{{ f(a b) }}\"/>"), code(K::UnexpectedExpressionCharacter), 4));
    v.push(("trailing garbage in an array literal", insert_at(rng, "<view a=\"{{ [a b] }}\"/>"), code(K::UnexpectedExpressionCharacter), 4));
    v.push(("trailing garbage in an object literal", insert_at(rng, "<view a=\"{{ ({x: a b}) }}\"/>"), code(K::UnexpectedExpressionCharacter), 4));
    v.push(("unknown wx: directive", insert_at(rng, "<view wx:foo=\"1\"/>"), code(K::InvalidAttributePrefix), 2));
    v.push(("unknown attribute prefix", insert_at(rng, "<view foo:bar=\"1\"/>"), code(K::InvalidAttributePrefix), 2));
    v.push(("too many name segments", insert_at(rng, "<view a:b:c=\"1\"/>"), code(K::InvalidAttributePrefix), 2));
    v.push(("duplicated attribute", insert_at(rng, "<view hidden=\"1\" hidden=\"2\"/>"), code(K::DuplicatedAttribute), 2));
    v.push(("duplicated id", insert_at(rng, "<view id=\"a\" id=\"b\"/>"), code(K::DuplicatedAttribute), 2));
    v.push(("duplicated wx:if", insert_at(rng, "<view wx:if=\"{{a}}\" wx:if=\"{{b}}\"/>"), code(K::DuplicatedAttribute), 2));
    v.push(("duplicated style: attribute", insert_at(rng, "<view style:color=\"red\" style:color=\"blue\"/>"), code(K::DuplicatedAttribute), 2));
    v.push(("duplicated class: attribute", insert_at(rng, "<view class:a=\"{{x}}\" class:b=\"1\" class:a=\"{{y}}\"/>"), code(K::DuplicatedAttribute), 2));
    v.push(("duplicated style: attribute next to a class: attribute of that name", insert_at(rng, "<view class:a=\"{{x}}\" style:b=\"1\" style:b=\"2\"/>"), code(K::DuplicatedAttribute), 2));
    // the same name twice with different values / aliases, for the prefixed families
    v.push(("duplicated slot: reference (different aliases)", insert_at(rng, "<view slot:item=\"a\" slot:item=\"b\">{{ a }}{{ b }}</view>"), code(K::DuplicatedAttribute), 2));
    v.push(("duplicated slot: reference (default alias, then another)", insert_at(rng, "<block slot:item slot:item=\"other\">{{ item }}{{ other }}</block>"), code(K::DuplicatedAttribute), 2));
    v.push(("duplicated data: attribute", insert_at(rng, "<view data:k=\"1\" data:k=\"{{ b }}\"/>"), code(K::DuplicatedAttribute), 2));
    v.push(("duplicated mark: attribute", insert_at(rng, "<view mark:k=\"1\" mark:k=\"2\"/>"), code(K::DuplicatedAttribute), 2));
    v.push(("duplicated model: attribute", insert_at(rng, "<view model:value=\"{{ a }}\" model:value=\"{{ b }}\"/>"), code(K::DuplicatedAttribute), 2));
    v.push(("duplicated change: attribute", insert_at(rng, "<view change:p=\"{{ f }}\" change:p=\"{{ o.fn }}\"/>"), code(K::DuplicatedAttribute), 2));
    v.push(("duplicated generic: attribute", insert_at(rng, "<my-comp generic:item=\"a\" generic:item=\"b\"/>"), code(K::DuplicatedAttribute), 2));
    v.push(("duplicated worklet: attribute", insert_at(rng, "<view worklet:w=\"f\" worklet:w=\"g\"/>"), code(K::DuplicatedAttribute), 2));
    v.push(("duplicated wx:for-item", insert_at(rng, "<view wx:for=\"{{ l }}\" wx:for-item=\"p\" wx:for-item=\"q\">{{ p }}</view>"), code(K::DuplicatedAttribute), 2));
    v.push(("duplicated wx:key", insert_at(rng, "<view wx:for=\"{{ l }}\" wx:key=\"a\" wx:key=\"b\">{{ item }}</view>"), code(K::DuplicatedAttribute), 2));
    // a known prefix in front of one more segment; a plain attribute that repeats a model: binding
    v.push(("unknown segment after wx:", insert_at(rng, "<view wx:bogus:if=\"{{a}}\"/>"), code(K::InvalidAttributePrefix), 2));
    v.push(("unknown segment after bind:", insert_at(rng, "<view bind:nope:tap=\"f\"/>"), code(K::InvalidAttributePrefix), 2));
    v.push(("unknown segment after mark:", insert_at(rng, "<view mark:x:id=\"1\"/>"), code(K::InvalidAttributePrefix), 2));
    v.push(("unknown segment after model:", insert_at(rng, "<view model:two:value=\"{{ a }}\"/>"), code(K::InvalidAttributePrefix), 2));
    v.push(("plain attribute repeating a model: binding", insert_at(rng, "<input model:value=\"{{ a }}\" value=\"x\"/>"), code(K::DuplicatedAttribute), 2));
    v.push(("model: binding repeating a plain attribute", insert_at(rng, "<input checked model:checked=\"{{ a }}\"/>"), code(K::DuplicatedAttribute), 2));
    // a binding in a value that must be static, after text whose UTF-8 and UTF-16 lengths differ or after a line break (the
    // location of the note must still be a location of the source)
    v.push(("binding in wx:key after non-ASCII text", insert_at(rng, "<view wx:for=\"{{ l }}\" wx:key=\"\u{65e5}\u{672c}\u{8a9e}\u{30ad}\u{30fc}{{ id }}\">{{ item }}</view>"), code(K::DataBindingNotAllowed), 1));
    v.push(("binding in generic: after a line break", insert_at(rng, "<my-comp generic:item=\"\n      {{ comp }}\"/>"), code(K::DataBindingNotAllowed), 1));
    v.push(("binding in a template name after a line break", insert_at(rng, "<template name=\"row-\n{{ kind }}\">t</template>"), code(K::DataBindingNotAllowed), 1));
    v.push(("binding in include src after astral characters", insert_at(rng, "<include src=\"\u{1f600}\u{1f600}\u{1f600}\u{1f600}{{ p }}\"/>"), code(K::DataBindingNotAllowed), 1));
    v.push(("binding in worklet: after non-ASCII text", insert_at(rng, "<view worklet:w=\"\u{e9}\u{e9}\u{e9}\u{e9}\u{e9}\u{e9}{{ h }}\"/>"), code(K::DataBindingNotAllowed), 1));
    v.push(("unterminated comment at end of input", format!("{}<view/><!-- note", src), code(K::IncompleteTag), 4));
    v.push(("stray unterminated end tag at end of input", format!("{}<view>x</vi", src), code(K::IncompleteTag), 4));
    v.push(("stray unterminated end tag at end of input (top level)", format!("{}</view ", src), code(K::IncompleteTag), 4));
    // the forbidden children in several shapes: an element, text, a binding, white space first, a comment first
    let kids = |rng: &mut Rng| -> &'static str {
        *rng.pick(&["<view/>", "text", "{{ a }}", "\n  <view/>\n", "<!-- note --><view/>", "<!-- note -->text", "<!-- a --><!-- b --><text>t</text>", "<view/><!-- after -->"])
    };
    let k = kids(rng);
    v.push(("children under include", insert_at(rng, &format!("<include src=\"x\">{}</include>", k)), code(K::ChildNodesNotAllowed), 3));
    let k = kids(rng);
    v.push(("children under import", insert_at(rng, &format!("<import src=\"x\">{}</import>", k)), code(K::ChildNodesNotAllowed), 3));
    let k = kids(rng);
    v.push(("children under slot", insert_at(rng, &format!("<slot>{}</slot>", k)), code(K::ChildNodesNotAllowed), 3));
    let k = kids(rng);
    v.push(("children under template is", insert_at(rng, &format!("<template is=\"x\">{}</template>", k)), code(K::ChildNodesNotAllowed), 3));
    v.push(("content in wxs with src", insert_at(rng, "<wxs module=\"zz9\" src=\"x\">var a</wxs>"), code(K::ChildNodesNotAllowed), 3));
    v.push(("include without src", insert_at(rng, "<include/>"), code(K::MissingSourcePath), 3));
    v.push(("import without src", insert_at(rng, "<import/>"), code(K::MissingSourcePath), 3));
    v.push(("wxs without module", insert_at(rng, "<wxs src=\"x\"/>"), code(K::MissingModuleName), 3));
    v.push(("template without is/name", insert_at(rng, "<template/>"), code(K::MissingModuleName), 3));
    v
}
