//! Shared helpers: PRNG, string encoding, output.
use std::io::Write;

pub struct Rng(pub u64);
impl Rng {
    pub fn new(seed: u64) -> Self {
        Rng(seed.wrapping_mul(0x9E3779B97F4A7C15).wrapping_add(0x1234_5678_9abc_def1))
    }
    pub fn next(&mut self) -> u64 {
        self.0 = self.0.wrapping_add(0x9E3779B97F4A7C15);
        let mut z = self.0;
        z = (z ^ (z >> 30)).wrapping_mul(0xBF58476D1CE4E5B9);
        z = (z ^ (z >> 27)).wrapping_mul(0x94D049BB133111EB);
        z ^ (z >> 31)
    }
    pub fn below(&mut self, n: usize) -> usize {
        if n == 0 { 0 } else { (self.next() % (n as u64)) as usize }
    }
    pub fn chance(&mut self, num: u64, den: u64) -> bool {
        self.next() % den < num
    }
    pub fn pick<'a, T>(&mut self, v: &'a [T]) -> &'a T {
        &v[self.below(v.len())]
    }
}

/// comma-separated decimal code points
pub fn enc(s: &str) -> String {
    let mut out = String::new();
    for (i, c) in s.chars().enumerate() {
        if i > 0 {
            out.push(',');
        }
        out.push_str(&(c as u32).to_string());
    }
    out
}

pub fn dec(s: &str) -> String {
    if s.is_empty() {
        return String::new();
    }
    s.split(',')
        .map(|x| char::from_u32(x.parse::<u32>().unwrap()).unwrap())
        .collect()
}

pub struct Out {
    w: std::io::BufWriter<std::io::Stdout>,
}
impl Out {
    pub fn new() -> Self {
        Out { w: std::io::BufWriter::with_capacity(1 << 20, std::io::stdout()) }
    }
    /// one case: model command line (tab separated) and the implementation's answer
    pub fn case(&mut self, model_cmd: &[&str], impl_result: &str) {
        for (i, f) in model_cmd.iter().enumerate() {
            if i > 0 {
                self.w.write_all(b"\t").unwrap();
            }
            self.w.write_all(f.as_bytes()).unwrap();
        }
        self.w.write_all(b"\t=>\t").unwrap();
        self.w.write_all(impl_result.as_bytes()).unwrap();
        self.w.write_all(b"\n").unwrap();
    }
    pub fn raw(&mut self, line: &str) {
        self.w.write_all(line.as_bytes()).unwrap();
        self.w.write_all(b"\n").unwrap();
    }
    pub fn flush(&mut self) {
        self.w.flush().unwrap();
    }
}

pub fn catch<T>(f: impl FnOnce() -> T + std::panic::UnwindSafe) -> Result<T, String> {
    IN_CATCH.with(|c| *c.borrow_mut() += 1);
    let r = std::panic::catch_unwind(f);
    IN_CATCH.with(|c| *c.borrow_mut() -= 1);
    r.map_err(|e| {
        if let Some(s) = e.downcast_ref::<&str>() {
            s.to_string()
        } else if let Some(s) = e.downcast_ref::<String>() {
            s.clone()
        } else {
            "panic".to_string()
        }
    })
}


// ---------------------------------------------------------------------------------------------------------------
// A panic of the implementation OUTSIDE a `catch` is not an infrastructure failure: the stage notes the input it hands to
// the compiler, the panic hook reports it, and the driver turns the report into a VIOLATION with that input as replay.
thread_local! {
    static LAST_INPUT: std::cell::RefCell<String> = std::cell::RefCell::new(String::new());
}

pub fn note_input(src: &str) {
    LAST_INPUT.with(|c| {
        let mut b = c.borrow_mut();
        b.clear();
        b.push_str(src);
    });
}

pub fn install_panic_reporter() {
    std::panic::set_hook(Box::new(|info| {
        let inside_catch = IN_CATCH.with(|c| *c.borrow() > 0);
        if inside_catch {
            return;
        }
        let msg = if let Some(s) = info.payload().downcast_ref::<&str>() {
            s.to_string()
        } else if let Some(s) = info.payload().downcast_ref::<String>() {
            s.clone()
        } else {
            "panic".to_string()
        };
        let loc = info.location().map(|l| format!("{}:{}", l.file(), l.line())).unwrap_or_default();
        let input = LAST_INPUT.with(|c| c.borrow().clone());
        eprintln!("IMPL-PANIC\t{}\t{}\t{}", enc(&input), loc, msg.replace('\n', " "));
    }));
}

thread_local! {
    static IN_CATCH: std::cell::RefCell<u32> = std::cell::RefCell::new(0);
}
