//! Behavioural jobs for node (C04/C05/C06/C07/C11/C14): template + data + update histories.
use crate::artefacts::*;
use crate::gen::*;
use crate::gen_tmpl::*;
use crate::util::*;
use glass_easel_template_compiler::TmplGroup;
use serde_json::{json, Value as J};

/// picks a path inside `data` (marker-encoded JSON) and returns (path segments, new data)
fn mutate(rng: &mut Rng, data: &J) -> (Vec<String>, J) {
    let pool = edge_values();
    let mut d = data.clone();
    let field = DATA_FIELDS[rng.below(DATA_FIELDS.len())].to_string();
    let root = d.get_mut("$o").unwrap().as_object_mut().unwrap();
    let cur = root.get(&field).cloned().unwrap_or(J::Null);
    // nested change when the field holds an object / array
    if rng.chance(1, 2) {
        if let Some(arr) = cur.get("$a").and_then(|x| x.as_array()) {
            if !arr.is_empty() {
                let i = rng.below(arr.len());
                let mut arr2 = arr.clone();
                let item = arr2[i].clone();
                if let Some(obj) = item.get("$o").and_then(|x| x.as_object()) {
                    if let Some(k) = obj.keys().next().cloned() {
                        let mut obj2 = obj.clone();
                        obj2.insert(k.clone(), rng.pick(&pool).clone());
                        arr2[i] = json!({"$o": obj2});
                        root.insert(field.clone(), json!({"$a": arr2}));
                        return (vec![field, i.to_string(), k], d);
                    }
                }
                arr2[i] = rng.pick(&pool).clone();
                root.insert(field.clone(), json!({"$a": arr2}));
                return (vec![field, i.to_string()], d);
            }
        }
        if let Some(obj) = cur.get("$o").and_then(|x| x.as_object()) {
            if !obj.is_empty() {
                let keys: Vec<String> = obj.keys().cloned().collect();
                let k = keys[rng.below(keys.len())].clone();
                let mut obj2 = obj.clone();
                let inner = obj2.get(&k).cloned().unwrap_or(J::Null);
                if let Some(io) = inner.get("$o").and_then(|x| x.as_object()) {
                    if let Some(k2) = io.keys().next().cloned() {
                        let mut io2 = io.clone();
                        io2.insert(k2.clone(), rng.pick(&pool).clone());
                        obj2.insert(k.clone(), json!({"$o": io2}));
                        root.insert(field.clone(), json!({"$o": obj2}));
                        return (vec![field, k, k2], d);
                    }
                }
                obj2.insert(k.clone(), rng.pick(&pool).clone());
                root.insert(field.clone(), json!({"$o": obj2}));
                return (vec![field, k], d);
            }
        }
    }
    // list growth / shrinkage
    if field == "l" && rng.chance(1, 2) {
        if let Some(arr) = cur.get("$a").and_then(|x| x.as_array()) {
            let mut arr2 = arr.clone();
            if rng.chance(1, 2) && !arr2.is_empty() {
                arr2.pop();
            } else {
                arr2.push(rng.pick(&pool).clone());
                if rng.chance(1, 3) {
                    arr2.insert(0, rng.pick(&pool).clone());
                }
            }
            root.insert(field.clone(), json!({"$a": arr2}));
            return (vec![field], d);
        }
    }
    let nv = if field == "f" { json!({"$fn": "f2"}) } else { rng.pick(&pool).clone() };
    root.insert(field.clone(), nv);
    (vec![field], d)
}

fn tree_of(paths: &[Vec<String>], coarsen: usize) -> J {
    // exact tree: nested objects ending in true; coarsen=k keeps at most k segments
    let mut root = serde_json::Map::new();
    for p in paths {
        let segs: Vec<&String> = if coarsen > 0 { p.iter().take(coarsen).collect() } else { p.iter().collect() };
        let mut cur = &mut root;
        for (i, s) in segs.iter().enumerate() {
            let last = i + 1 == segs.len();
            if last {
                cur.insert((*s).clone(), J::Bool(true));
            } else {
                let e = cur.entry((*s).clone()).or_insert_with(|| json!({}));
                if e.is_boolean() {
                    break; // already marked wholly
                }
                cur = e.as_object_mut().unwrap();
            }
        }
    }
    J::Object(root)
}

pub fn run(tier: &str, seed: u64, out: &mut Out) {
    let mut rng = Rng::new(seed ^ 0xbe4a);
    let thorough = tier == "thorough";
    let n = if thorough { 2500 } else { 350 };
    for i in 0..n {
        // a small group: main file plus an includable file
        let inc_src = {
            let cfg = TmplCfg { max_depth: 1, allow_template_ref: false, allow_scripts: false, ..Default::default() };
            let mut g = TmplGen::new(&mut rng, cfg);
            g.file()
        };
        let cfg = TmplCfg {
            max_depth: 1 + (i % 3),
            expr_depth: 1 + (i % 2),
            max_children: if thorough { 4 } else { 3 },
            allow_include: if i % 4 == 0 { vec!["/inc".into(), "inc.wxml".into()] } else { vec![] },
            ..Default::default()
        };
        let mut g = TmplGen::new(&mut rng, cfg);
        let src = g.file();
        let feats: Vec<&str> = g.features.keys().cloned().collect();
        let mut tg = TmplGroup::new();
        let diags = { crate::util::note_input(&*src); tg.add_tmpl("p", &src) };
        { crate::util::note_input(&*inc_src); tg.add_tmpl("inc", &inc_src) };
        let max_level = diags.iter().map(|d| d.kind.level() as u8).max().unwrap_or(0);
        let bundle = tg.get_tmpl_gen_object_groups().unwrap_or_default();
        // history
        let d0 = random_data(&mut rng);
        let steps_n = 1 + rng.below(if thorough { 6 } else { 4 });
        let mut datas = vec![d0.clone()];
        let mut trees: Vec<J> = vec![];
        let mut cur = d0;
        for _ in 0..steps_n {
            let k = 1 + rng.below(3);
            let mut paths = vec![];
            for _ in 0..k {
                let (p, nd) = mutate(&mut rng, &cur);
                cur = nd;
                paths.push(p);
            }
            let u = match rng.below(6) {
                0 => J::Bool(true),
                1 => tree_of(&paths, 1),
                2 => tree_of(&paths, 2),
                _ => tree_of(&paths, 0),
            };
            datas.push(cur.clone());
            trees.push(u);
        }
        let slot_values = json!({"$o": {"sv": "SV", "item": {"$o": {"a": 1}}, "aB": {"$a": [1, 2]}}});
        let job = json!({
            "kind": "behave", "id": i, "src": src, "inc": inc_src, "bundle": bundle, "path": "p", "max_level": max_level,
            "datas": datas, "trees": trees, "features": feats, "slotValues": slot_values,
        });
        out.raw(&job.to_string());
    }
}

/// exhaustive subsets of changed leaf paths for a family of small templates (C06)
pub fn run_subsets(tier: &str, seed: u64, out: &mut Out) {
    let _ = seed;
    let templates: Vec<&str> = vec![
        "<v a=\"{{ a }}\" b=\"{{ o.a }}\" c=\"{{ o.b.x }}\">{{ b }}{{ l[0] }}</v>",
        "<v wx:if=\"{{ a }}\">{{ b }}</v><v wx:elif=\"{{ o.a }}\">{{ c }}</v><v wx:else>{{ o.b.x }}</v>",
        "<v wx:for=\"{{ l }}\" a=\"{{ item }}\" b=\"{{ index }}\">{{ o.a }}{{ item.a }}{{ b }}</v>",
        "<v a=\"{{ o[b] }}\" b=\"{{ {x: a, ...o} }}\" c=\"{{ [a, ...l, b] }}\">{{ a ? b : o.a }}</v>",
        "<template name=\"t\">{{ a }}{{ x.a }}{{ b }}</template><template is=\"t\" data=\"{{ a, x: o, ...o.b }}\"/><template is=\"{{ c ? 't' : 'u' }}\" data=\"{{ {a: b} }}\"/>",
        "<block wx:for=\"{{ l }}\"><block wx:for=\"{{ o.o.a }}\" wx:for-item=\"j\">{{ item }}{{ j }}{{ a }}</block></block>",
        "<v class=\"x {{ a }} {{ o.a }}\" style=\"{{ b }}\" id=\"{{ c }}\" data-k=\"{{ o.b.x }}\" mark:m=\"{{ l[1] }}\" bind:tap=\"{{ a }}\"/>",
        "<slot name=\"{{ a }}\" sv=\"{{ o.a }}\" data-k=\"{{ b }}\"/><block slot=\"{{ c }}\">{{ o.b.x }}</block>",
        "<v a=\"{{ f(a, o.a) }}\" b=\"{{ a ?? b }}\" c=\"{{ typeof o.b.x }}\">{{ a + b }}{{ !c }}</v>",
    ];
    let leaves: Vec<Vec<&str>> = vec![vec!["a"], vec!["b"], vec!["c"], vec!["o", "a"], vec!["o", "b", "x"], vec!["l"]];
    let base = json!({"$o": {
        "a": 1, "b": "a", "c": true, "d": null, "s": "str", "f": {"$fn": "ff"},
        "o": {"$o": {"a": 0, "b": {"$o": {"x": "deep"}}, "o": {"$o": {"a": {"$a": [5, 6]}}}}},
        "l": {"$a": [{"$o": {"a": 1}}, {"$o": {"a": 2}}]},
    }});
    let alt = |leaf: &Vec<&str>| -> J {
        match leaf.join(".").as_str() {
            "a" => json!(0),
            "b" => json!("x"),
            "c" => json!(false),
            "o.a" => json!("changed"),
            "o.b.x" => json!({"$u": 1}),
            _ => json!({"$a": [{"$o": {"a": 9}}, {"$o": {"a": 2}}, {"$o": {"a": 3}}]}),
        }
    };
    let shrink = json!({"$a": [{"$o": {"a": 7}}]});
    let mut id = 0;
    for (ti, src) in templates.iter().enumerate() {
        let mut tg = TmplGroup::new();
        { crate::util::note_input(&*src); tg.add_tmpl("p", src) };
        let bundle = tg.get_tmpl_gen_object_groups().unwrap_or_default();
        let nsub = 1usize << leaves.len();
        for mask in 1..nsub {
            for variant in 0..(if tier == "thorough" { 3 } else { 2 }) {
                let mut d1 = base.clone();
                let mut u = serde_json::Map::new();
                for (li, leaf) in leaves.iter().enumerate() {
                    if mask & (1 << li) == 0 {
                        continue;
                    }
                    // set value
                    let mut cur = d1.get_mut("$o").unwrap();
                    for (k, seg) in leaf.iter().enumerate() {
                        if k + 1 == leaf.len() {
                            let nv = if leaf.len() == 1 && leaf[0] == "l" && variant == 1 { shrink.clone() } else { alt(leaf) };
                            cur.as_object_mut().unwrap().insert(seg.to_string(), nv);
                        } else {
                            cur = cur.get_mut(*seg).unwrap().get_mut("$o").unwrap();
                        }
                    }
                    // mark path
                    let mut m = &mut u;
                    for (k, seg) in leaf.iter().enumerate() {
                        if k + 1 == leaf.len() || variant == 2 {
                            m.insert(seg.to_string(), J::Bool(true));
                            break;
                        } else {
                            let e = m.entry(seg.to_string()).or_insert_with(|| json!({}));
                            if e.is_boolean() {
                                break;
                            }
                            m = e.as_object_mut().unwrap();
                        }
                    }
                }
                let job = json!({
                    "kind": "behave", "id": format!("s{}", id), "src": src, "bundle": bundle, "path": "p", "max_level": 0,
                    "datas": [base, d1], "trees": [J::Object(u)], "features": [format!("subset-template-{}", ti)],
                    "slotValues": {"$o": {}},
                });
                out.raw(&job.to_string());
                id += 1;
            }
        }
    }
}

/// sets the value at `path` inside marker-encoded data (objects by key, arrays by index)
fn set_path(d: &mut J, path: &[&str], nv: J) {
    if path.is_empty() {
        *d = nv;
        return;
    }
    if let Some(o) = d.get_mut("$o") {
        let m = o.as_object_mut().unwrap();
        if !m.contains_key(path[0]) {
            m.insert(path[0].to_string(), J::Null);
        }
        set_path(m.get_mut(path[0]).unwrap(), &path[1..], nv);
    } else if let Some(a) = d.get_mut("$a") {
        let i: usize = path[0].parse().unwrap();
        set_path(&mut a.as_array_mut().unwrap()[i], &path[1..], nv);
    }
}

/// expression shapes x binding contexts (C06 / C07): every shape that needs generation-time
/// temporaries or a non-l-value list, placed in every place a binding can sit, with a history that
/// changes each field on its own under an exact update-path tree
pub fn run_matrix(tier: &str, seed: u64, out: &mut Out) {
    let _ = (tier, seed);
    let shapes: Vec<&str> = vec![
        "a ? b : c", "a ? b + 1 : c", "a ? 'tab ' + b : ''", "d ?? b", "n ?? b", "l[d]", "o[s]", "o[s].x", "a ? l[d] : c", "(a ? o : l).a",
        "a && b || c", "[a, b][d]", "{x: a, y: b}.x", "a + b", "o.b.x", "'p ' + (a ? b : '')", "l || []", "[a, b]", "o.list || []",
        "a ? l : [b]", "l[d].a", "[l[d], o[s]]", "{k: l[d]}", "f(a ? b : c)", "!(a ? b : c)", "l.length", "s.length",
        // script module members (their l-value paths name the module and the member)
        "a ? m.f : m.g", "m[s]", "a ? m.x : b", "m.o[s]", "(a ? m : o).x",
        // compound expressions whose value is a list / object below the dependency (the tree handed on must be `true`)
        "o && o.list", "(n || o).list", "o && o.b", "a && l",
    ];
    let configs: Vec<J> = vec![
        json!({"$o": {"a": 1, "b": "B", "c": "C", "d": 0, "n": null, "s": "a", "f": {"$fn": "ff"},
            "o": {"$o": {"a": {"$o": {"x": "oa"}}, "x": {"$o": {"x": "ox"}}, "b": {"$o": {"x": "deep"}}, "list": {"$a": [1, 2]}}},
            "l": {"$a": [10, 20, 30]}}}),
        json!({"$o": {"a": 0, "b": 2, "c": 3, "d": 1, "n": {"$u": 1}, "s": "x", "f": {"$fn": "ff"},
            "o": {"$o": {"a": 5, "x": 6, "b": {"$o": {"x": 7}}, "list": {"$a": [{"$o": {"a": 1, "x": "p"}}]}}},
            "l": {"$a": [{"$o": {"a": 1, "x": "p"}}, {"$o": {"a": 2, "x": "q"}}]}}}),
    ];
    // (path, new value) per step; list steps differ per config
    let common: Vec<(Vec<&str>, J)> = vec![
        (vec!["a"], json!("")), (vec!["a"], json!(7)), (vec!["b"], json!("B2")), (vec!["c"], json!("C2")),
        (vec!["d"], json!(2)), (vec!["d"], json!(0)), (vec!["n"], json!("N")), (vec!["n"], json!(null)),
        (vec!["s"], json!("b")), (vec!["o", "b", "x"], json!("deep2")), (vec!["o", "a"], json!({"$o": {"x": "oa2"}})),
        (vec!["o", "list", "0", "a"], json!(9)), (vec!["o", "list", "0"], json!({"$o": {"a": 8, "x": "r"}})),
        (vec!["o", "list"], json!({"$a": [3, 4, 5]})), (vec!["o", "list"], json!({"$u": 1})),
    ];
    let list_steps: Vec<Vec<(Vec<&str>, J)>> = vec![
        vec![(vec!["l", "0"], json!(11)), (vec!["l"], json!({"$a": [11, 20, 30, 40]})), (vec!["l"], json!({"$a": [11]})), (vec!["l"], json!({"$u": 1})), (vec!["l"], json!({"$a": [1, 2]}))],
        vec![(vec!["l", "0", "a"], json!(5)), (vec!["l", "1", "x"], json!("Q")), (vec!["l"], json!({"$a": [{"$o": {"a": 9, "x": "r"}}]})),
             (vec!["l"], json!({"$a": [{"$o": {"a": 9, "x": "r"}}, {"$o": {"a": 8, "x": "s"}}, {"$o": {"a": 7, "x": "t"}}]})), (vec!["l", "2", "a"], json!(70))],
    ];
    let mut id = 0;
    // l-value paths through loops (C11): a list that is a data list or a script list depending on data, nested loops whose
    // inner list is a member chain of the outer item, bindings three levels deep
    let loop_templates: Vec<&str> = vec![
        "<wxs module=\"m\">exports.list = [{name: 's0', tags: [{text: 'st'}]}, {name: 's1', tags: []}]</wxs><block wx:for=\"{{ a ? g : m.list }}\"><v model:value=\"{{ item.name }}\" bind:tap=\"{{ item.name }}\" change:p=\"{{ f }}\" q=\"{{ index }}\"/></block>",
        "<block wx:for=\"{{ g }}\" wx:for-item=\"gr\"><block wx:for=\"{{ gr.members }}\" wx:for-item=\"mem\"><v model:value=\"{{ mem.name }}\" bind:tap=\"{{ mem.name }}\"/><block wx:for=\"{{ mem.tags }}\" wx:for-item=\"t\" wx:for-index=\"ti\"><v model:v=\"{{ t.text }}\" w=\"{{ ti }}\"/></block></block></block>",
        "<block wx:for=\"{{ g }}\"><block wx:for=\"{{ item.members }}\"><v model:value=\"{{ item.name }}\"/></block><v model:value=\"{{ item.title }}\"/></block>",
        "<block wx:for=\"{{ g[d].members }}\"><v model:value=\"{{ item.name }}\" model:w=\"{{ g[d].members[index].name }}\"/></block>",
        "<block wx:for=\"{{ a ? g : k }}\"><block wx:for=\"{{ item.members }}\" wx:for-item=\"mm\"><v model:value=\"{{ mm.name }}\"/></block></block>",
        // a list that has a data path or none (a literal), depending on data: the item's path variable is null in the second case
        "<block wx:for=\"{{ a ? g : [{name: 'lit', members: [{name: 'lm'}]}] }}\"><v model:value=\"{{ item.name }}\" bind:tap=\"{{ item.name }}\"/><block wx:for=\"{{ item.members }}\" wx:for-item=\"mm\"><v model:value=\"{{ mm.name }}\"/></block></block>",
    ];
    let mut loop_templates = loop_templates;
    // a member of a conditional whose branch is the item of a list without data path (the item's path variable is null)
    // event-like property names in attribute syntax (`bindselect`, `catch-close`, `on-x`) bound to members of a script module
    // through top-level fields: the script path travels in the 5th argument of R.r, at creation, in tree updates and in the
    // binding-map updaters alike
    loop_templates.push("<wxs module=\"inl\">exports.o = {g: function inl_o_g(){}, k: function inl_o_k(){}}; exports.h = function inl_h(){}</wxs><v bindselect=\"{{ inl.o[d ? 'g' : 'k'] }}\" catch-close=\"{{ a ? inl.h : inl.o.g }}\" on-x=\"{{ inl.h }}\" bindtap=\"{{ a ? inl.o.k : inl.h }}\"/>");
    // a negated condition selects the other branch: value and path must agree
    loop_templates.push("<v model:value=\"{{ !d ? g[0].name : k[0].name }}\" model:w=\"{{ !a ? k[0].title : g[0].title }}\"/><block wx:for=\"{{ !a ? g : k }}\"><v model:value=\"{{ item.name }}\" model:t=\"{{ !d ? item.title : item.name }}\"/></block>");
    // the loop index is not assignable: no path for it, alone, in a chain, as the taken branch of a conditional, nested, and
    // for lists of a script module (where event / change: bindings carry the script path)
    loop_templates.push("<block wx:for=\"{{ g }}\"><v model:value=\"{{ index }}\" model:w=\"{{ d ? index : item.name }}\" bind:tap=\"{{ index }}\" change:p=\"{{ index }}\"/><block wx:for=\"{{ item.members }}\" wx:for-item=\"mm\" wx:for-index=\"mi\"><v model:value=\"{{ mi }}\" model:w=\"{{ index }}\" model:u=\"{{ a ? mi : mm.name }}\"/></block></block>");
    loop_templates.push("<wxs module=\"inl\">exports.list = [{name: 'i0'}, {name: 'i1'}]</wxs><block wx:for=\"{{ inl.list }}\" wx:for-index=\"pi\"><v bind:tap=\"{{ pi }}\" change:p=\"{{ pi }}\" model:value=\"{{ pi }}\" catch:x=\"{{ d ? pi : item.name }}\"/></block>");
    loop_templates.push("<block wx:for=\"{{ a ? g : [{name: 'lit', members: []}] }}\"><v model:value=\"{{ (d ? item : k[0]).name }}\" bind:tap=\"{{ (d ? item : k[0]).name }}\" change:p=\"{{ (d ? item : k[0]).name }}\"/></block>");
    loop_templates.push("<block wx:for=\"{{ a ? g : [{name: 'lit', members: [{name: 'lm'}]}] }}\"><v model:value=\"{{ (d ? (a ? item : k[0]) : item).members[0].name }}\"/></block>");
    // script modules (inline and external, inline first) whose members are event handlers, change: listeners and loop lists:
    // general paths rooted at a module must name it; an item of a module's list is not assignable (no model path)
    loop_templates.push("<wxs module=\"inl\">exports.h = function inl_h(){}; exports.o = {g: function inl_o_g(){}}; exports.list = [{name: 'i0', f: function inl_list_0_f(){}}]</wxs><wxs module=\"ext\" src=\"/e1\"/><v bind:tap=\"{{ inl.h }}\" change:p=\"{{ inl.o.g }}\" catch:x=\"{{ ext.g }}\" mut-bind:y=\"{{ ext.o.g }}\"/><block wx:for=\"{{ inl.list }}\"><v model:value=\"{{ item.name }}\" bind:tap=\"{{ item.f }}\" q=\"{{ item.name }}\"/></block><block wx:for=\"{{ ext.list }}\" wx:for-item=\"e\"><v model:value=\"{{ e.name }}\" bind:tap=\"{{ e.f }}\"/></block>");
    loop_templates.push("<wxs module=\"ext\" src=\"/e1\"/><wxs module=\"inl\">exports.h = function inl_h(){}</wxs><v bind:tap=\"{{ a ? inl.h : ext.g }}\" change:p=\"{{ ext.o.g }}\"/>");
    let loop_data: Vec<J> = vec![
        json!({"$o": {"a": 1, "d": 0, "f": {"$fn": "ff"},
            "g": {"$a": [{"$o": {"title": "T0", "name": "n0", "members": {"$a": [{"$o": {"name": "m00", "tags": {"$a": [{"$o": {"text": "t000"}}, {"$o": {"text": "t001"}}]}}}, {"$o": {"name": "m01", "tags": {"$a": []}}}]}, "tags": {"$a": []}}},
                         {"$o": {"title": "T1", "name": "n1", "members": {"$a": [{"$o": {"name": "m10", "tags": {"$a": [{"$o": {"text": "t100"}}]}}}]}, "tags": {"$a": []}}}]},
            "k": {"$a": [{"$o": {"title": "K0", "name": "k0", "members": {"$a": [{"$o": {"name": "km", "tags": {"$a": []}}}]}, "tags": {"$a": []}}}]}}}),
    ];
    for (li, src) in loop_templates.iter().enumerate() {
        let mut tg = TmplGroup::new();
        tg.add_script("e1", "exports.g = function ext_g(){}; exports.o = {g: function ext_o_g(){}}; exports.list = [{name: 'e0', f: function ext_list_0_f(){}}]");
        let diags = { crate::util::note_input(&*src); tg.add_tmpl("p", src) };
        let max_level = diags.iter().map(|d| d.kind.level() as u8).max().unwrap_or(0);
        let bundle = tg.get_tmpl_gen_object_groups().unwrap_or_default();
        for d0 in loop_data.iter() {
            let mut datas = vec![d0.clone()];
            let mut trees = vec![];
            let mut cur = d0.clone();
            let steps: Vec<(Vec<&str>, J)> = vec![
                (vec!["a"], json!(0)), (vec!["d"], json!(1)), (vec!["g", "0", "members", "0", "name"], json!("M")), (vec!["a"], json!(2)),
                (vec!["g", "1", "title"], json!("TT")), (vec!["d"], json!(0)),
            ];
            for (path, nv) in steps.iter() {
                set_path(&mut cur, path, nv.clone());
                datas.push(cur.clone());
                let p: Vec<String> = path.iter().map(|x| x.to_string()).collect();
                trees.push(tree_of(&[p], 0));
            }
            let job = json!({
                "kind": "behave", "id": format!("L{}", li), "src": src, "bundle": bundle, "path": "p", "max_level": max_level,
                "datas": datas, "trees": trees, "features": [format!("matrix-loop-template-{}", li), "matrix-all-contexts"],
                "slotValues": {"$o": {}},
            });
            out.raw(&job.to_string());
        }
    }
    // keyed and key-less lists over arrays AND objects (the object form has its update marks keyed by field name), with
    // item-level marks, key changes, duplicated keys, reorders, growth and shrinkage: the list manager of the real runtime
    // (range_list_diff.ts) decides which item gets which marks
    let list_templates: Vec<&str> = vec![
        "<block wx:for=\"{{ q }}\" wx:key=\"id\"><text>{{ index }}={{ item.v }}/{{ item.id }}</text></block>",
        "<v wx:for=\"{{ q }}\" wx:key=\"id\" a=\"{{ item.v }}\" b=\"{{ index }}\">{{ item.w.x }}</v>",
        "<block wx:for=\"{{ q }}\"><text>{{ index }}={{ item.v }}</text></block>",
        "<block wx:for=\"{{ q }}\" wx:key=\"*this\"><text>{{ index }}:{{ item }}:{{ item.v }}</text></block>",
        "<block wx:for=\"{{ q }}\" wx:key=\"v\"><text>{{ item.v }}</text><block wx:for=\"{{ item.t }}\" wx:for-item=\"u\" wx:key=\"k\">{{ u.n }}</block></block>",
    ];
    let it = |id: i64, v: &str| json!({"$o": {"id": id, "v": v, "w": {"$o": {"x": format!("w{}", v)}}, "t": {"$a": [{"$o": {"k": 1, "n": format!("n{}", v)}}, {"$o": {"k": 2, "n": "m"}}]}}});
    let list_configs: Vec<(J, Vec<(Vec<&str>, J)>)> = vec![
        // an array of keyed items
        (json!({"$o": {"q": {"$a": [it(1, "x"), it(2, "y"), it(3, "z")]}}}), vec![
            (vec!["q", "0", "v"], json!("X1")), (vec!["q", "2", "w", "x"], json!("W")), (vec!["q", "1", "id"], json!(9)),
            (vec!["q", "1", "t", "0", "n"], json!("N")),
            (vec!["q"], json!({"$a": [it(3, "z"), it(1, "X1"), it(9, "y")]})), (vec!["q", "1", "v"], json!("X2")),
            (vec!["q"], json!({"$a": [it(3, "z"), it(4, "new"), it(1, "X2"), it(9, "y"), it(5, "e")]})),
            (vec!["q"], json!({"$a": [it(4, "new"), it(9, "y")]})), (vec!["q", "0", "id"], json!(9)), (vec!["q", "1", "v"], json!("dup")),
            (vec!["q"], json!({"$a": []})), (vec!["q"], json!({"$a": [it(7, "s")]})),
        ]),
        // an object of keyed items
        (json!({"$o": {"q": {"$o": {"a": it(1, "x"), "b": it(2, "y"), "c": it(3, "z")}}}}), vec![
            (vec!["q", "a", "v"], json!("X1")), (vec!["q", "c", "w", "x"], json!("W")), (vec!["q", "b", "id"], json!(9)),
            (vec!["q", "b", "t", "0", "n"], json!("N")),
            (vec!["q"], json!({"$o": {"c": it(3, "z"), "a": it(1, "X1"), "b": it(9, "y")}})), (vec!["q", "a", "v"], json!("X2")),
            (vec!["q"], json!({"$o": {"c": it(3, "z"), "n": it(4, "new"), "a": it(1, "X2"), "b": it(9, "y")}})),
            (vec!["q"], json!({"$o": {"n": it(4, "new"), "b": it(9, "y")}})), (vec!["q", "n", "id"], json!(9)), (vec!["q", "b", "v"], json!("dup")),
            (vec!["q"], json!({"$o": {}})), (vec!["q"], json!({"$o": {"z": it(7, "s")}})),
        ]),
        // primitives (key *this), with duplicates
        (json!({"$o": {"q": {"$a": ["p", "q", "p", 3]}}}), vec![
            (vec!["q", "1"], json!("Q")), (vec!["q"], json!({"$a": ["Q", "p", "p", 3, 3]})), (vec!["q", "4"], json!("end")),
            (vec!["q"], json!({"$a": [3, "p"]})), (vec!["q"], json!("str")), (vec!["q"], json!(3)), (vec!["q"], json!({"$o": {"k": "v", "l": "w"}})),
            (vec!["q", "l"], json!("W")),
        ]),
    ];
    for (li, src) in list_templates.iter().enumerate() {
        let mut tg = TmplGroup::new();
        let diags = { crate::util::note_input(&*src); tg.add_tmpl("p", src) };
        let max_level = diags.iter().map(|d| d.kind.level() as u8).max().unwrap_or(0);
        let bundle = tg.get_tmpl_gen_object_groups().unwrap_or_default();
        for (ci, (d0, steps)) in list_configs.iter().enumerate() {
            let mut datas = vec![d0.clone()];
            let mut trees = vec![];
            let mut cur = d0.clone();
            for (path, nv) in steps.iter() {
                set_path(&mut cur, path, nv.clone());
                datas.push(cur.clone());
                let p: Vec<String> = path.iter().map(|x| x.to_string()).collect();
                trees.push(tree_of(&[p], 0));
            }
            let job = json!({
                "kind": "behave", "id": format!("K{}-{}", li, ci), "src": src, "bundle": bundle, "path": "p", "max_level": max_level,
                "datas": datas, "trees": trees, "features": [format!("matrix-keyed-list-{}", li), "matrix-all-contexts"],
                "slotValues": {"$o": {}},
            });
            out.raw(&job.to_string());
        }
    }
    for shape in shapes.iter() {
        let e = shape;
        let wxs = "<wxs module=\"m\">exports.f = function(){ return 'F' }; exports.g = function(){ return 'G' }; exports.a = 'ma'; exports.x = 'mx'; exports.b = 'mb'; exports.o = { a: 'moa', x: 'mox', b: 'mob' }</wxs>";
        let attrs_only = format!(
            "{wxs}<view id=\"{{{{{e}}}}}\" class=\"{{{{{e}}}}}\" style=\"{{{{{e}}}}}\" hidden=\"{{{{{e}}}}}\" p=\"{{{{{e}}}}}\" q-r=\"x{{{{{e}}}}}y\" data-k=\"{{{{{e}}}}}\" data:j=\"{{{{{e}}}}}\" mark:m=\"{{{{{e}}}}}\" bind:tap=\"{{{{{e}}}}}\" model:v=\"{{{{{e}}}}}\" change:p=\"{{{{{e}}}}}\">{{{{{e}}}}}|x{{{{{e}}}}}y</view><c class=\"k {{{{{e}}}}}\" style=\"a:{{{{{e}}}}}\"><view slot=\"{{{{{e}}}}}\">{{{{ {e} }}}}</view></c>",
            e = e, wxs = if e.contains("m.") || e.contains("m[") || e.contains("m :") { wxs } else { "" });
        let full = format!(
            "{attrs}<block wx:if=\"{{{{{e}}}}}\">T{{{{b}}}}</block><block wx:else>F{{{{c}}}}</block><block wx:for=\"{{{{{e}}}}}\">{{{{index}}}}={{{{item}}}}/{{{{item.a}}}}/{{{{item.x}}}};</block><v wx:for=\"{{{{{e}}}}}\" wx:for-item=\"it\" wx:key=\"a\" k=\"{{{{it.a}}}}\">{{{{it.x}}}}</v><template name=\"t\">[{{{{x}}}}|{{{{x.a}}}}|{{{{x[0]}}}}]</template><template is=\"t\" data=\"{{{{x: {e}}}}}\"/><slot name=\"{{{{{e}}}}}\" v=\"{{{{{e}}}}}\"/><c><view slot:sv wx:if=\"{{{{{e}}}}}\">{{{{ {e} }}}}{{{{sv}}}}</view></c>",
            attrs = attrs_only, e = e);
        for (vi, src) in [attrs_only.clone(), full].iter().enumerate() {
            let mut tg = TmplGroup::new();
            let diags = { crate::util::note_input(&*src); tg.add_tmpl("p", src) };
            let max_level = diags.iter().map(|d| d.kind.level() as u8).max().unwrap_or(0);
            let bundle = tg.get_tmpl_gen_object_groups().unwrap_or_default();
            for (ci, d0) in configs.iter().enumerate() {
                let mut datas = vec![d0.clone()];
                let mut trees = vec![];
                let mut cur = d0.clone();
                for (path, nv) in common.iter().chain(list_steps[ci].iter()) {
                    set_path(&mut cur, path, nv.clone());
                    datas.push(cur.clone());
                    let p: Vec<String> = path.iter().map(|x| x.to_string()).collect();
                    trees.push(tree_of(&[p], 0));
                }
                // last: several fields at once under the whole-data mark `true`
                set_path(&mut cur, &["a"], json!(3));
                set_path(&mut cur, &["b"], json!("B9"));
                set_path(&mut cur, &["c"], json!("C9"));
                set_path(&mut cur, &["d"], json!(1));
                set_path(&mut cur, &["s"], json!("x"));
                datas.push(cur.clone());
                trees.push(J::Bool(true));
                let job = json!({
                    "kind": "behave", "id": format!("m{}", id), "src": src, "bundle": bundle, "path": "p", "max_level": max_level,
                    "datas": datas, "trees": trees,
                    "features": [format!("matrix-shape:{}", shape), if vi == 0 { "matrix-attrs-only" } else { "matrix-all-contexts" }, format!("matrix-config-{}", ci)],
                    "slotValues": {"$o": {"sv": "SV"}},
                });
                out.raw(&job.to_string());
                id += 1;
            }
        }
    }
}

// ---------------------------------------------------------------- C04: render specification jobs

pub fn val_sexp_pub(v: &J) -> String { val_sexp(v) }
fn val_sexp(v: &J) -> String {
    use crate::ast::q;
    match v {
        J::Null => "n".into(),
        J::Bool(b) => format!("(b {})", *b as u8),
        J::Number(n) => {
            if let Some(i) = n.as_i64() {
                format!("(num {})", q(&i.to_string()))
            } else if n.as_f64().map(|f| f.fract() == 0.0 && f.abs() < 9e15).unwrap_or(false) {
                format!("(num {})", q(&(n.as_f64().unwrap() as i64).to_string()))
            } else {
                "nonint".into()
            }
        }
        J::String(s) => format!("(s {})", q(s)),
        J::Array(a) => format!("(arr {})", a.iter().map(val_sexp).collect::<Vec<_>>().join(" ")),
        J::Object(o) => {
            if o.contains_key("$u") {
                "u".into()
            } else if let Some(a) = o.get("$a") {
                format!("(arr {})", a.as_array().unwrap().iter().map(val_sexp).collect::<Vec<_>>().join(" "))
            } else if let Some(m) = o.get("$o") {
                format!("(obj {})", m.as_object().unwrap().iter().map(|(k, v)| format!("({} {})", q(k), val_sexp(v))).collect::<Vec<_>>().join(" "))
            } else if let Some(f) = o.get("$fn") {
                format!("(fn {})", q(f.as_str().unwrap_or("")))
            } else {
                "nonint".into()
            }
        }
    }
}

fn render_data(rng: &mut Rng) -> J {
    let pool = vec![
        json!(0), json!(1), json!(-3), json!(42), json!(""), json!("a"), json!("x y"), json!("汉\u{1f600}"), json!(null), json!({"$u": 1}),
        json!(true), json!(false), json!({"$a": [1, "two", null]}), json!({"$a": []}),
        json!({"$o": {"a": 1, "b": {"$o": {"x": "deep"}}, "x": 0}}), json!({"$o": {}}),
        json!({"$a": [{"$o": {"a": 1, "x": "p", "b": {"$o": {"x": "bx"}}}}, {"$o": {"a": 0, "x": ""}}]}),
    ];
    let mut m = serde_json::Map::new();
    for f in DATA_FIELDS {
        let v = match f {
            "l" if rng.chance(2, 3) => json!({"$a": [{"$o": {"a": 1, "x": "p", "b": {"$o": {"x": "bx"}}}}, {"$o": {"a": 0, "x": ""}}, "str", 7]}),
            "o" if rng.chance(2, 3) => json!({"$o": {"a": 1, "b": {"$o": {"x": "deep"}}, "x": 0, "k": {"$a": [5, 6]}}}),
            "s" if rng.chance(1, 2) => json!({"$o": {"k1": "v1", "k2": {"$o": {"a": "in"}}}}),
            _ => rng.pick(&pool).clone(),
        };
        m.insert(f.to_string(), v);
    }
    json!({ "$o": m })
}

pub fn run_render(tier: &str, seed: u64, out: &mut Out) {
    let mut rng = Rng::new(seed ^ 0x4e4d);
    let n = if tier == "thorough" { 4000 } else { 600 };
    // hand-written shapes with chosen data: a template reference whose name evaluates to the empty string, to an unknown
    // name, to undefined / null (nothing is rendered: the file's own content is registered under the name ""), a `data-`
    // only <slot>
    let hand: Vec<(&str, Vec<serde_json::Value>)> = vec![
        ("<template name=\"t1\">T1 {{ x }}</template><template is=\"{{ s }}\" data=\"{{ x: a }}\"/><view>{{ a }}</view><template is=\"{{ b ? '' : 't1' }}\"/>",
         vec![json!({"$o": {"s": "", "a": 1, "b": true}}), json!({"$o": {"s": "t1", "a": 2, "b": false}}),
              json!({"$o": {"s": "nope", "a": 3, "b": 0}}), json!({"$o": {"a": 4, "b": ""}})]),
        ("<v wx:if=\"yes\">A</v><v wx:else>B</v><w wx:if=\"{{ a }}\">C</w><w wx:elif=\"always\">D</w><w wx:else>E</w><x wx:if=\"\">F</x><x wx:else>G</x><y wx:if=\"{{ a }}\">H</y><y wx:elif=\"\">I</y><y wx:elif=\"0\">J</y>",
         vec![json!({"$o": {"a": 0}}), json!({"$o": {"a": 1}})]),
        ("<c><slot name=\"n\" data-k=\"{{ a }}\"/><slot data:j=\"x\"/><slot name=\"{{ s }}\"/></c>",
         vec![json!({"$o": {"s": "", "a": 1}}), json!({"$o": {"s": "q", "a": "v"}})]),
    ];
    for (hi, (src, datas)) in hand.iter().enumerate() {
        let src = src.to_string();
        let mut tg = TmplGroup::new();
        let diags = { crate::util::note_input(&*src); tg.add_tmpl("p", &src) };
        let max_level = diags.iter().map(|d| d.kind.level() as u8).max().unwrap_or(0);
        let t = tg.get_tree("p").unwrap();
        let s = crate::ast::Src::new(&src);
        let dump = crate::ast::template(t, &s);
        let bundle = tg.get_tmpl_gen_object_groups().unwrap_or_default();
        let slot_values = json!({"$o": {"sv": "SV"}});
        for d in datas.iter() {
            let job = json!({"kind": "render", "id": 100000 + hi, "src": src, "max_level": max_level, "bundle": bundle, "features": ["hand"],
                             "data": d, "slotValues": slot_values,
                             "model_cmd": format!("render\t{}\t{}\t{}", dump, val_sexp(d), val_sexp(&slot_values))});
            out.raw(&job.to_string());
        }
    }
    for i in 0..n {
        let cfg = TmplCfg {
            max_depth: 1 + (i % 3),
            expr_depth: i % 3,
            allow_scripts: false,
            simple_exprs: true,
            ..Default::default()
        };
        let mut g = TmplGen::new(&mut rng, cfg);
        let src = g.file();
        let feats: Vec<&str> = g.features.keys().cloned().collect();
        let mut tg = TmplGroup::new();
        let diags = { crate::util::note_input(&*src); tg.add_tmpl("p", &src) };
        let max_level = diags.iter().map(|d| d.kind.level() as u8).max().unwrap_or(0);
        let t = tg.get_tree("p").unwrap();
        let s = crate::ast::Src::new(&src);
        let dump = crate::ast::template(t, &s);
        let bundle = tg.get_tmpl_gen_object_groups().unwrap_or_default();
        let slot_values = json!({"$o": {"sv": "SV", "item": {"$o": {"a": 1, "b": {"$o": {"x": "sx"}}}}, "aB": {"$a": [1, 2]}}});
        for _ in 0..2 {
            let d = render_data(&mut rng);
            let job = json!({"kind": "render", "id": i, "src": src, "max_level": max_level, "bundle": bundle, "features": feats,
                             "data": d, "slotValues": slot_values,
                             "model_cmd": format!("render\t{}\t{}\t{}", dump, val_sexp(&d), val_sexp(&slot_values))});
            out.raw(&job.to_string());
        }
    }
}

/// C04: every attribute family x name spelling x element kind, observed end to end
pub fn run_attrroute(_tier: &str, _seed: u64, out: &mut Out) {
    let names = ["a", "my-prop", "myProp", "a-b-c", "data-my-key", "data-My-KEY", "x_y", "A-b", "a--b", "a-", "a-1", "data-", "data-a-bC",
                 "id", "slot", "class", "style", "name", "tap", "touch-start", "is", "data", "src", "module"];
    let prefixes = ["", "model:", "change:", "worklet:", "data:", "class:", "style:", "bind:", "mut-bind:", "catch:", "capture-bind:",
                    "capture-mut-bind:", "capture-catch:", "mark:", "generic:", "extra-attr:", "slot:", "foo:", "wx:", "a:b:"];
    for el in ["view", "slot"] {
        for p in prefixes {
            for n in names {
                if p == "wx:" && ["if", "for", "key", "else", "elif"].contains(&n) {
                    continue;
                }
                let raw = format!("{}{}", p, n);
                let val = match p {
                    "worklet:" | "generic:" | "extra-attr:" => "v".to_string(),
                    "slot:" => "".to_string(),
                    "change:" | "bind:" | "catch:" => "{{f}}".to_string(),
                    _ => "{{a}}".to_string(),
                };
                let attr = if val.is_empty() { raw.clone() } else { format!("{}=\"{}\"", raw, val) };
                let src = format!("<c><{} {}/></c>", el, attr);
                let mut tg = TmplGroup::new();
                let diags = { crate::util::note_input(&*src); tg.add_tmpl("p", &src) };
                let max_level = diags.iter().map(|d| d.kind.level() as u8).max().unwrap_or(0);
                let bundle = tg.get_tmpl_gen_object_groups().unwrap_or_default();
                let job = json!({"kind": "attrroute", "el": el, "raw": raw, "src": src, "bundle": bundle, "max_level": max_level,
                                 "diags": diags.iter().map(|d| format!("{:?}", d.kind)).collect::<Vec<_>>()});
                out.raw(&job.to_string());
            }
        }
    }
}


// ---------------------------------------------------------------------------------------------------------------
// Histories given as DATA CHANGES (what setData / splice calls hand to the template engine), not as trees: the update
// path tree of each step is built by the real runtime's `updateValues` (glass-easel/src/tmpl/index.ts, translated on
// every run), including the splice form and the binding-map shortcut for a single top-level change.

fn value_at<'a>(d: &'a J, path: &[String]) -> Option<&'a J> {
    let mut cur = d;
    for p in path {
        if let Some(o) = cur.get("$o") {
            cur = o.get(p)?;
        } else if let Some(a) = cur.get("$a") {
            cur = a.as_array()?.get(p.parse::<usize>().ok()?)?;
        } else {
            return None;
        }
    }
    Some(cur)
}

fn set_at(d: &mut J, path: &[String], nv: J) {
    let p: Vec<&str> = path.iter().map(|x| x.as_str()).collect();
    set_path(d, &p, nv);
}

/// all paths to values inside `d` (objects and arrays are visited; the root itself is excluded)
fn all_paths(d: &J, prefix: &mut Vec<String>, out: &mut Vec<(Vec<String>, bool)>) {
    if let Some(o) = d.get("$o").and_then(|x| x.as_object()) {
        for (k, v) in o {
            prefix.push(k.clone());
            out.push((prefix.clone(), v.get("$a").is_some()));
            all_paths(v, prefix, out);
            prefix.pop();
        }
    } else if let Some(a) = d.get("$a").and_then(|x| x.as_array()) {
        for (i, v) in a.iter().enumerate() {
            prefix.push(i.to_string());
            out.push((prefix.clone(), v.get("$a").is_some()));
            all_paths(v, prefix, out);
            prefix.pop();
        }
    }
}

pub fn run_changes(tier: &str, seed: u64, out: &mut Out) {
    let mut rng = Rng::new(seed ^ 0xc4a6e5);
    let templates: Vec<&str> = vec![
        "<block wx:for=\"{{ l }}\"><text>{{ index }}={{ item.a }}/{{ item.x }}</text></block>",
        "<block wx:for=\"{{ l }}\" wx:key=\"a\"><text>{{ index }}={{ item.a }}/{{ item.x }}</text></block>",
        "<v wx:for=\"{{ l }}\" wx:key=\"*this\" a=\"{{ item }}\" b=\"{{ index }}\">{{ l.length }}</v>",
        "<v a=\"{{ l[0].a }}\" b=\"{{ l[1] }}\" c=\"{{ l.length }}\" d=\"{{ l[d].x }}\">{{ l[l.length - 1].a }}</v>",
        "<block wx:for=\"{{ g }}\" wx:for-item=\"gr\" wx:key=\"name\"><block wx:for=\"{{ gr.members }}\" wx:for-item=\"m\"><text>{{ gr.name }}:{{ m.name }}:{{ index }}</text></block></block>",
        "<block wx:if=\"{{ l.length > 2 }}\">long {{ l[2].a }}</block><block wx:else>short {{ a }}</block><v p=\"{{ [a, ...l, b] }}\" q=\"{{ {k: a, ...o} }}\"/>",
        "<template name=\"t\">{{ x.a }}|{{ y }}|<block wx:for=\"{{ z }}\">{{ item.a }},</block></template><template is=\"t\" data=\"{{ x: l[0], y: o.a, z: l }}\"/>",
        "<v a=\"{{ a }}\" b=\"{{ b }}\">{{ a }}{{ c }}</v><text>{{ o.a }}{{ o.b.x }}</text><v wx:if=\"{{ a }}\">{{ b }}</v>",
        "<block wx:for=\"{{ o.list }}\" wx:key=\"a\">{{ item.a }}{{ item.x }}</block><block wx:for=\"{{ q }}\" wx:key=\"id\">{{ index }}{{ item.v }}</block>",
    ];
    let item = |a: i64, x: &str| json!({"$o": {"a": a, "x": x}});
    let base = json!({"$o": {
        "a": 1, "b": "B", "c": true, "d": 0,
        "o": {"$o": {"a": "oa", "b": {"$o": {"x": "deep"}}, "list": {"$a": [item(1, "p"), item(2, "q")]}}},
        "l": {"$a": [item(10, "i"), item(20, "j"), item(30, "k")]},
        "q": {"$o": {"u": {"$o": {"id": 1, "v": "x"}}, "w": {"$o": {"id": 2, "v": "y"}}}},
        "g": {"$a": [{"$o": {"name": "g0", "members": {"$a": [{"$o": {"name": "m00"}}, {"$o": {"name": "m01"}}]}}},
                     {"$o": {"name": "g1", "members": {"$a": [{"$o": {"name": "m10"}}]}}}]},
    }});
    let fresh_values = |rng: &mut Rng, n: usize| -> Vec<J> {
        (0..n).map(|_| match rng.below(4) {
            0 => item(100 + rng.below(50) as i64, "n"),
            1 => json!({"$o": {"a": rng.below(9), "x": "m", "name": "nn", "members": {"$a": [{"$o": {"name": "mm"}}]}}}),
            2 => json!(rng.below(100)),
            _ => json!("s"),
        }).collect()
    };
    let n_hist = if tier == "thorough" { 400 } else { 60 };
    let mut id = 0;
    for (ti, src) in templates.iter().enumerate() {
        let mut tg = TmplGroup::new();
        let diags = { crate::util::note_input(&*src); tg.add_tmpl("p", src) };
        let max_level = diags.iter().map(|d| d.kind.level() as u8).max().unwrap_or(0);
        let bundle = tg.get_tmpl_gen_object_groups().unwrap_or_default();
        for h in 0..n_hist {
            let mode = ["disabled", "enabled"][(id % 2) as usize];
            let mut cur = base.clone();
            let mut datas = vec![cur.clone()];
            let mut steps: Vec<J> = vec![];
            let n_steps = 3 + rng.below(4);
            for _ in 0..n_steps {
                let n_changes = if rng.chance(1, 2) { 1 } else { 1 + rng.below(3) };
                let mut changes: Vec<J> = vec![];
                for _ in 0..n_changes {
                    let mut paths = vec![];
                    all_paths(&cur, &mut vec![], &mut paths);
                    let arrays: Vec<&(Vec<String>, bool)> = paths.iter().filter(|x| x.1).collect();
                    if !arrays.is_empty() && rng.chance(2, 5) {
                        // splice: (path, inserted values, index, deleted count)
                        let (path, _) = arrays[rng.below(arrays.len())].clone();
                        let len = value_at(&cur, &path).and_then(|v| v.get("$a")).and_then(|a| a.as_array()).map(|a| a.len()).unwrap_or(0);
                        let index = rng.below(len + 1);
                        let del = rng.below(3).min(len - index);
                        let n_ins = rng.below(3);
                        let ins = fresh_values(&mut rng, n_ins);
                        let mut arr = value_at(&cur, &path).unwrap().get("$a").unwrap().as_array().unwrap().clone();
                        arr.splice(index..index + del, ins.iter().cloned());
                        set_at(&mut cur, &path, json!({"$a": arr}));
                        changes.push(json!({"path": path, "value": {"$a": ins}, "index": index, "del": del}));
                    } else {
                        // replace at an existing path (a leaf, an item, a whole list / object) or at a top-level field
                        // (a single change of a top-level field takes the binding-map shortcut when the mode allows it)
                        let (path, _) = if rng.chance(1, 4) || (mode == "enabled" && n_changes == 1 && rng.chance(1, 2)) {
                            (vec![(*rng.pick(&["a", "b", "c", "d", "l", "o"])).to_string()], false)
                        } else {
                            paths[rng.below(paths.len())].clone()
                        };
                        let nv = if path.len() == 1 && (path[0] == "l" || path[0] == "g") && rng.chance(2, 3) {
                            let k = rng.below(4);
                            json!({"$a": fresh_values(&mut rng, k)})
                        } else if path.len() == 1 && path[0] == "d" {
                            json!(rng.below(3))
                        } else {
                            fresh_values(&mut rng, 1).pop().unwrap()
                        };
                        set_at(&mut cur, &path, nv.clone());
                        changes.push(json!({"path": path, "value": nv}));
                    }
                }
                datas.push(cur.clone());
                steps.push(json!(changes));
            }
            let job = json!({
                "kind": "behave_changes", "id": format!("C{}-{}", ti, h), "src": src, "bundle": bundle, "path": "p", "max_level": max_level,
                "datas": datas, "changes": steps, "mode": mode,
                "features": [format!("changes-template-{}", ti)], "slotValues": {"$o": {}},
            });
            id += 1;
            out.raw(&job.to_string());
        }
    }
}


// ---------------------------------------------------------------------------------------------------------------
// C04: structural equivalences of the template language, independent of the implementation's own parse tree.  A directive
// on an element is the directive wrapped around the element: `<X wx:if=C ATTRS>K</X>` == `<block wx:if=C><X ATTRS>K</X></block>`
// (the same for wx:elif / wx:else chains and wx:for with its item / index / key attributes), for every element kind incl.
// `<block slot=..>` (a virtual node carrying the slot) and `<slot>`.  Both sides are compiled and created with the same
// data; the trees must be equal.
pub fn run_pairs(_tier: &str, _seed: u64, out: &mut Out) {
    let elems: Vec<(&str, &str, &str)> = vec![
        // (open tag without the directive, children, close tag)
        ("<view a=\"{{ a }}\"", "K{{ b }}", "</view>"),
        ("<view slot=\"s\"", "K", "</view>"),
        ("<view slot=\"{{ s }}\" id=\"i\"", "{{ a }}", "</view>"),
        ("<block slot=\"s\"", "K{{ a }}", "</block>"),
        ("<block slot=\"{{ s }}\"", "<v/>K", "</block>"),
        ("<block", "<v/>K", "</block>"),
        ("<slot name=\"n\"", "", "</slot>"),
        ("<slot name=\"{{ s }}\" slot=\"t\"", "", "</slot>"),
        ("<template is=\"t\" data=\"{{ x: a }}\"", "", "</template>"),
        ("<c slot=\"s\" generic:g=\"x\"", "<v slot=\"q\">in</v>", "</c>"),
    ];
    let dirs: Vec<(&str, &str)> = vec![
        // (directive attributes, what the body may use)
        ("wx:if=\"{{ c }}\"", ""),
        ("wx:if=\"{{ d }}\"", ""),
        ("wx:for=\"{{ l }}\"", "{{ index }}{{ item.a }}"),
        ("wx:for=\"{{ l }}\" wx:for-item=\"it\" wx:for-index=\"ix\" wx:key=\"a\"", "{{ ix }}{{ it.a }}"),
        ("wx:for=\"{{ o }}\" wx:key=\"*this\"", "{{ index }}"),
        ("wx:for=\"{{ 3 }}\"", "{{ item }}"),
    ];
    let datas: Vec<J> = vec![
        json!({"$o": {"a": 1, "b": "B", "c": true, "d": 0, "s": "dyn", "l": {"$a": [{"$o": {"a": 1}}, {"$o": {"a": 2}}]}, "o": {"$o": {"k": "v", "m": "w"}}}}),
        json!({"$o": {"a": "A", "b": null, "c": 0, "d": "yes", "s": "", "l": {"$a": []}, "o": {"$o": {}}}}),
    ];
    let mut id = 0;
    let prelude = "<template name=\"t\">T{{ x }}</template>";
    for (open, kids, close) in elems.iter() {
        for (dir, body_use) in dirs.iter() {
            let kids2 = format!("{}{}", kids, if open.starts_with("<slot") || open.starts_with("<template") { "" } else { body_use });
            let a = format!("{}<v>before</v>{} {}>{}{}<v>after</v>", prelude, open, dir, kids2, close);
            let b = format!("{}<v>before</v><block {}>{}>{}{}</block><v>after</v>", prelude, dir, open, kids2, close);
            let mut pairs = vec![(a, b)];
            if dir.starts_with("wx:if") {
                // the chain forms
                let a2 = format!("{}<v wx:if=\"{{{{ d }}}}\">first</v>{} wx:elif=\"{{{{ c }}}}\">{}{}{} wx:else>{}{}", prelude, open, kids2, close, open, kids2, close);
                let b2 = format!("{}<v wx:if=\"{{{{ d }}}}\">first</v><block wx:elif=\"{{{{ c }}}}\">{}>{}{}</block><block wx:else>{}>{}{}</block>", prelude, open, kids2, close, open, kids2, close);
                pairs.push((a2, b2));
            }
            for (a, b) in pairs {
                let mut ga = TmplGroup::new();
                let da = { crate::util::note_input(&*a); ga.add_tmpl("p", &a) };
                let mut gb = TmplGroup::new();
                let db = { crate::util::note_input(&*b); gb.add_tmpl("p", &b) };
                let la = da.iter().map(|d| d.kind.level() as u8).max().unwrap_or(0);
                let lb = db.iter().map(|d| d.kind.level() as u8).max().unwrap_or(0);
                for d in datas.iter() {
                    let job = json!({"kind": "pair", "id": id, "a": a, "b": b, "level_a": la, "level_b": lb,
                                     "bundle_a": ga.get_tmpl_gen_object_groups().unwrap_or_default(),
                                     "bundle_b": gb.get_tmpl_gen_object_groups().unwrap_or_default(), "data": d});
                    out.raw(&job.to_string());
                    id += 1;
                }
            }
        }
    }
    // what a file renders does not depend on its own name: the same importer under names that sort before and after the
    // imported file, and a pair of files importing each other
    let importer = "<import src=\"/lib/cards\"/><template name=\"own\">own {{ x }}</template><template is=\"card\" data=\"{{ x: a }}\"/><template is=\"{{ s }}\" data=\"{{ x: b }}\"/><template is=\"own\" data=\"{{ x: a }}\"/>";
    let lib = "<import src=\"/zz/back\"/><template name=\"card\">card {{ x }}</template><template name=\"dyn\">dyn {{ x }}</template><template name=\"own\">lib-own</template>";
    let back = "<import src=\"/lib/cards\"/><template name=\"back\">back</template>";
    let names = ["app", "lib/a", "lib/zz", "main", "zz/top"];
    for (k, na) in names.iter().enumerate() {
        let nb = names[(k + 1) % names.len()];
        let mk = |name: &str| -> (String, u8) {
            let mut g = TmplGroup::new();
            let d = { crate::util::note_input(importer); g.add_tmpl(name, importer) };
            g.add_tmpl("lib/cards", lib);
            g.add_tmpl("zz/back", back);
            (g.get_tmpl_gen_object_groups().unwrap_or_default(), d.iter().map(|d| d.kind.level() as u8).max().unwrap_or(0))
        };
        let (ba, la) = mk(na);
        let (bb, lb) = mk(nb);
        for d in datas.iter() {
            let job = json!({"kind": "pair", "id": id, "a": format!("[file {}] {}", na, importer), "b": format!("[file {}] {}", nb, importer),
                             "level_a": la, "level_b": lb, "bundle_a": ba, "bundle_b": bb, "path_a": na, "path_b": nb, "data": d});
            out.raw(&job.to_string());
            id += 1;
        }
    }
}
