//! C08/C09/C10/C17/C18/C19: stylesheet compiler.
//!
//! For every case the harness prints one line
//!   css <TAB> <opts sexp> <TAB> <token tree sexp> <TAB> => <TAB> <impl sections>
//! where the token tree is obtained from the same cssparser the implementation links, and
//! the implementation sections (TAB separated) are, for the normal and the low-priority
//! output: re-tokenised token list, raw text, source-map entries (after a JSON round trip);
//! then warnings. `cssone` does the same for one JSON-described case (replay / witnesses).
use crate::util::*;
use cssparser::{Parser, ParserInput, Token};
use glass_easel_stylesheet_compiler::{StyleSheetOptions, StyleSheetTransformer};

// ------------------------------------------------------------------------------------------
// S-expression helpers

pub fn q(s: &str) -> String {
    let mut o = String::with_capacity(s.len() + 2);
    o.push('"');
    for c in s.chars() {
        let i = c as u32;
        if c == '"' {
            o.push_str("\\\"");
        } else if c == '\\' {
            o.push_str("\\\\");
        } else if (32..127).contains(&i) {
            o.push(c);
        } else {
            o.push_str(&format!("\\u{{{:x}}}", i));
        }
    }
    o.push('"');
    o
}

fn opt_q(s: &Option<String>) -> String {
    match s {
        None => "_".to_string(),
        Some(x) => q(x),
    }
}

// ------------------------------------------------------------------------------------------
// options

#[derive(Clone, Debug)]
pub struct Opts {
    pub class_prefix: Option<String>,
    pub class_prefix_sign: Option<String>,
    pub rpx_ratio: f32,
    pub import_sign: Option<String>,
    pub convert_host: bool,
    pub host_is: Option<String>,
}

impl Opts {
    pub fn default() -> Self {
        Opts { class_prefix: None, class_prefix_sign: None, rpx_ratio: 750., import_sign: None, convert_host: false, host_is: None }
    }
    pub fn to_real(&self) -> StyleSheetOptions {
        StyleSheetOptions {
            class_prefix: self.class_prefix.clone(),
            class_prefix_sign: self.class_prefix_sign.clone(),
            rpx_ratio: self.rpx_ratio,
            import_sign: self.import_sign.clone(),
            convert_host: self.convert_host,
            host_is: self.host_is.clone(),
        }
    }
    pub fn sexp(&self) -> String {
        format!(
            "(opts {} {} {} {} {} {})",
            opt_q(&self.class_prefix),
            opt_q(&self.class_prefix_sign),
            self.rpx_ratio.to_bits(),
            opt_q(&self.import_sign),
            if self.convert_host { 1 } else { 0 },
            opt_q(&self.host_is)
        )
    }
    pub fn json(&self) -> serde_json::Value {
        serde_json::json!({
            "class_prefix": self.class_prefix, "class_prefix_sign": self.class_prefix_sign,
            "rpx_ratio_bits": self.rpx_ratio.to_bits(), "rpx_ratio": self.rpx_ratio,
            "import_sign": self.import_sign,
            "convert_host": self.convert_host, "host_is": self.host_is,
        })
    }
    pub fn from_json(v: &serde_json::Value) -> Self {
        let s = |k: &str| v.get(k).and_then(|x| x.as_str()).map(|x| x.to_string());
        let ratio = if let Some(b) = v.get("rpx_ratio_bits").and_then(|x| x.as_u64()) {
            f32::from_bits(b as u32)
        } else {
            v.get("rpx_ratio").and_then(|x| x.as_f64()).unwrap_or(750.) as f32
        };
        Opts {
            class_prefix: s("class_prefix"),
            class_prefix_sign: s("class_prefix_sign"),
            rpx_ratio: ratio,
            import_sign: s("import_sign"),
            convert_host: v.get("convert_host").and_then(|x| x.as_bool()).unwrap_or(false),
            host_is: s("host_is"),
        }
    }
}

// ------------------------------------------------------------------------------------------
// token tree dump (input side)

fn pos(p: &Parser) -> (u32, u32) {
    let l = p.current_source_location();
    (l.line, l.column - 1)
}

fn int_s(i: &Option<i32>) -> String {
    match i {
        None => "_".into(),
        Some(x) => x.to_string(),
    }
}

pub struct TreeStats {
    pub kinds: std::collections::BTreeMap<&'static str, u64>,
    pub max_depth: usize,
    pub n_tokens: usize,
}

fn kind_name(t: &Token) -> &'static str {
    match t {
        Token::Ident(_) => "ident",
        Token::AtKeyword(_) => "at-keyword",
        Token::Hash(_) => "hash",
        Token::IDHash(_) => "id-hash",
        Token::QuotedString(_) => "string",
        Token::UnquotedUrl(_) => "url",
        Token::Delim(_) => "delim",
        Token::Number { .. } => "number",
        Token::Percentage { .. } => "percentage",
        Token::Dimension { .. } => "dimension",
        Token::WhiteSpace(_) => "whitespace",
        Token::Comment(_) => "comment",
        Token::Colon => "colon",
        Token::Semicolon => "semicolon",
        Token::Comma => "comma",
        Token::IncludeMatch => "include-match",
        Token::DashMatch => "dash-match",
        Token::PrefixMatch => "prefix-match",
        Token::SuffixMatch => "suffix-match",
        Token::SubstringMatch => "substring-match",
        Token::CDO => "cdo",
        Token::CDC => "cdc",
        Token::Function(_) => "function",
        Token::ParenthesisBlock => "paren-block",
        Token::SquareBracketBlock => "square-block",
        Token::CurlyBracketBlock => "curly-block",
        Token::BadUrl(_) => "bad-url",
        Token::BadString(_) => "bad-string",
        Token::CloseParenthesis => "close-paren",
        Token::CloseSquareBracket => "close-square",
        Token::CloseCurlyBracket => "close-curly",
    }
}

/// nodes of one nesting level, appended to `o`; returns nothing. Position of every node is the
/// tokenizer location before the token (line, utf16 column, both 0-based).
fn dump_level(p: &mut Parser, o: &mut String, depth: usize, st: &mut TreeStats) {
    if depth > st.max_depth {
        st.max_depth = depth;
    }
    loop {
        let (l, c) = pos(p);
        let tok = match p.next_including_whitespace_and_comments() {
            Ok(t) => t.clone(),
            Err(_) => break,
        };
        st.n_tokens += 1;
        *st.kinds.entry(kind_name(&tok)).or_insert(0) += 1;
        o.push(' ');
        match &tok {
            Token::Ident(s) => o.push_str(&format!("(i {} {} {})", l, c, q(s))),
            Token::AtKeyword(s) => o.push_str(&format!("(at {} {} {})", l, c, q(s))),
            Token::Hash(s) => o.push_str(&format!("(h {} {} {})", l, c, q(s))),
            Token::IDHash(s) => o.push_str(&format!("(idh {} {} {})", l, c, q(s))),
            Token::QuotedString(s) => o.push_str(&format!("(s {} {} {})", l, c, q(s))),
            Token::UnquotedUrl(s) => o.push_str(&format!("(u {} {} {})", l, c, q(s))),
            Token::Delim(ch) => o.push_str(&format!("(d {} {} {})", l, c, *ch as u32)),
            Token::Number { has_sign, value, int_value } => o.push_str(&format!(
                "(n {} {} {} {} {})", l, c, *has_sign as u8, int_s(int_value), value.to_bits())),
            Token::Percentage { has_sign, unit_value, int_value } => o.push_str(&format!(
                "(pc {} {} {} {} {})", l, c, *has_sign as u8, int_s(int_value), unit_value.to_bits())),
            Token::Dimension { has_sign, value, int_value, unit } => o.push_str(&format!(
                "(dim {} {} {} {} {} {})", l, c, *has_sign as u8, int_s(int_value), value.to_bits(), q(unit))),
            Token::WhiteSpace(s) => o.push_str(&format!("(w {} {} {})", l, c, q(s))),
            Token::Comment(s) => o.push_str(&format!("(c {} {} {})", l, c, q(s))),
            Token::Colon => o.push_str(&format!("(col {} {})", l, c)),
            Token::Semicolon => o.push_str(&format!("(semi {} {})", l, c)),
            Token::Comma => o.push_str(&format!("(com {} {})", l, c)),
            Token::IncludeMatch => o.push_str(&format!("(inc {} {})", l, c)),
            Token::DashMatch => o.push_str(&format!("(dash {} {})", l, c)),
            Token::PrefixMatch => o.push_str(&format!("(pre {} {})", l, c)),
            Token::SuffixMatch => o.push_str(&format!("(suf {} {})", l, c)),
            Token::SubstringMatch => o.push_str(&format!("(sub {} {})", l, c)),
            Token::CDO => o.push_str(&format!("(cdo {} {})", l, c)),
            Token::CDC => o.push_str(&format!("(cdc {} {})", l, c)),
            Token::BadUrl(s) => o.push_str(&format!("(bu {} {} {})", l, c, q(s))),
            Token::BadString(s) => o.push_str(&format!("(bs {} {} {})", l, c, q(s))),
            Token::CloseParenthesis => o.push_str(&format!("(cp {} {})", l, c)),
            Token::CloseSquareBracket => o.push_str(&format!("(cs {} {})", l, c)),
            Token::CloseCurlyBracket => o.push_str(&format!("(cc {} {})", l, c)),
            Token::Function(_) | Token::ParenthesisBlock | Token::SquareBracketBlock | Token::CurlyBracketBlock => {
                let head = match &tok {
                    Token::Function(s) => format!("(F {} {} {}", l, c, q(s)),
                    Token::ParenthesisBlock => format!("(P {} {}", l, c),
                    Token::SquareBracketBlock => format!("(S {} {}", l, c),
                    _ => format!("(C {} {}", l, c),
                };
                let mut body = String::new();
                let mut endp = (0, 0);
                let _ = p.parse_nested_block::<_, (), ()>(|n| {
                    dump_level(n, &mut body, depth + 1, st);
                    endp = pos(n);
                    Ok(())
                });
                o.push_str(&head);
                o.push_str(&format!(" {} {}", endp.0, endp.1));
                o.push_str(&body);
                o.push(')');
            }
        }
    }
}

pub fn dump_tree(css: &str) -> (String, TreeStats) {
    let mut st = TreeStats { kinds: Default::default(), max_depth: 0, n_tokens: 0 };
    let mut pi = ParserInput::new(css);
    let mut p = Parser::new(&mut pi);
    let mut body = String::new();
    dump_level(&mut p, &mut body, 0, &mut st);
    let (l, c) = pos(&p);
    (format!("(tree {} {}{})", l, c, body), st)
}

// ------------------------------------------------------------------------------------------
// output side: re-tokenise the implementation's text into a flat canonical token list

/// the numeric part of a number/percentage/dimension slice: [+-]?\d*(\.\d+)?([eE][+-]?\d+)?
fn numeric_prefix(s: &str) -> &str {
    let b = s.as_bytes();
    let mut i = 0;
    if i < b.len() && (b[i] == b'+' || b[i] == b'-') {
        i += 1;
    }
    while i < b.len() && b[i].is_ascii_digit() {
        i += 1;
    }
    if i + 1 < b.len() && b[i] == b'.' && b[i + 1].is_ascii_digit() {
        i += 1;
        while i < b.len() && b[i].is_ascii_digit() {
            i += 1;
        }
    }
    if i < b.len() && (b[i] == b'e' || b[i] == b'E') {
        let mut j = i + 1;
        if j < b.len() && (b[j] == b'+' || b[j] == b'-') {
            j += 1;
        }
        if j < b.len() && b[j].is_ascii_digit() {
            while j < b.len() && b[j].is_ascii_digit() {
                j += 1;
            }
            i = j;
        }
    }
    &s[..i]
}

fn retok_level(p: &mut Parser, o: &mut Vec<String>, cols: &mut Vec<(u32, u32)>) {
    loop {
        let start = p.position();
        let (l, c) = pos(p);
        let tok = match p.next_including_whitespace_and_comments() {
            Ok(t) => t.clone(),
            Err(_) => break,
        };
        let slice = p.slice_from(start).to_string();
        cols.push((l, c));
        match &tok {
            Token::Ident(s) => o.push(format!("(i {})", q(s))),
            Token::AtKeyword(s) => o.push(format!("(at {})", q(s))),
            Token::Hash(s) => o.push(format!("(h {})", q(s))),
            Token::IDHash(s) => o.push(format!("(idh {})", q(s))),
            Token::QuotedString(s) => o.push(format!("(s {})", q(s))),
            Token::UnquotedUrl(s) => o.push(format!("(u {})", q(s))),
            Token::Delim(ch) => o.push(format!("(d {})", *ch as u32)),
            Token::Number { .. } => o.push(format!("(n {})", q(numeric_prefix(&slice)))),
            Token::Percentage { .. } => o.push(format!("(pc {})", q(numeric_prefix(&slice)))),
            Token::Dimension { unit, .. } => o.push(format!("(dim {} {})", q(numeric_prefix(&slice)), q(unit))),
            Token::WhiteSpace(_) => o.push("w".to_string()),
            Token::Comment(s) => o.push(format!("(c {})", q(s))),
            Token::Colon => o.push("col".into()),
            Token::Semicolon => o.push("semi".into()),
            Token::Comma => o.push("com".into()),
            Token::IncludeMatch => o.push("inc".into()),
            Token::DashMatch => o.push("dash".into()),
            Token::PrefixMatch => o.push("pre".into()),
            Token::SuffixMatch => o.push("suf".into()),
            Token::SubstringMatch => o.push("sub".into()),
            Token::CDO => o.push("cdo".into()),
            Token::CDC => o.push("cdc".into()),
            Token::BadUrl(s) => o.push(format!("(bu {})", q(s))),
            Token::BadString(s) => o.push(format!("(bs {})", q(s))),
            Token::CloseParenthesis => o.push("cp".into()),
            Token::CloseSquareBracket => o.push("cs".into()),
            Token::CloseCurlyBracket => o.push("cc".into()),
            Token::Function(_) | Token::ParenthesisBlock | Token::SquareBracketBlock | Token::CurlyBracketBlock => {
                let (open, close) = match &tok {
                    Token::Function(s) => (format!("(F {})", q(s)), "cp"),
                    Token::ParenthesisBlock => ("P".to_string(), "cp"),
                    Token::SquareBracketBlock => ("S".to_string(), "cs"),
                    _ => ("C".to_string(), "cc"),
                };
                o.push(open);
                let mut closed = false;
                let mut endp = (0, 0);
                let _ = p.parse_nested_block::<_, (), ()>(|n| {
                    retok_level(n, o, cols);
                    endp = pos(n);
                    // the block is closed iff the nested parser stopped before a closing byte
                    closed = !n.slice_from(n.position()).is_empty() || false;
                    Ok(())
                });
                // after parse_nested_block the outer parser is past the closing bracket (if any):
                // closed iff the location advanced beyond the end of the body
                let after = pos(p);
                if after != endp {
                    cols.push(endp);
                    o.push(close.to_string());
                } else {
                    let _ = closed;
                }
            }
        }
    }
}

/// (token list, (line, utf16 col) of every token incl. closing brackets)
pub fn retokenise(text: &str) -> (Vec<String>, Vec<(u32, u32)>) {
    let mut pi = ParserInput::new(text);
    let mut p = Parser::new(&mut pi);
    let mut o = vec![];
    let mut cols = vec![];
    retok_level(&mut p, &mut o, &mut cols);
    (o, cols)
}

// ------------------------------------------------------------------------------------------
// running the implementation

pub struct ImplOut {
    pub text: [String; 2],
    pub toks: [Vec<String>; 2],
    pub tok_cols: [Vec<(u32, u32)>; 2],
    /// (dst_line, dst_col, src_line, src_col, name)
    pub map: [Vec<(u32, u32, u32, u32, Option<String>)>; 2],
    pub map_ok: [bool; 2],
    pub warnings: Vec<(u32, u32, u32, u32, u32)>,
}

pub fn run_impl(css: &str, opts: &Opts) -> Result<ImplOut, String> {
    let css2 = css.to_string();
    let o2 = opts.clone();
    catch(move || {
        let t = StyleSheetTransformer::from_css("src.wxss", &css2, o2.to_real());
        let warnings: Vec<_> = t
            .warnings()
            .map(|w| {
                (w.code(), w.location.start.line, w.location.start.utf16_col, w.location.end.line, w.location.end.utf16_col)
            })
            .collect();
        let (n, l) = t.output_and_low_priority_output();
        let mut text = [String::new(), String::new()];
        n.write_str(&mut text[0]).unwrap();
        l.write_str(&mut text[1]).unwrap();
        let mut map = [vec![], vec![]];
        let mut map_ok = [true, true];
        for (i, out) in [n, l].into_iter().enumerate() {
            let mut buf = Vec::new();
            out.write_source_map(&mut buf).unwrap();
            match sourcemap::SourceMap::from_slice(&buf) {
                Ok(sm) => {
                    for tk in sm.tokens() {
                        map[i].push((
                            tk.get_dst_line(), tk.get_dst_col(), tk.get_src_line(), tk.get_src_col(),
                            tk.get_name().map(|x| x.to_string()),
                        ));
                    }
                    // the map must carry the source text it was built from
                    if sm.get_source(0) != Some("src.wxss") || sm.get_source_contents(0) != Some(css2.as_str()) {
                        map_ok[i] = false;
                    }
                }
                Err(_) => map_ok[i] = false,
            }
        }
        let (t0, c0) = retokenise(&text[0]);
        let (t1, c1) = retokenise(&text[1]);
        ImplOut { text, toks: [t0, t1], tok_cols: [c0, c1], map, map_ok, warnings }
    })
}

fn map_s(m: &[(u32, u32, u32, u32, Option<String>)], ok: bool) -> String {
    let mut s = String::from("(");
    if !ok {
        s.push_str("BROKEN ");
    }
    for (i, e) in m.iter().enumerate() {
        if i > 0 {
            s.push(' ');
        }
        match &e.4 {
            None => s.push_str(&format!("({} {} {} {})", e.0, e.1, e.2, e.3)),
            Some(n) => s.push_str(&format!("({} {} {} {} {})", e.0, e.1, e.2, e.3, q(n))),
        }
    }
    s.push(')');
    s
}

fn cols_s(c: &[(u32, u32)]) -> String {
    let v: Vec<String> = c.iter().map(|(l, c)| format!("{}:{}", l, c)).collect();
    v.join(" ")
}

/// implementation sections: Ntoks Ntext Nmap Ltoks Ltext Lmap warnings Ncols Lcols
pub fn impl_sections(r: &Result<ImplOut, String>) -> String {
    match r {
        Err(e) => format!("PANIC {}", q(e)),
        Ok(o) => {
            let w: Vec<String> =
                o.warnings.iter().map(|w| format!("({} {} {} {} {})", w.0, w.1, w.2, w.3, w.4)).collect();
            format!(
                "({})\t{}\t{}\t({})\t{}\t{}\t({})\t{}\t{}",
                o.toks[0].join(" "), q(&o.text[0]), map_s(&o.map[0], o.map_ok[0]),
                o.toks[1].join(" "), q(&o.text[1]), map_s(&o.map[1], o.map_ok[1]),
                w.join(" "), cols_s(&o.tok_cols[0]), cols_s(&o.tok_cols[1]),
            )
        }
    }
}

pub fn emit_case(out: &mut Out, css: &str, opts: &Opts) -> TreeStats {
    let (tree, st) = dump_tree(css);
    let r = run_impl(css, opts);
    out.case(&["css", &opts.sexp(), &tree, &q(css)], &impl_sections(&r));
    st
}

/// `cssone` : JSON lines on stdin, each {"css": "...", "opts": {...}}
pub fn run_one(out: &mut Out) {
    use std::io::BufRead;
    let stdin = std::io::stdin();
    for line in stdin.lock().lines() {
        let line = line.unwrap();
        if line.trim().is_empty() {
            continue;
        }
        let v: serde_json::Value = serde_json::from_str(&line).expect("json");
        let css = v.get("css").and_then(|x| x.as_str()).unwrap_or("").to_string();
        let opts = Opts::from_json(v.get("opts").unwrap_or(&serde_json::Value::Null));
        emit_case(out, &css, &opts);
    }
}

pub fn run(_tier: &str, _seed: u64, _out: &mut Out) {}
