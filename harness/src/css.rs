//! C08/C09/C10/C17/C18/C19: stylesheet compiler.
//!
//! For every case the harness prints one line
//!   css <TAB> <opts sexp> <TAB> <token tree sexp> <TAB> => <TAB> <impl sections>
//! where the token tree is obtained from the same cssparser the implementation links, and
//! the implementation sections (TAB separated) are, for the normal and the low-priority
//! output: re-tokenised token list, raw text, source-map entries (after a JSON round trip);
//! then warnings. `cssone` does the same for one JSON-described case (replay / witnesses).
use crate::util::*;
use cssparser::{Parser, ParserInput, Token};
use glass_easel_stylesheet_compiler::{StyleSheetOptions, StyleSheetTransformer};

// ------------------------------------------------------------------------------------------
// S-expression helpers

pub fn q(s: &str) -> String {
    let mut o = String::with_capacity(s.len() + 2);
    o.push('"');
    for c in s.chars() {
        let i = c as u32;
        if c == '"' {
            o.push_str("\\\"");
        } else if c == '\\' {
            o.push_str("\\\\");
        } else if (32..127).contains(&i) {
            o.push(c);
        } else {
            o.push_str(&format!("\\u{{{:x}}}", i));
        }
    }
    o.push('"');
    o
}

fn opt_q(s: &Option<String>) -> String {
    match s {
        None => "_".to_string(),
        Some(x) => q(x),
    }
}

// ------------------------------------------------------------------------------------------
// options

#[derive(Clone, Debug)]
pub struct Opts {
    pub class_prefix: Option<String>,
    pub class_prefix_sign: Option<String>,
    pub rpx_ratio: f32,
    pub import_sign: Option<String>,
    pub convert_host: bool,
    pub host_is: Option<String>,
}

impl Opts {
    pub fn default() -> Self {
        Opts { class_prefix: None, class_prefix_sign: None, rpx_ratio: 750., import_sign: None, convert_host: false, host_is: None }
    }
    pub fn to_real(&self) -> StyleSheetOptions {
        StyleSheetOptions {
            class_prefix: self.class_prefix.clone(),
            class_prefix_sign: self.class_prefix_sign.clone(),
            rpx_ratio: self.rpx_ratio,
            import_sign: self.import_sign.clone(),
            convert_host: self.convert_host,
            host_is: self.host_is.clone(),
        }
    }
    pub fn sexp(&self) -> String {
        format!(
            "(opts {} {} {} {} {} {})",
            opt_q(&self.class_prefix),
            opt_q(&self.class_prefix_sign),
            self.rpx_ratio.to_bits(),
            opt_q(&self.import_sign),
            if self.convert_host { 1 } else { 0 },
            opt_q(&self.host_is)
        )
    }
    pub fn json(&self) -> serde_json::Value {
        serde_json::json!({
            "class_prefix": self.class_prefix, "class_prefix_sign": self.class_prefix_sign,
            "rpx_ratio_bits": self.rpx_ratio.to_bits(), "rpx_ratio": self.rpx_ratio,
            "import_sign": self.import_sign,
            "convert_host": self.convert_host, "host_is": self.host_is,
        })
    }
    pub fn from_json(v: &serde_json::Value) -> Self {
        let s = |k: &str| v.get(k).and_then(|x| x.as_str()).map(|x| x.to_string());
        let ratio = if let Some(b) = v.get("rpx_ratio_bits").and_then(|x| x.as_u64()) {
            f32::from_bits(b as u32)
        } else {
            v.get("rpx_ratio").and_then(|x| x.as_f64()).unwrap_or(750.) as f32
        };
        Opts {
            class_prefix: s("class_prefix"),
            class_prefix_sign: s("class_prefix_sign"),
            rpx_ratio: ratio,
            import_sign: s("import_sign"),
            convert_host: v.get("convert_host").and_then(|x| x.as_bool()).unwrap_or(false),
            host_is: s("host_is"),
        }
    }
}

// ------------------------------------------------------------------------------------------
// token tree dump (input side)

fn pos(p: &Parser) -> (u32, u32) {
    let l = p.current_source_location();
    (l.line, l.column - 1)
}

fn int_s(i: &Option<i32>) -> String {
    match i {
        None => "_".into(),
        Some(x) => x.to_string(),
    }
}

pub struct TreeStats {
    pub kinds: std::collections::BTreeMap<&'static str, u64>,
    pub max_depth: usize,
    pub n_tokens: usize,
}

fn kind_name(t: &Token) -> &'static str {
    match t {
        Token::Ident(_) => "ident",
        Token::AtKeyword(_) => "at-keyword",
        Token::Hash(_) => "hash",
        Token::IDHash(_) => "id-hash",
        Token::QuotedString(_) => "string",
        Token::UnquotedUrl(_) => "url",
        Token::Delim(_) => "delim",
        Token::Number { .. } => "number",
        Token::Percentage { .. } => "percentage",
        Token::Dimension { .. } => "dimension",
        Token::WhiteSpace(_) => "whitespace",
        Token::Comment(_) => "comment",
        Token::Colon => "colon",
        Token::Semicolon => "semicolon",
        Token::Comma => "comma",
        Token::IncludeMatch => "include-match",
        Token::DashMatch => "dash-match",
        Token::PrefixMatch => "prefix-match",
        Token::SuffixMatch => "suffix-match",
        Token::SubstringMatch => "substring-match",
        Token::CDO => "cdo",
        Token::CDC => "cdc",
        Token::Function(_) => "function",
        Token::ParenthesisBlock => "paren-block",
        Token::SquareBracketBlock => "square-block",
        Token::CurlyBracketBlock => "curly-block",
        Token::BadUrl(_) => "bad-url",
        Token::BadString(_) => "bad-string",
        Token::CloseParenthesis => "close-paren",
        Token::CloseSquareBracket => "close-square",
        Token::CloseCurlyBracket => "close-curly",
    }
}

/// nodes of one nesting level, appended to `o`; returns nothing. Position of every node is the
/// tokenizer location before the token (line, utf16 column, both 0-based).
fn dump_level(p: &mut Parser, o: &mut String, depth: usize, st: &mut TreeStats) {
    if depth > st.max_depth {
        st.max_depth = depth;
    }
    loop {
        let (l, c) = pos(p);
        let start = p.position();
        let tok = match p.next_including_whitespace_and_comments() {
            Ok(t) => t.clone(),
            Err(_) => break,
        };
        let src = q(numeric_prefix(p.slice_from(start)));
        st.n_tokens += 1;
        *st.kinds.entry(kind_name(&tok)).or_insert(0) += 1;
        o.push(' ');
        match &tok {
            Token::Ident(s) => o.push_str(&format!("(i {} {} {})", l, c, q(s))),
            Token::AtKeyword(s) => o.push_str(&format!("(at {} {} {})", l, c, q(s))),
            Token::Hash(s) => o.push_str(&format!("(h {} {} {})", l, c, q(s))),
            Token::IDHash(s) => o.push_str(&format!("(idh {} {} {})", l, c, q(s))),
            Token::QuotedString(s) => o.push_str(&format!("(s {} {} {})", l, c, q(s))),
            Token::UnquotedUrl(s) => o.push_str(&format!("(u {} {} {})", l, c, q(s))),
            Token::Delim(ch) => o.push_str(&format!("(d {} {} {})", l, c, *ch as u32)),
            Token::Number { has_sign, value, int_value } => o.push_str(&format!(
                "(n {} {} {} {} {} {})", l, c, *has_sign as u8, int_s(int_value), value.to_bits(), src)),
            Token::Percentage { has_sign, unit_value, int_value } => o.push_str(&format!(
                "(pc {} {} {} {} {} {})", l, c, *has_sign as u8, int_s(int_value), unit_value.to_bits(), src)),
            Token::Dimension { has_sign, value, int_value, unit } => o.push_str(&format!(
                "(dim {} {} {} {} {} {} {})", l, c, *has_sign as u8, int_s(int_value), value.to_bits(), src, q(unit))),
            Token::WhiteSpace(s) => o.push_str(&format!("(w {} {} {})", l, c, q(s))),
            Token::Comment(s) => o.push_str(&format!("(c {} {} {})", l, c, q(s))),
            Token::Colon => o.push_str(&format!("(col {} {})", l, c)),
            Token::Semicolon => o.push_str(&format!("(semi {} {})", l, c)),
            Token::Comma => o.push_str(&format!("(com {} {})", l, c)),
            Token::IncludeMatch => o.push_str(&format!("(inc {} {})", l, c)),
            Token::DashMatch => o.push_str(&format!("(dash {} {})", l, c)),
            Token::PrefixMatch => o.push_str(&format!("(pre {} {})", l, c)),
            Token::SuffixMatch => o.push_str(&format!("(suf {} {})", l, c)),
            Token::SubstringMatch => o.push_str(&format!("(sub {} {})", l, c)),
            Token::CDO => o.push_str(&format!("(cdo {} {})", l, c)),
            Token::CDC => o.push_str(&format!("(cdc {} {})", l, c)),
            Token::BadUrl(s) => o.push_str(&format!("(bu {} {} {})", l, c, q(s))),
            Token::BadString(s) => o.push_str(&format!("(bs {} {} {})", l, c, q(s))),
            Token::CloseParenthesis => o.push_str(&format!("(cp {} {})", l, c)),
            Token::CloseSquareBracket => o.push_str(&format!("(cs {} {})", l, c)),
            Token::CloseCurlyBracket => o.push_str(&format!("(cc {} {})", l, c)),
            Token::Function(_) | Token::ParenthesisBlock | Token::SquareBracketBlock | Token::CurlyBracketBlock => {
                let head = match &tok {
                    Token::Function(s) => format!("(F {} {} {}", l, c, q(s)),
                    Token::ParenthesisBlock => format!("(P {} {}", l, c),
                    Token::SquareBracketBlock => format!("(S {} {}", l, c),
                    _ => format!("(C {} {}", l, c),
                };
                let mut body = String::new();
                let mut endp = (0, 0);
                let _ = p.parse_nested_block::<_, (), ()>(|n| {
                    dump_level(n, &mut body, depth + 1, st);
                    endp = pos(n);
                    Ok(())
                });
                // closed iff the outer parser moved past a closing bracket after the body
                let closed = pos(p) != endp;
                o.push_str(&head);
                o.push_str(&format!(" {} {} {}", endp.0, endp.1, closed as u8));
                o.push_str(&body);
                o.push(')');
            }
        }
    }
}

pub fn dump_tree(css: &str) -> (String, TreeStats) {
    let mut st = TreeStats { kinds: Default::default(), max_depth: 0, n_tokens: 0 };
    let mut pi = ParserInput::new(css);
    let mut p = Parser::new(&mut pi);
    let mut body = String::new();
    dump_level(&mut p, &mut body, 0, &mut st);
    let (l, c) = pos(&p);
    (format!("(tree {} {}{})", l, c, body), st)
}

// ------------------------------------------------------------------------------------------
// output side: re-tokenise the implementation's text into a flat canonical token list

/// the numeric part of a number/percentage/dimension slice: [+-]?\d*(\.\d+)?([eE][+-]?\d+)?
fn numeric_prefix(s: &str) -> &str {
    let b = s.as_bytes();
    let mut i = 0;
    if i < b.len() && (b[i] == b'+' || b[i] == b'-') {
        i += 1;
    }
    while i < b.len() && b[i].is_ascii_digit() {
        i += 1;
    }
    if i + 1 < b.len() && b[i] == b'.' && b[i + 1].is_ascii_digit() {
        i += 1;
        while i < b.len() && b[i].is_ascii_digit() {
            i += 1;
        }
    }
    if i < b.len() && (b[i] == b'e' || b[i] == b'E') {
        let mut j = i + 1;
        if j < b.len() && (b[j] == b'+' || b[j] == b'-') {
            j += 1;
        }
        if j < b.len() && b[j].is_ascii_digit() {
            while j < b.len() && b[j].is_ascii_digit() {
                j += 1;
            }
            i = j;
        }
    }
    &s[..i]
}

fn canon(tok: &Token, slice: &str) -> String {
    match tok {
        Token::Ident(s) => format!("(i {})", q(s)),
        Token::AtKeyword(s) => format!("(at {})", q(s)),
        Token::Hash(s) => format!("(h {})", q(s)),
        Token::IDHash(s) => format!("(idh {})", q(s)),
        Token::QuotedString(s) => format!("(s {})", q(s)),
        Token::UnquotedUrl(s) => format!("(u {})", q(s)),
        Token::Delim(ch) => format!("(d {})", *ch as u32),
        Token::Number { .. } => format!("(n {})", q(numeric_prefix(slice))),
        Token::Percentage { .. } => format!("(pc {})", q(numeric_prefix(slice))),
        Token::Dimension { unit, .. } => format!("(dim {} {})", q(numeric_prefix(slice)), q(unit)),
        Token::WhiteSpace(_) => "w".to_string(),
        Token::Comment(s) => format!("(c {})", q(s)),
        Token::Colon => "col".into(),
        Token::Semicolon => "semi".into(),
        Token::Comma => "com".into(),
        Token::IncludeMatch => "inc".into(),
        Token::DashMatch => "dash".into(),
        Token::PrefixMatch => "pre".into(),
        Token::SuffixMatch => "suf".into(),
        Token::SubstringMatch => "sub".into(),
        Token::CDO => "cdo".into(),
        Token::CDC => "cdc".into(),
        Token::BadUrl(s) => format!("(bu {})", q(s)),
        Token::BadString(s) => format!("(bs {})", q(s)),
        Token::CloseParenthesis => "cp".into(),
        Token::CloseSquareBracket => "cs".into(),
        Token::CloseCurlyBracket => "cc".into(),
        Token::Function(s) => format!("(F {})", q(s)),
        Token::ParenthesisBlock => "P".into(),
        Token::SquareBracketBlock => "S".into(),
        Token::CurlyBracketBlock => "C".into(),
    }
}

/// byte offset of (line, utf16 column) using cssparser's notion of a line break
fn offset_of(text: &str, line: u32, col: u32) -> Option<usize> {
    let b = text.as_bytes();
    let mut l = 0u32;
    let mut i = 0usize;
    while l < line {
        if i >= b.len() {
            return None;
        }
        match b[i] {
            b'\n' | 0x0c => {
                l += 1;
                i += 1;
            }
            b'\r' => {
                l += 1;
                i += 1;
                if i < b.len() && b[i] == b'\n' {
                    i += 1;
                }
            }
            _ => i += 1,
        }
    }
    let mut c = 0u32;
    for ch in text[i..].chars() {
        if c >= col {
            break;
        }
        c += ch.len_utf16() as u32;
        i += ch.len_utf8();
    }
    if c == col { Some(i) } else { None }
}

/// first token of `text` at (line, col): (canonical form, its to_css_string)
fn token_at(text: &str, line: u32, col: u32) -> Option<(String, String)> {
    use cssparser::ToCss;
    let off = offset_of(text, line, col)?;
    let rest = &text[off..];
    let mut pi = ParserInput::new(rest);
    let mut p = Parser::new(&mut pi);
    let start = p.position();
    let tok = p.next_including_whitespace_and_comments().ok()?.clone();
    let slice = p.slice_from(start).to_string();
    Some((canon(&tok, &slice), tok.to_css_string()))
}

fn retok_level(p: &mut Parser, o: &mut Vec<String>, cols: &mut Vec<(u32, u32)>) {
    loop {
        let start = p.position();
        let (l, c) = pos(p);
        let tok = match p.next_including_whitespace_and_comments() {
            Ok(t) => t.clone(),
            Err(_) => break,
        };
        let slice = p.slice_from(start).to_string();
        cols.push((l, c));
        match &tok {
            Token::Ident(s) => o.push(format!("(i {})", q(s))),
            Token::AtKeyword(s) => o.push(format!("(at {})", q(s))),
            Token::Hash(s) => o.push(format!("(h {})", q(s))),
            Token::IDHash(s) => o.push(format!("(idh {})", q(s))),
            Token::QuotedString(s) => o.push(format!("(s {})", q(s))),
            Token::UnquotedUrl(s) => o.push(format!("(u {})", q(s))),
            Token::Delim(ch) => o.push(format!("(d {})", *ch as u32)),
            Token::Number { .. } => o.push(format!("(n {})", q(numeric_prefix(&slice)))),
            Token::Percentage { .. } => o.push(format!("(pc {})", q(numeric_prefix(&slice)))),
            Token::Dimension { unit, .. } => o.push(format!("(dim {} {})", q(numeric_prefix(&slice)), q(unit))),
            Token::WhiteSpace(_) => o.push("w".to_string()),
            Token::Comment(s) => o.push(format!("(c {})", q(s))),
            Token::Colon => o.push("col".into()),
            Token::Semicolon => o.push("semi".into()),
            Token::Comma => o.push("com".into()),
            Token::IncludeMatch => o.push("inc".into()),
            Token::DashMatch => o.push("dash".into()),
            Token::PrefixMatch => o.push("pre".into()),
            Token::SuffixMatch => o.push("suf".into()),
            Token::SubstringMatch => o.push("sub".into()),
            Token::CDO => o.push("cdo".into()),
            Token::CDC => o.push("cdc".into()),
            Token::BadUrl(s) => o.push(format!("(bu {})", q(s))),
            Token::BadString(s) => o.push(format!("(bs {})", q(s))),
            Token::CloseParenthesis => o.push("cp".into()),
            Token::CloseSquareBracket => o.push("cs".into()),
            Token::CloseCurlyBracket => o.push("cc".into()),
            Token::Function(_) | Token::ParenthesisBlock | Token::SquareBracketBlock | Token::CurlyBracketBlock => {
                let (open, close) = match &tok {
                    Token::Function(s) => (format!("(F {})", q(s)), "cp"),
                    Token::ParenthesisBlock => ("P".to_string(), "cp"),
                    Token::SquareBracketBlock => ("S".to_string(), "cs"),
                    _ => ("C".to_string(), "cc"),
                };
                o.push(open);
                let mut closed = false;
                let mut endp = (0, 0);
                let _ = p.parse_nested_block::<_, (), ()>(|n| {
                    retok_level(n, o, cols);
                    endp = pos(n);
                    // the block is closed iff the nested parser stopped before a closing byte
                    closed = !n.slice_from(n.position()).is_empty() || false;
                    Ok(())
                });
                // after parse_nested_block the outer parser is past the closing bracket (if any):
                // closed iff the location advanced beyond the end of the body
                let after = pos(p);
                if after != endp {
                    cols.push(endp);
                    o.push(close.to_string());
                } else {
                    let _ = closed;
                }
            }
        }
    }
}

/// (token list, (line, utf16 col) of every token incl. closing brackets)
pub fn retokenise(text: &str) -> (Vec<String>, Vec<(u32, u32)>) {
    let mut pi = ParserInput::new(text);
    let mut p = Parser::new(&mut pi);
    let mut o = vec![];
    let mut cols = vec![];
    retok_level(&mut p, &mut o, &mut cols);
    (o, cols)
}

// ------------------------------------------------------------------------------------------
// running the implementation

pub struct ImplOut {
    pub text: [String; 2],
    pub toks: [Vec<String>; 2],
    pub tok_cols: [Vec<(u32, u32)>; 2],
    /// (dst_line, dst_col, src_line, src_col, name)
    pub map: [Vec<(u32, u32, u32, u32, Option<String>)>; 2],
    pub map_ok: [bool; 2],
    /// per map entry: (source token, its canonical css text, output token) at the recorded positions
    pub map_toks: [Vec<String>; 2],
    pub warnings: Vec<(u32, u32, u32, u32, u32)>,
}

pub fn run_impl(css: &str, opts: &Opts) -> Result<ImplOut, String> {
    let css2 = css.to_string();
    let o2 = opts.clone();
    catch(move || {
        let t = StyleSheetTransformer::from_css("src.wxss", &css2, o2.to_real());
        let warnings: Vec<_> = t
            .warnings()
            .map(|w| {
                (w.code(), w.location.start.line, w.location.start.utf16_col, w.location.end.line, w.location.end.utf16_col)
            })
            .collect();
        let (n, l) = t.output_and_low_priority_output();
        let mut text = [String::new(), String::new()];
        n.write_str(&mut text[0]).unwrap();
        l.write_str(&mut text[1]).unwrap();
        let mut map = [vec![], vec![]];
        let mut map_ok = [true, true];
        let mut map_toks = [vec![], vec![]];
        for (i, out) in [n, l].into_iter().enumerate() {
            let mut buf = Vec::new();
            out.write_source_map(&mut buf).unwrap();
            match sourcemap::SourceMap::from_slice(&buf) {
                Ok(sm) => {
                    for tk in sm.tokens() {
                        map[i].push((
                            tk.get_dst_line(), tk.get_dst_col(), tk.get_src_line(), tk.get_src_col(),
                            tk.get_name().map(|x| x.to_string()),
                        ));
                        let s = token_at(&css2, tk.get_src_line(), tk.get_src_col());
                        let d = if tk.get_dst_line() == 0 { token_at(&text[i], 0, tk.get_dst_col()) } else { None };
                        map_toks[i].push(format!(
                            "{} {} {}",
                            s.as_ref().map(|x| x.0.clone()).unwrap_or("none".into()),
                            s.as_ref().map(|x| q(&x.1)).unwrap_or("none".into()),
                            d.as_ref().map(|x| x.0.clone()).unwrap_or("none".into())
                        ));
                    }
                    // the map must carry the source text it was built from
                    if sm.get_source(0) != Some("src.wxss") || sm.get_source_contents(0) != Some(css2.as_str()) {
                        map_ok[i] = false;
                    }
                }
                Err(_) => map_ok[i] = false,
            }
        }
        let (t0, c0) = retokenise(&text[0]);
        let (t1, c1) = retokenise(&text[1]);
        ImplOut { text, toks: [t0, t1], tok_cols: [c0, c1], map, map_ok, map_toks, warnings }
    })
}

fn map_s(m: &[(u32, u32, u32, u32, Option<String>)], ok: bool) -> String {
    let mut s = String::from("(");
    if !ok {
        s.push_str("BROKEN ");
    }
    for (i, e) in m.iter().enumerate() {
        if i > 0 {
            s.push(' ');
        }
        match &e.4 {
            None => s.push_str(&format!("({} {} {} {})", e.0, e.1, e.2, e.3)),
            Some(n) => s.push_str(&format!("({} {} {} {} {})", e.0, e.1, e.2, e.3, q(n))),
        }
    }
    s.push(')');
    s
}

fn cols_s(c: &[(u32, u32)]) -> String {
    let v: Vec<String> = c.iter().map(|(l, c)| format!("{}:{}", l, c)).collect();
    v.join(" ")
}

/// implementation sections: Ntoks Ntext Nmap Ltoks Ltext Lmap warnings Ncols Lcols
pub fn impl_sections(r: &Result<ImplOut, String>) -> String {
    match r {
        Err(e) => format!("PANIC {}", q(e)),
        Ok(o) => {
            let w: Vec<String> =
                o.warnings.iter().map(|w| format!("({} {} {} {} {})", w.0, w.1, w.2, w.3, w.4)).collect();
            format!(
                "({})\t{}\t{}\t({})\t{}\t{}\t({})\t{}\t{}\t({})\t({})",
                o.toks[0].join(" "), q(&o.text[0]), map_s(&o.map[0], o.map_ok[0]),
                o.toks[1].join(" "), q(&o.text[1]), map_s(&o.map[1], o.map_ok[1]),
                w.join(" "), cols_s(&o.tok_cols[0]), cols_s(&o.tok_cols[1]),
                o.map_toks[0].join(" "), o.map_toks[1].join(" "),
            )
        }
    }
}

pub fn emit_case(out: &mut Out, css: &str, opts: &Opts, cat: &str) -> TreeStats {
    let (tree, st) = dump_tree(css);
    let r = run_impl(css, opts);
    out.case(&["css", &opts.sexp(), &tree, &q(css), cat], &impl_sections(&r));
    st
}

/// `cssone` : JSON lines on stdin, each {"css": "...", "opts": {...}}
pub fn run_one(out: &mut Out) {
    use std::io::BufRead;
    let stdin = std::io::stdin();
    for line in stdin.lock().lines() {
        let line = line.unwrap();
        if line.trim().is_empty() {
            continue;
        }
        let v: serde_json::Value = serde_json::from_str(&line).expect("json");
        let css = v.get("css").and_then(|x| x.as_str()).unwrap_or("").to_string();
        let opts = Opts::from_json(v.get("opts").unwrap_or(&serde_json::Value::Null));
        emit_case(out, &css, &opts, "one");
    }
}

// ------------------------------------------------------------------------------------------
// generators: structured, mostly valid stylesheets from a CSS grammar

pub struct Gen<'a> {
    pub rng: &'a mut Rng,
    pub at_rules: std::collections::BTreeMap<String, u64>,
    pub feats: std::collections::BTreeMap<&'static str, u64>,
    /// probability (per 100) of a comment where whitespace/nothing is allowed
    pub comment_pct: u64,
    pub multiline: bool,
    pub host_pct: u64,
    pub rpx_pct: u64,
    /// clean sheets avoid the constructs of the known-finding classes (so that the rest can be
    /// checked against the specification); spicy sheets use the whole grammar
    pub clean: bool,
}

const IDENTS: &[&str] = &[
    "a", "b", "c", "foo", "bar-baz", "_x", "-y", "B", "h1", "div", "x1", "\u{e9}t\u{e9}", "\u{540d}", "\u{1f600}k",
    "a\\:b", "\\31 0", "q\\ r", "host", "calc", "rpx", "not", "e", "E",
    // names that already begin with a configured prefix and `--` (and with `--` alone, for the empty prefix)
    "p--t", "--x", "my-comp--a", "\u{524d}\u{7f00}--b", "p--p--t",
];
const PROPS: &[&str] = &[
    "color", "width", "margin", "padding", "z-index", "font", "background", "--v", "--main-color", "transform",
    "grid-area", "content", "line-height", "unicode-range", "src", "animation", "--\u{e9}",
];
const UNITS: &[&str] = &["px", "rpx", "rpx", "em", "rem", "vw", "s", "deg", "e", "E", "e-x", "RPX", "x", "fr", "\u{b5}m", "--u"];
const PSEUDO_FN: &[&str] = &["not", "is", "where", "has", "host", "slotted", "nth-child", "nth-last-child", "host-context", "matches"];
const PSEUDO: &[&str] = &["hover", "first-child", "root", "host", "before", "focus-within"];
const VAL_FN: &[&str] = &["calc", "calc", "var", "min", "max", "clamp", "rgb", "translate", "url", "f", "env", "attr", "CALC",
    "round", "hypot", "abs", "mod", "-webkit-calc", "calc-size", "atan2", "Pow"];

fn unesc(s: &str) -> String {
    // the tables above write non-ASCII as \u{..} and CSS backslashes as \\ to stay readable
    let mut o = String::new();
    let cs: Vec<char> = s.chars().collect();
    let mut i = 0;
    while i < cs.len() {
        if cs[i] == '\\' && i + 1 < cs.len() && cs[i + 1] == 'u' && i + 2 < cs.len() && cs[i + 2] == '{' {
            let mut j = i + 3;
            let mut h = String::new();
            while cs[j] != '}' {
                h.push(cs[j]);
                j += 1;
            }
            o.push(char::from_u32(u32::from_str_radix(&h, 16).unwrap()).unwrap());
            i = j + 1;
        } else {
            o.push(cs[i]);
            i += 1;
        }
    }
    o
}

impl<'a> Gen<'a> {
    pub fn new(rng: &'a mut Rng) -> Self {
        Gen { rng, at_rules: Default::default(), feats: Default::default(), comment_pct: 6, multiline: true, host_pct: 12, rpx_pct: 30, clean: false }
    }
    pub fn pk(&mut self, v: &[&'static str]) -> &'static str {
        v[self.rng.below(v.len())]
    }
    fn feat(&mut self, f: &'static str) {
        *self.feats.entry(f).or_insert(0) += 1;
    }
    fn ident(&mut self) -> String {
        unesc(self.pk(IDENTS))
    }
    fn comment(&mut self) -> String {
        let c = ["/**/", "/* c */", "/*x*y*/", "/* \n */", "/*\u{e9}*/", "/*{*/", "/*;*/"];
        self.feat("comment");
        unesc(self.pk(&c)).replace("\\n", "\n")
    }
    /// optional whitespace (may be empty, may contain a comment)
    fn ows(&mut self) -> String {
        let mut s = String::new();
        if self.rng.chance(self.comment_pct, 100) {
            s.push_str(&self.comment());
        }
        match self.rng.below(10) {
            0..=4 => {}
            5..=7 => s.push(' '),
            8 => s.push_str(if self.multiline { "\n  " } else { "  " }),
            _ => s.push_str(if self.multiline { "\r\n\t" } else { "\t" }),
        }
        if self.rng.chance(self.comment_pct / 2, 100) {
            s.push_str(&self.comment());
        }
        s
    }
    /// mandatory whitespace
    fn ws(&mut self) -> String {
        let mut s = String::new();
        match self.rng.below(10) {
            0..=6 => s.push(' '),
            7 => s.push_str("  "),
            8 => s.push_str(if self.multiline { "\n" } else { " " }),
            _ => s.push_str(if self.multiline { " \n\t " } else { "\t" }),
        }
        if self.rng.chance(self.comment_pct, 100) {
            s.push_str(&self.comment());
            if self.rng.chance(1, 2) {
                s.push(' ');
            }
        }
        s
    }
    pub fn number(&mut self) -> String {
        self.feat("number");
        match self.rng.below(16) {
            0 => self.rng.below(10).to_string(),
            1 => self.rng.below(1000).to_string(),
            2 => format!("{}.{}", self.rng.below(100), self.rng.below(1000)),
            3 => format!(".{}", self.rng.below(100)),
            4 => format!("-{}", self.rng.below(500)),
            5 => format!("+{}", self.rng.below(500)),
            6 => {
                let pool = ["0", "-0", "+0", "0.0", "-0.0", "1", "100", "750", "7.5", "0.5", "1e3", "1E-3", "2.5e+2", "1e0", "-1.5e-7", "3e38", "1e-45"];
                self.rng.pick(&pool).to_string()
            }
            7 => {
                // i32 boundaries and powers of ten +- 1
                let pool: [i64; 20] = [
                    2147483647, -2147483648, 2147483646, 2147483648, 16777216, 16777217, 16777215, 999999, 1000000,
                    1000001, 9999999, 10000000, 99999, 100000, 123456, 1234567, 123456789, 4294967295, -999999, -1000001,
                ];
                self.rng.pick(&pool).to_string()
            }
            8 => {
                // random integer over the whole i32 range (log-uniform magnitude)
                let bits = 1 + self.rng.below(31);
                let v = (self.rng.next() & ((1u64 << bits) - 1)) as i64;
                if self.rng.chance(1, 4) { (-v).to_string() } else { v.to_string() }
            }
            9 => {
                let k = self.rng.below(10) as u32;
                let p = 10i64.pow(k);
                let d = [-1i64, 0, 1][self.rng.below(3)];
                (p + d).to_string()
            }
            10 => {
                // decimals with many digits
                let a = self.rng.below(100000);
                let b = self.rng.next() % 1000000000;
                format!("{}.{:09}", a, b)
            }
            11 => format!("{}e{}", self.rng.below(99) + 1, self.rng.below(12)),
            12 => format!("{}.{}e-{}", self.rng.below(9), self.rng.below(99), self.rng.below(12)),
            13 => format!("0.{:06}", self.rng.below(1000000)),
            14 => format!("{}", (self.rng.below(4000) as f64) / 8.0),
            _ => format!("{}", self.rng.below(100000)),
        }
    }
    fn dimension(&mut self) -> String {
        let n = self.number();
        let u = if self.rng.chance(self.rpx_pct, 100) { "rpx".to_string() } else { unesc(self.pk(UNITS)) };
        if u == "rpx" {
            self.feat("rpx");
        }
        // a number ending in e<digits> followed by a unit would re-lex; that is fine (still valid input)
        format!("{}{}", n, u)
    }
    fn string(&mut self) -> String {
        let pool = ["\"a\"", "'b c'", "\"\"", "\"q\\\\\\\"x\"", "'\u{e9}\u{1f600}'", "\"a\\\nb\"", "\"*/\"", "'{'", "\"\\41 b\"", "'it\\'s'"];
        self.feat("string");
        self.pk(&pool).to_string()
    }

    // ---- selectors ----
    fn simple_selector(&mut self, depth: usize) -> String {
        match self.rng.below(14) {
            0..=4 => {
                self.feat("class-selector");
                let mut s = format!(".{}", self.ident());
                if self.rng.chance(1, 25) {
                    s = format!("./**/{}", self.ident());
                }
                s
            }
            5 => format!("#{}", self.ident()),
            6 => {
                self.feat("attr-selector");
                let ops = ["=", "~=", "|=", "^=", "$=", "*="];
                match self.rng.below(4) {
                    0 => format!("[{}]", self.ident()),
                    1 => format!("[{}{}{}]", self.ident(), self.rng.pick(&ops), self.string()),
                    2 => format!("[{}{}{}{}i]", self.ident(), self.rng.pick(&ops), self.ident(), self.ws()),
                    _ => format!("[{}{}{}.{}]", self.ows(), self.ident(), self.rng.pick(&ops), self.ident()),
                }
            }
            7 => format!(":{}", self.rng.pick(PSEUDO)),
            8 => format!("::{}", self.rng.pick(PSEUDO)),
            9..=11 if depth < 3 && !(self.clean && depth >= 1) => {
                self.feat(["selector-fn-depth1", "selector-fn-depth2", "selector-fn-depth3"][depth]);
                let f = *self.rng.pick(PSEUDO_FN);
                if f.starts_with("nth") {
                    let anb = ["2n+1", "odd", "even", "-n+3", "3", "2n + 1", "n", "+5", "-2n-1"];
                    if self.rng.chance(1, 2) {
                        format!(":{}({}{}of{}{})", f, self.rng.pick(&anb), self.ws(), self.ws(), self.selector_list(depth + 1))
                    } else {
                        format!(":{}({})", f, self.rng.pick(&anb))
                    }
                } else {
                    format!(":{}({}{}{})", f, self.ows(), self.selector_list(depth + 1), self.ows())
                }
            }
            12 => "*".to_string(),
            _ => self.ident(),
        }
    }
    fn compound(&mut self, depth: usize) -> String {
        let mut s = String::new();
        if self.rng.chance(1, 3) {
            s.push_str(&self.ident());
        }
        let n = 1 + self.rng.below(3);
        for _ in 0..n {
            let x = self.simple_selector(depth);
            // a type selector can only come first
            if !s.is_empty() && x.chars().next().map_or(false, |c| c.is_alphanumeric() || c == '_' || c == '-' || c == '\\' || c as u32 > 127) {
                continue;
            }
            s.push_str(&x);
        }
        if s.is_empty() {
            s = format!(".{}", self.ident());
        }
        s
    }
    fn complex(&mut self, depth: usize) -> String {
        let mut s = self.compound(depth);
        let n = self.rng.below(3);
        for _ in 0..n {
            let comb = match self.rng.below(8) {
                0..=3 => {
                    self.feat("descendant-combinator");
                    self.ws()
                }
                4 => ">".to_string(),
                5 => format!("{}>{}", self.ws(), self.ws()),
                6 => format!("{}+{}", self.ows(), self.ows()),
                _ => format!("{}~{}", self.ws(), self.ows()),
            };
            s.push_str(&comb);
            s.push_str(&self.compound(depth));
        }
        s
    }
    fn selector_list(&mut self, depth: usize) -> String {
        let mut s = self.complex(depth);
        while self.rng.chance(1, 4) {
            s.push_str(&format!("{},{}", self.ows(), self.ows()));
            s.push_str(&self.complex(depth));
        }
        s
    }

    // ---- values ----
    fn value_component(&mut self, depth: usize) -> String {
        match self.rng.below(22) {
            0..=2 => self.ident(),
            3..=5 => self.dimension(),
            6 => self.number(),
            7 => format!("{}%", self.number()),
            8 => self.string(),
            9 => {
                self.feat("hash");
                let h = ["#fff", "#00ff00", "#0a0b0c80", "#1e3", "#abc", "#123456", "#e0e"];
                self.rng.pick(&h).to_string()
            }
            10 => {
                self.feat("url");
                let u = ["url(a.png)", "url( b.png )", "url(\"c d.png\")", "url(data:image/png;base64,AAAA==)", "url()", "url(a\\)b)"];
                unesc(self.pk(&u))
            }
            11..=13 if depth < 3 => {
                let mut f = *self.rng.pick(VAL_FN);
                if self.clean && f != "calc" && matches!(f, "min" | "max" | "clamp" | "CALC" | "round" | "hypot" | "abs" | "mod" | "-webkit-calc" | "calc-size" | "atan2" | "Pow") {
                    f = "calc";
                }
                if f == "url" {
                    return format!("url({})", self.string());
                }
                if matches!(f, "calc" | "min" | "max" | "clamp" | "CALC" | "round" | "hypot" | "abs" | "mod" | "-webkit-calc" | "calc-size" | "atan2" | "Pow") {
                    self.feat(if f == "calc" { "calc" } else { "math-fn" });
                    format!("{}({}{}{})", f, self.ows(), self.calc_sum(depth + 1), self.ows())
                } else if f == "var" || f == "env" {
                    if self.rng.chance(1, 2) {
                        format!("{}(--{})", f, self.ident())
                    } else {
                        // the fallback is an ordinary value: an rpx length there must be converted like anywhere else
                        let fb = if self.rng.chance(1, 2) {
                            self.feat("rpx-in-var-fallback");
                            self.feat("rpx");
                            format!("{}rpx", self.number())
                        } else {
                            self.value(depth + 1)
                        };
                        format!("{}(--{},{}{})", f, self.ident(), self.ows(), fb)
                    }
                } else {
                    let mut a = self.value(depth + 1);
                    while self.rng.chance(1, 2) {
                        a.push_str(&format!("{},{}", self.ows(), self.ows()));
                        a.push_str(&self.value(depth + 1));
                    }
                    format!("{}({})", f, a)
                }
            }
            14 if !self.clean => {
                self.feat("unicode-range");
                let u = ["U+0025-00FF", "u+4??", "U+26", "U+0-7F", "u+1f600-1f64f"];
                self.rng.pick(&u).to_string()
            }
            15 => format!("{}.{}", self.ident(), self.ident()),
            16 => "!important".to_string(),
            17 if depth < 3 => {
                self.feat("nested-block-in-value");
                match self.rng.below(3) {
                    0 => format!("({})", self.value(depth + 1)),
                    1 => format!("[{}]", self.value(depth + 1)),
                    _ => format!("{{{}}}", self.value(depth + 1)),
                }
            }
            18 => {
                let d = ["/", "*", "+", "-", ">", "<", "=", "~", "|", "^", "$", "?", "@", "&", ".", "%", "!"];
                self.feat("delim");
                self.rng.pick(&d).to_string()
            }
            19 => {
                let m = ["~=", "|=", "^=", "$=", "*=", "||"];
                self.feat("match-or-cd-token");
                self.rng.pick(&m).to_string()
            }
            20 => format!("-{}", self.ident()),
            _ => format!(".{}", self.rng.below(100)),
        }
    }
    fn calc_sum(&mut self, depth: usize) -> String {
        let mut s = self.calc_term(depth);
        let n = self.rng.below(3);
        for _ in 0..n {
            let op = if self.rng.chance(1, 2) { "+" } else { "-" };
            s.push_str(&format!("{}{}{}", self.ws(), op, self.ws()));
            s.push_str(&self.calc_term(depth));
        }
        s
    }
    fn calc_term(&mut self, depth: usize) -> String {
        let mut s = self.calc_atom(depth);
        if self.rng.chance(1, 3) {
            let op = if self.rng.chance(1, 2) { "*" } else { "/" };
            s.push_str(&format!("{}{}{}{}", self.ows(), op, self.ows(), self.number()));
        }
        s
    }
    fn calc_atom(&mut self, depth: usize) -> String {
        match self.rng.below(8) {
            0..=3 => self.dimension(),
            4 => format!("{}%", self.number()),
            5 if depth < 3 && !self.clean => {
                self.feat("nested-paren-in-calc");
                format!("({}{}{})", self.ows(), self.calc_sum(depth + 1), self.ows())
            }
            6 if depth < 3 => {
                let f = ["calc", "min", "max", "var"];
                let mut f = *self.rng.pick(&f);
                if self.clean && f != "var" {
                    f = "calc";
                }
                if f == "var" {
                    // a sum in the fallback of var() / env() nested in a calc sum is still part of the sum
                    match self.rng.below(3) {
                        0 => format!("var(--{})", self.ident()),
                        1 => { self.feat("sum-in-var-in-calc"); format!("var(--{},{}{})", self.ident(), self.ows(), self.calc_sum(depth + 1)) }
                        _ => { self.feat("sum-in-var-in-calc"); format!("env({},{}{})", self.ident(), self.ows(), self.calc_sum(depth + 1)) }
                    }
                } else { format!("{}({})", f, self.calc_sum(depth + 1)) }
            }
            _ => self.number(),
        }
    }
    fn value(&mut self, depth: usize) -> String {
        let mut s = self.value_component(depth);
        let n = self.rng.below(4);
        for _ in 0..n {
            let sep = match self.rng.below(10) {
                0..=6 => self.ws(),
                7 => format!("{},{}", self.ows(), self.ows()),
                8 => format!("{}/{}", self.ows(), self.ows()),
                _ => String::new(),
            };
            s.push_str(&sep);
            s.push_str(&self.value_component(depth));
        }
        s
    }
    fn declarations(&mut self) -> String {
        let mut s = self.ows();
        let n = self.rng.below(4);
        for i in 0..n {
            let p = unesc(self.pk(PROPS));
            s.push_str(&format!("{}{}:{}{}", p, self.ows(), self.ows(), self.value(0)));
            if i + 1 < n || self.rng.chance(2, 3) {
                s.push(';');
            }
            s.push_str(&self.ows());
        }
        s
    }

    // ---- rules ----
    fn qualified_rule(&mut self) -> String {
        self.feat("qualified-rule");
        format!("{}{}{{{}}}", self.selector_list(0), self.ows(), self.declarations())
    }
    /// a keyword in a random letter case (CSS keywords are ASCII case-insensitive); mostly as given
    fn kw(&mut self, w: &str) -> String {
        match self.rng.below(6) {
            0 => w.to_ascii_uppercase(),
            1 => w.chars().enumerate().map(|(i, c)| if i % 2 == 0 { c.to_ascii_uppercase() } else { c }).collect(),
            _ => w.to_string(),
        }
    }
    fn host_rule(&mut self) -> String {
        let host = self.kw("host");
        let host = host.as_str();
        match self.rng.below(16) {
            0..=6 => {
                self.feat("host-pure");
                format!(":{}{}{{{}}}", host, self.ows(), self.declarations())
            }
            7 => {
                self.feat("host-function");
                format!(":{}({}){}{{{}}}", host, self.selector_list(1), self.ows(), self.declarations())
            }
            8 => {
                self.feat("host-combined");
                format!(":{}{}{}{{{}}}", host, self.ws(), self.complex(0), self.declarations())
            }
            9 => {
                self.feat("host-combined");
                format!(":{}{},{}{}{{{}}}", host, self.ows(), self.ows(), self.complex(0), self.declarations())
            }
            10 => {
                self.feat("host-not-first");
                format!("{}{}:{}{{{}}}", self.compound(0), self.ws(), host, self.declarations())
            }
            11 => {
                // `:host` later in the selector list, or glued to a compound selector
                self.feat("host-late");
                match self.rng.below(4) {
                    0 => format!("{}{},{}:{}{}{{{}}}", self.complex(0), self.ows(), self.ows(), host, self.ows(), self.declarations()),
                    1 => format!("{}:{}{{{}}}", self.compound(0), host, self.declarations()),
                    2 => format!("{}{}>{}:{}({}){}{{{}}}", self.compound(0), self.ows(), self.ows(), host, self.compound(1), self.ws(), self.declarations()),
                    _ => format!("{},{}:{}{},{}{}{{{}}}", self.complex(0), self.ows(), host, self.ows(), self.ows(), self.complex(0), self.declarations()),
                }
            }
            12 => {
                // not `:host`: nested in a selector function, a longer name, a class of that name
                self.feat("host-lookalike");
                match self.rng.below(4) {
                    0 => format!("{}:is(:{}){{{}}}", self.compound(0), host, self.declarations()),
                    1 => format!(":{}-context(.a){}{{{}}}", host, self.ows(), self.declarations()),
                    2 => format!(".{}{}{{{}}}", host, self.ows(), self.declarations()),
                    _ => format!("::{}{}{{{}}}", host, self.ows(), self.declarations()),
                }
            }
            13 | 14 if !self.clean => {
                self.feat("host-spaced");
                // `:/**/host` (a comment does not separate tokens) or `: host` (not a pseudo-class)
                let gap = if self.rng.chance(1, 2) { self.comment() } else { self.ws() };
                format!(":{}{}{}{{{}}}", gap, host, self.ows(), self.declarations())
            }
            _ => {
                self.feat("host-pure");
                format!(":{}{{{}}}", host, self.declarations())
            }
        }
    }
    fn at_rule(&mut self, depth: usize) -> String {
        let mut k = self.rng.below(16);
        if self.clean && [2usize, 3, 4, 7, 13, 15].contains(&k) {
            k = [0usize, 1, 5, 6, 10, 12][self.rng.below(6)];
        }
        let mut name = ["media", "supports", "layer", "container", "scope", "keyframes", "font-face", "layer", "charset", "namespace", "document", "page", "foo", "MEDIA", "property", "starting-style"][k];
        if name == "document" && self.rng.chance(1, 2) {
            name = if self.rng.chance(1, 3) { "-MOZ-Document" } else { "-moz-document" };
        }
        *self.at_rules.entry(name.to_string()).or_insert(0) += 1;
        match name {
            "media" | "MEDIA" => {
                let q = match self.rng.below(6) {
                    0 => format!("(min-width:{}{})", self.ows(), self.dimension()),
                    1 => format!("screen{}and{}(max-width: {})", self.ws(), self.ws(), self.dimension()),
                    2 => "print".to_string(),
                    3 => format!("(width >= {}){}and{}(orientation: landscape)", self.dimension(), self.ws(), self.ws()),
                    4 => format!("not{}all{},{}(color)", self.ws(), self.ows(), self.ows()),
                    _ => format!("only screen and (min-resolution: {}dppx)", self.number()),
                };
                format!("@{}{}{}{}{{{}}}", name, self.ws(), q, self.ows(), self.rule_list(depth + 1))
            }
            "supports" => {
                let c = match self.rng.below(4) {
                    0 if !self.clean => format!("({}:{}{})", unesc(self.pk(PROPS)), self.ows(), self.value(1)),
                    0 => format!("({}:{}{})", unesc(self.pk(PROPS)), self.ows(), self.dimension()),
                    1 => format!("not{}(display: grid)", self.ws()),
                    2 => format!("selector({})", self.selector_list(1)),
                    _ => format!("(a: b){}or{}(c: {})", self.ws(), self.ws(), self.dimension()),
                };
                format!("@supports{}{}{}{{{}}}", self.ws(), c, self.ows(), self.rule_list(depth + 1))
            }
            "layer" => {
                if self.rng.chance(1, 3) {
                    format!("@layer{}{}{},{}{};", self.ws(), self.ident(), self.ows(), self.ows(), self.ident())
                } else if self.rng.chance(1, 4) {
                    format!("@layer{}{{{}}}", self.ows(), self.rule_list(depth + 1))
                } else {
                    format!("@layer{}{}.{}{}{{{}}}", self.ws(), self.ident(), self.ident(), self.ows(), self.rule_list(depth + 1))
                }
            }
            "container" => format!(
                "@container{}{}{}({}:{}{}){}{{{}}}",
                self.ws(), self.ident(), self.ws(), "min-width", self.ows(), self.dimension(), self.ows(), self.rule_list(depth + 1)
            ),
            "scope" => format!(
                "@scope{}({}){}to{}({}){}{{{}}}",
                self.ows(), self.selector_list(1), self.ws(), self.ws(), self.selector_list(1), self.ows(), self.rule_list(depth + 1)
            ),
            "starting-style" => format!("@starting-style{}{{{}}}", self.ows(), self.rule_list(depth + 1)),
            "document" | "-moz-document" | "-MOZ-Document" => {
                format!("@{}{}url-prefix(http://x/){}{{{}}}", name, self.ws(), self.ows(), self.rule_list(depth + 1))
            }
            "keyframes" => {
                let mut body = self.ows();
                let n = 1 + self.rng.below(3);
                for _ in 0..n {
                    let sel = match self.rng.below(4) {
                        0 => "from".to_string(),
                        1 => "to".to_string(),
                        2 => format!("{}%", self.number()),
                        _ => format!("0%{},{}100%", self.ows(), self.ows()),
                    };
                    body.push_str(&format!("{}{}{{{}}}{}", sel, self.ows(), self.declarations(), self.ows()));
                }
                format!("@keyframes{}{}{}{{{}}}", self.ws(), self.ident(), self.ows(), body)
            }
            "font-face" => format!("@font-face{}{{{}}}", self.ows(), self.declarations()),
            "property" => format!("@property{}--{}{}{{{}}}", self.ws(), self.ident(), self.ows(), self.declarations()),
            "charset" => "@charset \"utf-8\";".to_string(),
            "namespace" => format!("@namespace{}{}{}url(http://www.w3.org/1999/xhtml);", self.ws(), self.ident(), self.ws()),
            "page" => format!("@page{}:first{}{{{}}}", self.ws(), self.ows(), self.declarations()),
            _ => {
                if self.rng.chance(1, 2) {
                    let v = if self.clean { self.dimension() } else { self.value(1) };
                    format!("@foo{}{};", self.ws(), v)
                } else {
                    format!("@foo{}({}){}{{{}}}", self.ws(), self.selector_list(1), self.ows(), self.declarations())
                }
            }
        }
    }
    pub fn import_path(&mut self) -> String {
        let pool = [
            "./a.wxss", "a", "../b/c.wxss", "/abs/p", "a b", "a*/b", "*/", "100%", "%2F", "\u{e9}/\u{540d}.wxss", "\u{1f600}", "q?x=1&y=2#f",
            "it's", "~user/.x_y-z", "", "a\\\\b", "say \\\"hi\\\"", "tab\\9 x", "\u{80}\u{7ff}\u{800}\u{ffff}\u{10000}\u{10ffff}",
        ];
        if self.rng.chance(1, 3) {
            // random code points (valid scalar values)
            let n = 1 + self.rng.below(6);
            let mut s = String::new();
            for _ in 0..n {
                let c = match self.rng.below(6) {
                    0 => 32 + self.rng.below(95) as u32,
                    1 => 0x80 + self.rng.below(0x780) as u32,
                    2 => 0x800 + self.rng.below(0xD000) as u32,
                    3 => 0x10000 + self.rng.below(0x100000) as u32,
                    4 => [b'*', b'/', b'%', b' ', b'\'', b'~', b'-', b'_', b'.'][self.rng.below(9)] as u32,
                    _ => 0xE000 + self.rng.below(0x1000) as u32,
                };
                if let Some(ch) = char::from_u32(c) {
                    if ch != '"' && ch != '\\' && ch != '\n' {
                        s.push(ch);
                    }
                }
            }
            s
        } else {
            unesc(self.pk(&pool))
        }
    }
    fn import_rule(&mut self) -> String {
        self.feat("import");
        *self.at_rules.entry("import".to_string()).or_insert(0) += 1;
        let p = self.import_path();
        // the pool writes an escaped quote as \" ; everything else is literal
        let target = match self.rng.below(8) {
            0 if !self.clean => {
                self.feat("import-url-fn");
                format!("url(\"{}\")", p)
            }
            1 if !self.clean => {
                self.feat("import-url-token");
                "url(foo.wxss)".to_string()
            }
            2 if !p.contains('\'') && !p.contains('\\') => format!("'{}'", p),
            _ => format!("\"{}\"", p),
        };
        let mut s = format!("@{}{}{}", self.kw("import"), self.ws(), target);
        if self.rng.chance(1, 4) {
            if self.rng.chance(1, 3) {
                // the bare keyword: an anonymous layer
                self.feat("import-layer-keyword");
                s.push_str(&format!("{}{}", self.ws(), self.kw("layer")));
            } else {
                self.feat("import-layer");
                s.push_str(&format!("{}{}({})", self.ws(), self.kw("layer"), self.ident()));
            }
        }
        if self.rng.chance(1, 4) {
            self.feat("import-supports");
            let v = if self.clean { self.dimension() } else { self.value(2) };
            s.push_str(&format!("{}{}({}:{}{})", self.ws(), self.kw("supports"), unesc(self.pk(PROPS)), self.ows(), v));
        }
        if self.rng.chance(1, 3) {
            self.feat("import-media");
            // every media type (also `all`, in either case, which matches every device and still has to be
            // carried into the wrapper with the rest of its query)
            let types = ["screen", "print", "all", "ALL", "All", "speech", "tv", "layer"];
            let ty = *self.rng.pick(&types);
            let ty2 = *self.rng.pick(&types);
            let q = match self.rng.below(8) {
                0 => format!("{}{}and{}(min-width:{}{})", ty, self.ws(), self.ws(), self.ows(), self.dimension()),
                1 => ty.to_string(),
                2 => format!("(orientation: landscape){},{}{}", self.ows(), self.ows(), ty),
                3 => format!("not{}{}", self.ws(), ty),
                4 => format!("{}{},{}{}", ty, self.ows(), self.ows(), ty2),
                5 => format!("only{}{}{}and{}(color)", self.ws(), ty, self.ws(), self.ws()),
                6 => format!("{}{}and{}(color){}and{}(min-width: {})", ty, self.ws(), self.ws(), self.ws(), self.ws(), self.dimension()),
                _ => format!("{}{}and{}(color){},{}{}{}and{}(monochrome)", ty, self.ws(), self.ws(), self.ows(), self.ows(), ty2, self.ws(), self.ws()),
            };
            s.push_str(&format!("{}{}", self.ws(), q));
        }
        if !self.clean && self.rng.chance(1, 30) {
            self.feat("import-bad-tail");
            s.push_str(" 5");
        }
        if self.rng.chance(9, 10) {
            s.push_str(&self.ows());
            s.push(';');
        }
        s
    }
    fn rule_list(&mut self, depth: usize) -> String {
        let mut s = self.ows();
        let n = self.rng.below(4);
        for _ in 0..n {
            let r = self.rng.below(100) as u64;
            if r < self.host_pct {
                s.push_str(&self.host_rule());
            } else if r < self.host_pct + 22 && depth < 4 {
                s.push_str(&self.at_rule(depth));
            } else if r < self.host_pct + 25 {
                s.push_str(&self.import_rule());
            } else {
                s.push_str(&self.qualified_rule());
            }
            s.push_str(&self.ows());
        }
        s
    }
    pub fn stylesheet(&mut self) -> String {
        let mut s = self.ows();
        if self.rng.chance(1, 8) {
            // `@charset` may precede the imports
            self.feat("charset-first");
            s.push_str(&format!("@{} \"utf-8\";{}", self.kw("charset"), self.ows()));
        }
        let ni = if self.rng.chance(1, 3) { 1 + self.rng.below(3) } else { 0 };
        for _ in 0..ni {
            s.push_str(&self.import_rule());
            s.push_str(&self.ows());
        }
        let n = 1 + self.rng.below(5);
        for _ in 0..n {
            if self.rng.chance(1, 40) {
                self.feat("cdo-cdc-between-rules");
                s.push_str(if self.rng.chance(1, 2) { "<!--" } else { "-->" });
                s.push_str(&self.ows());
            }
            let r = self.rng.below(100) as u64;
            if r < self.host_pct {
                s.push_str(&self.host_rule());
            } else if r < self.host_pct + 25 {
                s.push_str(&self.at_rule(0));
            } else if r < self.host_pct + 29 {
                s.push_str(&self.import_rule());
            } else {
                s.push_str(&self.qualified_rule());
            }
            s.push_str(&self.ows());
        }
        s
    }
    /// malformed stream: character-level mutations of a valid sheet
    pub fn mutate(&mut self, css: &str) -> String {
        let mut cs: Vec<char> = css.chars().collect();
        let special = ['{', '}', '(', ')', '[', ']', ';', ':', ',', '"', '\'', '\\', '/', '*', '@', '#', '.', '\n', ' ', '!', '-', '+', '%', '<', '>', 'u', 'e'];
        let n = 1 + self.rng.below(3);
        for _ in 0..n {
            if cs.is_empty() {
                break;
            }
            let i = self.rng.below(cs.len());
            match self.rng.below(4) {
                0 => {
                    cs.remove(i);
                }
                1 => cs.insert(i, *self.rng.pick(&special)),
                2 => cs[i] = *self.rng.pick(&special),
                _ => cs.truncate(i),
            }
        }
        cs.into_iter().collect()
    }
    pub fn options(&mut self) -> Opts {
        let prefixes = [None, None, Some(""), Some("p"), Some("my-comp"), Some("\u{524d}\u{7f00}"), Some("1x"), Some("a b")];
        let signs = [None, None, Some("S"), Some("sig n"), Some("\u{7b7e}")];
        let ratios = [750f32, 750., 10., 1., 3., 0.1, 375.5];
        let isigns = [None, Some("IMP"), Some("IMP"), Some("@i")];
        let his = [None, Some("comp"), Some("c\\\"q"), Some("\u{7ec4}\u{4ef6}")];
        let host = self.rng.chance(1, 2);
        Opts {
            class_prefix: self.rng.pick(&prefixes).map(|x| unesc(x).replace("\\\"", "\"")),
            class_prefix_sign: self.rng.pick(&signs).map(|x| unesc(x)),
            rpx_ratio: *self.rng.pick(&ratios),
            import_sign: self.rng.pick(&isigns).map(|x| x.to_string()),
            convert_host: host,
            // (host_is is also given without conversion: it must not switch conversion on)
            host_is: if host || self.rng.chance(1, 3) { self.rng.pick(&his).map(|x| unesc(x).replace("\\\"", "\"")) } else { None },
        }
    }
}

fn opt_class(o: &Opts) -> String {
    format!(
        "prefix={} sign={} ratio={} import_sign={} host={} host_is={}",
        match &o.class_prefix { None => "none", Some(p) if p.is_empty() => "empty", Some(p) if p.is_ascii() => "ascii", _ => "non-ascii" },
        if o.class_prefix_sign.is_some() { "on" } else { "off" },
        o.rpx_ratio,
        if o.import_sign.is_some() { "on" } else { "off" },
        o.convert_host,
        if o.host_is.is_some() { "on" } else { "off" },
    )
}

/// hand-written seeds replayed first (regression inputs for the known findings and edge cases)
const SEEDS: &[&str] = &[
    ".a .b:not(:is(.c .d)) { width: 10rpx; margin: calc(1px + 2rpx) }",
    "@layer x { .a .b { c: d } }\n@container n (min-width: 1rpx) { .a .b {} }\n@scope (.a) to (.b) { .c .d {} }",
    "@font-face { unicode-range: U+0025-00FF, u+4??; }",
    ".a { z-index: 2147483647; w: 9999999px; x: 1.23456789; y: 16777217 }",
    "@import url(foo.wxss);\n@import url(\"bar.wxss\");\n.a{}",
    "@import 'a b*/' layer(x) supports(display: grid) screen and (min-width: 1px);",
    ":host { color: red }\n@media x { :host { a: b } .q{} :host(.a) {} :host .b {} }",
    ".a { w: min(100% - 20rpx, 50px); h: calc((1px + 2px) * 3) }",
    ".a { w: calc(1px + var(--x, 2px + 1rpx)); h: min(env(a, 1px - 2px), translate(3px + var(--y, 1px + 1px))) }",
    ".a{w:round(up, 1px + 2px, 3px);h:hypot(1px + 1rpx);x:-webkit-calc(1px + 2px);y:abs(1px - 2px);z:mod(5px + 1px, 2px);v:CALC-SIZE(auto, size + 2px)}",
    "@supports (content: \"{\") { :host { color: pink } .k{} } @supports selector(a[b=\"{{\"]) { @media x { :host{a:b} .c{} } }",
    "@import \"./x\" supports(selector(.a *));\n@import url(y) supports(selector(a :has(.b #c [d] :e))) screen;\n@import 'z' layer(l.m) supports(selector(.p > .q ~ * .r));\n.k{}",
    "/*x*/ .a /*y*/ .b{color:red}\n@media (min-width: 2rpx) { .c/*k*/.d { x: 1rpx } }",
    ".\u{1f600}a \u{540d}.b{ --\u{e9}: '\u{1f600}' 1rpx }\n.c{}",
    ".a{b:c",
    "@media (a) { .b { c: d",
    "} .a {} ) ] .b {}",
    ":host",
    ":",
    ":host {",
    "@import",
    "@import 'a' layer(x) 5; .a{}",
    // witnesses of repaired defects D25 / D26 (regression corpus)
    "@import 'a' layer(base.theme);\n.b{}",
    ": host{a:b}\n:/**/host{c:d}\n.e{}",
    "@import 'a' foo(x); .b{}",
    "@import 'a' screen { } .c{}",
    "",
    "   /* only */  ",
];

pub fn run(tier: &str, seed: u64, args: &[String], out: &mut Out) {
    // optional: chunk index and number of chunks (the thorough tier is produced piecewise)
    let chunk: u64 = args.get(4).and_then(|s| s.parse().ok()).unwrap_or(0);
    let nchunks: u64 = args.get(5).and_then(|s| s.parse().ok()).unwrap_or(1).max(1);
    let mut rng = Rng::new(seed ^ 0xC55 ^ (chunk << 32));
    let n = (if tier == "thorough" { 120_000 } else { 12_000 }) / nchunks as usize;
    let mut kinds: std::collections::BTreeMap<&'static str, u64> = Default::default();
    let mut optsets: std::collections::BTreeMap<String, u64> = Default::default();
    let mut cats: std::collections::BTreeMap<&'static str, u64> = Default::default();
    let mut depth_hist: std::collections::BTreeMap<usize, u64> = Default::default();
    let mut at_rules: std::collections::BTreeMap<String, u64> = Default::default();
    let mut feats: std::collections::BTreeMap<&'static str, u64> = Default::default();
    let mut total_tokens = 0usize;
    let mut emit = |out: &mut Out, css: &str, o: &Opts, cat: &'static str| {
        let st = emit_case(out, css, o, cat);
        for (k, v) in st.kinds.iter() {
            *kinds.entry(k).or_insert(0) += v;
        }
        *depth_hist.entry(st.max_depth).or_insert(0) += 1;
        *optsets.entry(opt_class(o)).or_insert(0) += 1;
        *cats.entry(cat).or_insert(0) += 1;
        total_tokens += st.n_tokens;
    };
    // 1. seeds x a fixed set of option sets
    let base_opts = [
        Opts::default(),
        Opts { class_prefix: Some("p".into()), ..Opts::default() },
        Opts { class_prefix: Some("p".into()), class_prefix_sign: Some("S".into()), rpx_ratio: 10., import_sign: Some("IMP".into()), convert_host: true, host_is: Some("hi".into()) },
        Opts { class_prefix: Some("\u{524d}".into()), import_sign: Some("IMP".into()), convert_host: true, ..Opts::default() },
    ];
    for s in SEEDS {
        if chunk != 0 {
            break;
        }
        let css = unesc(s).replace("\\n", "\n");
        for o in base_opts.iter() {
            emit(out, &css, o, "seed");
        }
    }
    // 1b. class selectors under deeply nested selector functions / prelude blocks (depth 33, 40, 64): no depth limit
    if chunk == 0 {
        for depth in [33usize, 40, 64] {
            let nested = format!(".x{}.a, .b{}{{w:1rpx}}", ":not(".repeat(depth), ")".repeat(depth));
            let scoped = format!("@layer l{{@scope {}.a .b{}{{.c{{}}}}}}", "(".repeat(depth), ")".repeat(depth));
            for o in base_opts.iter() {
                emit(out, &nested, o, "seed");
                emit(out, &scoped, o, "seed");
            }
        }
    }
    // 2. generated
    for i in 0..n {
        let cat: &'static str = match i % 10 {
            0..=3 => "general",
            4 => "numeric",
            5 => "host",
            6 => "import",
            7 => "srcmap",
            8 => "malformed",
            _ => "general",
        };
        let mut g = Gen::new(&mut rng);
        g.clean = g.rng.chance(7, 10);
        match cat {
            "numeric" => {
                g.rpx_pct = 55;
                g.comment_pct = 1;
            }
            "host" => g.host_pct = 40,
            "srcmap" => {
                g.comment_pct = 15;
            }
            _ => {}
        }
        let mut css = match cat {
            "numeric" => {
                // declaration-heavy sheet
                let mut s = String::new();
                let k = 1 + g.rng.below(3);
                for _ in 0..k {
                    s.push_str(&format!(".{}{{", g.ident()));
                    let m = 1 + g.rng.below(5);
                    for _ in 0..m {
                        let v = match g.rng.below(5) {
                            0 => g.number(),
                            1 => format!("{}%", g.number()),
                            2 => format!("calc({})", g.calc_sum(1)),
                            _ => g.dimension(),
                        };
                        s.push_str(&format!("{}:{}{};", unesc(g.pk(PROPS)), g.ows(), v));
                    }
                    s.push('}');
                }
                if g.rng.chance(1, 3) {
                    s.push_str(&format!("@media (min-width:{}){{.a{{b:{}}}}}", g.dimension(), g.dimension()));
                }
                s
            }
            "import" => {
                let mut s = g.ows();
                let k = 1 + g.rng.below(3);
                for _ in 0..k {
                    s.push_str(&g.import_rule());
                    s.push_str(&g.ows());
                }
                if g.rng.chance(1, 2) {
                    s.push_str(&g.qualified_rule());
                    if g.rng.chance(1, 2) {
                        s.push_str(&g.import_rule());
                    }
                }
                s
            }
            _ => g.stylesheet(),
        };
        if cat == "malformed" {
            css = g.mutate(&css);
        }
        let mut o = g.options();
        if cat == "import" && g.rng.chance(4, 5) {
            o.import_sign = Some("IMP".into());
        }
        if cat == "host" && g.rng.chance(4, 5) {
            o.convert_host = true;
        }
        for (k, v) in g.at_rules.iter() {
            *at_rules.entry(k.clone()).or_insert(0) += v;
        }
        for (k, v) in g.feats.iter() {
            *feats.entry(k).or_insert(0) += v;
        }
        emit(out, &css, &o, cat);
    }
    let stats = serde_json::json!({
        "token_kinds": kinds, "option_sets": optsets, "categories": cats, "max_depth_hist": depth_hist.iter().map(|(k, v)| (k.to_string(), *v)).collect::<std::collections::BTreeMap<_, _>>(),
        "at_rules": at_rules, "features": feats, "total_tokens": total_tokens,
    });
    out.raw(&format!("#stats\t{}", stats));
}

/// `cssnum <tier> <seed>`: numeric printing and the rpx formula in isolation, through
/// cssparser's own Token::to_css (what output.rs calls) on f32 bit patterns
pub fn run_num(tier: &str, seed: u64, out: &mut Out) {
    use cssparser::ToCss;
    let mut rng = Rng::new(seed ^ 0x10);
    let n = if tier == "thorough" { 400_000 } else { 40_000 };
    for i in 0..n {
        let bits: u32 = match i % 4 {
            0 => (rng.next() as u32) & 0x7fff_ffff,
            1 => ((rng.below(1_000_000) as f32) / [1f32, 10., 100., 1000., 8., 3.][rng.below(6)]).to_bits(),
            2 => (rng.next() as i32 as f32).to_bits(),
            _ => {
                let m = 1 + rng.below(999_999) as u32;
                let k = rng.below(12) as i32 - 6;
                ((m as f64) * 10f64.powi(k)) as f32
            }
            .to_bits(),
        };
        let bits = if rng.chance(1, 5) { bits | 0x8000_0000 } else { bits };
        let v = f32::from_bits(bits);
        if !v.is_finite() {
            continue;
        }
        let has_sign = rng.chance(1, 4) || v.is_sign_negative();
        let int_value = if v.fract() == 0. && v.abs() < 2e9 && rng.chance(1, 2) { Some(v as i32) } else { None };
        let t = Token::Number { has_sign, value: v, int_value };
        let r = catch(move || t.to_css_string());
        let iv = int_s(&int_value);
        out.case(&["css_num", "n", if has_sign { "1" } else { "0" }, &iv, &bits.to_string()], &match r {
            Ok(s) => enc(&s),
            Err(e) => format!("PANIC {}", e),
        });
        if i % 3 == 0 {
            let t = Token::Percentage { has_sign, unit_value: v, int_value };
            if (v * 100.).is_finite() {
                let r = catch(move || t.to_css_string());
                out.case(&["css_num", "pc", if has_sign { "1" } else { "0" }, &iv, &bits.to_string()], &match r {
                    Ok(s) => enc(s.trim_end_matches('%')),
                    Err(e) => format!("PANIC {}", e),
                });
            }
        }
    }
}
