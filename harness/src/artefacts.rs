//! C02 (and shared by C01/C20): groups of generated templates and every artefact they emit.
use crate::gen_tmpl::*;
use crate::util::*;
use glass_easel_template_compiler::verif_hooks as hooks;
use glass_easel_template_compiler::TmplGroup;

pub fn ident(tier: &str, seed: u64, out: &mut Out) {
    let mut rng = Rng::new(seed ^ 0x1d);
    let n = if tier == "thorough" { 300_000usize } else { 120_000 };
    for id in 0..n {
        out.case(&["var_name", &id.to_string()], &enc(&hooks::get_var_name(id)));
        let (name, next) = hooks::next_ident_name(id);
        out.case(&["alloc", &id.to_string()], &format!("{};{}", enc(&name), next));
    }
    // around every forbidden name that is reachable, and random large ids
    for _ in 0..(if tier == "thorough" { 200_000 } else { 40_000 }) {
        let id = (rng.next() % (1u64 << 40)) as usize;
        out.case(&["var_name", &id.to_string()], &enc(&hooks::get_var_name(id)));
        let (name, next) = hooks::next_ident_name(id);
        out.case(&["alloc", &id.to_string()], &format!("{};{}", enc(&name), next));
    }
}

pub struct GenGroup {
    pub files: Vec<(String, String)>,   // (path, wxml source)
    pub scripts: Vec<(String, String)>, // (path, js)
    pub features: std::collections::BTreeMap<&'static str, usize>,
}

pub fn gen_group(rng: &mut Rng, n_files: usize, cfg_depth: usize, odd_names: bool) -> GenGroup {
    let paths_pool = ["index", "a", "b", "dir/c", "dir/sub/d", "lib/e"];
    let mut paths: Vec<String> = paths_pool.iter().take(n_files.min(paths_pool.len())).map(|s| s.to_string()).collect();
    if odd_names {
        paths.push("it's/a\\b \"q\"".to_string());
        paths.push("汉/\u{1f600}".to_string());
        // backslashes in front of every kind of character (an unescaped `\u` / `\x` / trailing `\` is not a string literal),
        // line terminators, the line / paragraph separators
        let nasty = ["pages\\user\\index", "lib\\xtra", "dir\\", "a\\u{1}\\0\\8", "line\nbreak\r", "sep\u{2028}\u{2029}end", "q\\\"r", "${x}`t`"];
        paths.push(nasty[rng.below(nasty.len())].to_string());
        paths.push(nasty[rng.below(nasty.len())].to_string());
        paths.dedup();
    }
    let mut files = vec![];
    let mut features: std::collections::BTreeMap<&'static str, usize> = Default::default();
    for (i, p) in paths.iter().enumerate() {
        // includes refer to later files only (no cycles); spelled relative or absolute, with or without suffix
        let mut inc = vec![];
        for q in paths.iter().skip(i + 1) {
            if q.contains('"') || q.contains('\'') || q.contains('\\') || q.contains('\n') || q.contains('\u{2028}') || q.contains('$') {
                continue;
            }
            inc.push(format!("/{}", q));
            inc.push(format!("/{}.wxml", q));
        }
        let cfg = TmplCfg { max_depth: cfg_depth, allow_include: inc, ..Default::default() };
        let mut g = TmplGen::new(rng, cfg);
        let mut src = g.file();
        if odd_names && g.rng.chance(1, 2) {
            src.push_str("<wxs module=\"od'd\\m\">exports.x = 1</wxs><v.w-1_ a.b-c=\"1\" slot:a.1 slot:x-y.z=\"q\">{{a}}</v.w-1_>");
        }
        for (k, v) in g.features.iter() {
            *features.entry(k).or_insert(0) += v;
        }
        files.push((p.clone(), src));
    }
    let scripts = if rng.chance(1, 2) {
        vec![
            ("lib/util".to_string(), "exports.f = function (x) { return x + 1 }".to_string()),
            ("it's\\odd".to_string(), "exports.y = 2 // trailing comment\n".to_string()),
            ("lib/nl".to_string(), "exports.z = 3 // trailing comment without a newline".to_string()),
        ]
    } else {
        vec![]
    };
    GenGroup { files, scripts, features }
}

pub fn build(g: &GenGroup, dev: bool) -> TmplGroup {
    let mut tg = if dev { TmplGroup::new_dev() } else { TmplGroup::new() };
    for (p, s) in &g.files {
        { crate::util::note_input(&*s); tg.add_tmpl(p, s) };
    }
    for (p, s) in &g.scripts {
        tg.add_script(p, s);
    }
    tg
}

pub fn all_artefacts(tg: &TmplGroup, paths: &[String]) -> Vec<(String, String)> {
    let mut v = vec![];
    for p in paths {
        if let Ok(s) = tg.get_tmpl_gen_object(p) {
            v.push((format!("tmpl_gen_object:{}", p), s));
        }
    }
    if let Ok(s) = tg.get_tmpl_gen_object_groups() {
        v.push(("tmpl_gen_object_groups".into(), s));
    }
    if let Ok(s) = tg.get_wx_gen_object_groups() {
        v.push(("wx_gen_object_groups".into(), s));
    }
    v.push(("runtime_string".into(), tg.get_runtime_string()));
    if let Ok(s) = tg.export_globals() {
        v.push(("export_globals".into(), s));
    }
    if let Ok(s) = tg.export_all_scripts() {
        v.push(("export_all_scripts".into(), s));
    }
    v
}

fn emit(out: &mut Out, id: &str, kind: &str, src: &str, wxml: Option<&str>) {
    let j = serde_json::json!({"kind": "artefact", "id": id, "artefact": kind, "src": src, "wxml": wxml});
    out.raw(&j.to_string());
}

pub fn artefacts(tier: &str, seed: u64, out: &mut Out) {
    let mut rng = Rng::new(seed ^ 0xa27);
    let thorough = tier == "thorough";
    let n_groups = if thorough { 400 } else { 60 };
    let mut features: std::collections::BTreeMap<&'static str, usize> = Default::default();
    for gi in 0..n_groups {
        let n_files = 1 + rng.below(4);
        let depth = 2 + rng.below(2);
        let g = gen_group(&mut rng, n_files, depth, gi % 3 == 0);
        for (k, v) in g.features.iter() {
            *features.entry(k).or_insert(0) += v;
        }
        let dev = gi % 4 == 1;
        let mut tg = build(&g, dev);
        if gi % 5 == 2 {
            tg.set_extra_runtime_script("var extra = 1;");
        }
        let paths: Vec<String> = g.files.iter().map(|x| x.0.clone()).collect();
        let all_src: String = g.files.iter().map(|(p, s)| format!("=== {} ===\n{}\n", p, s)).collect();
        for (kind, src) in all_artefacts(&tg, &paths) {
            emit(out, &format!("g{}", gi), &kind, &src, Some(&all_src));
        }
    }
    // hand-written shapes: l-value paths of a member of a conditional with a path-less branch (model:, wx:for list, event and
    // change: bindings on module members), inline modules whose names need escaping
    let hand = [
        "<input model:value=\"{{ (a ? b : 1).c }}\" model:w=\"{{ (a ? null : o).k.j }}\"/><v wx:for=\"{{ (a ? l : [1]).x }}\">{{ item }}</v><v model:u=\"{{ (a ? f() : o).k }}\" model:t=\"{{ (a ? (b ? o : 2) : o).k }}\"/>",
        "<wxs module=\"m\">exports.o = {}</wxs><v bind:tap=\"{{ (a ? m.o : 1).f }}\" change:p=\"{{ (a ? 2 : m.o).g }}\"/>",
        "<wxs module='a\"b'>exports.x = 1</wxs><wxs module=\"a\\u\">exports.x = 2</wxs><wxs module=\"a\\\">exports.x = 3</wxs><wxs module=\"a\nb\">exports.x = 4</wxs><wxs module=\"q'${x}`\">exports.x = 5</wxs><v/>",
    ];
    for (i, s) in hand.iter().enumerate() {
        for dev in [false, true] {
            let mut tg = if dev { TmplGroup::new_dev() } else { TmplGroup::new() };
            { crate::util::note_input(*s); tg.add_tmpl("pages/h", s) };
            for (kind, src) in all_artefacts(&tg, &["pages/h".to_string()]) {
                emit(out, &format!("hand{}{}", i, if dev { "d" } else { "" }), &kind, &src, Some(s));
            }
        }
    }
    // malformed templates still have to produce valid JavaScript
    let bad = [
        "<v a=\"{{ a +\"/>", "<v", "<v a=\"{{ 0xg }}\">{{", "</v><w>", "<v wx:for=\"{{l}}\" wx:for-item=\"1x\" wx:for-index=\"a-b\">{{a-b}}</v>",
        "<template is=\"{{\"/>", "<slot name=\"{{ ? }}\"/>", "<wxs module=\"1m\">var x = 1</wxs>{{1m}}", "<v a='{{ [ , , ] }}' b={{c}} c=d\u{3000}e>\u{0}1</v>",
        "<include src=\"\"/><import/><wxs/>", "<v slot:1a slot:a.1=\"b c\"/>", "<block wx:if=\"{{a}}\"/><block wx:else wx:elif=\"{{b}}\"/>",
    ];
    for (i, s) in bad.iter().enumerate() {
        let mut tg = TmplGroup::new();
        { crate::util::note_input(&*s); tg.add_tmpl("bad", s) };
        for (kind, src) in all_artefacts(&tg, &["bad".to_string()]) {
            emit(out, &format!("bad{}", i), &kind, &src, Some(s));
        }
    }
    // every control / quote character before every character that could extend an escape sequence
    let firsts: Vec<char> = (0u32..0x20).filter_map(char::from_u32).chain("\"'\\`$\u{7f}\u{2028}\u{2029}".chars()).collect();
    for (i, c) in firsts.iter().enumerate() {
        let mut s = String::new();
        for d in "0123456789abfnrtuvx\\{}$`".chars() {
            if *c == '<' || *c == '{' {
                continue;
            }
            s.push_str(&format!("<v>{}{}</v>", c, d));
            if *c != '"' && *c != '\\' && *c != '\n' && *c != '\r' {
                s.push_str(&format!("<v a='{}{}' b='{{{{ \"{}{}\" }}}}'/>", c, d, c, d));
            }
        }
        let mut tg = TmplGroup::new();
        { crate::util::note_input(&*s); tg.add_tmpl("lit", &s) };
        for (kind, src) in all_artefacts(&tg, &["lit".to_string()]) {
            emit(out, &format!("lit{}", i), &kind, &src, Some(&s));
        }
    }
    // the operator matrix: every operator x operand position x child shape (depth 2), each expression in a text, an
    // attribute, a list and a template-data position, 40 expressions per template (token gluing such as `a++b`, `a--b`,
    // `a- -b`, `typeof typeof`, `1.x` shows up as a syntax error of the artefact)
    let all = crate::gen::exhaustive_depth2();
    for (ci, chunk) in all.chunks(40).enumerate() {
        let mut s = String::from("<template name=\"t\">t</template>");
        for e in chunk {
            let mut no_extra = || false;
            let t = e.wxml(&mut no_extra);
            if t.contains('"') {
                continue;
            }
            s.push_str(&format!("<v a=\"{{{{ {} }}}}\" b=\"x{{{{ {} }}}}y\">{{{{ {} }}}}</v><block wx:for=\"{{{{ {} }}}}\">i</block><template is=\"t\" data=\"{{{{ k: {} }}}}\"/>\n", t, t, t, t, t));
        }
        let mut tg = TmplGroup::new();
        { crate::util::note_input(&*s); tg.add_tmpl("ops", &s) };
        for (kind, src) in all_artefacts(&tg, &["ops".to_string()]) {
            emit(out, &format!("ops{}", ci), &kind, &src, Some(&s));
        }
    }
    // size-scaled: many declarations in one template (each node declares top-scope identifiers)
    let sizes: Vec<usize> = if thorough { vec![1200, 3000, 110_000] } else { vec![1200, 3000] };
    for n in sizes {
        let mut s = String::new();
        for i in 0..n {
            s.push_str(&format!("<v wx:if=\"{{{{a{}}}}}\" b=\"{{{{c[{}]}}}}\">x</v>", i % 7, i % 3));
        }
        let mut tg = TmplGroup::new();
        { crate::util::note_input(&*s); tg.add_tmpl("big", &s) };
        let js = tg.get_tmpl_gen_object("big").unwrap_or_default();
        emit(out, &format!("big{}", n), "tmpl_gen_object:big", &js, None);
    }
    let j = serde_json::json!({"kind": "features", "features": features});
    out.raw(&j.to_string());
}
