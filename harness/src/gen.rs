//! Generators: abstract expressions (with two printers: WXML concrete syntax and a fully
//! parenthesised reference JavaScript translation), data environments, templates.
use crate::util::Rng;

#[derive(Clone, Debug)]
pub enum GE {
    Ident(String),
    Undef,
    Null,
    Bool(bool),
    Num(String), // source spelling (decimal / hex / octal / float); valid in both WXML and JS
    Str(String),
    Arr(Vec<GA>),
    Obj(Vec<GO>),
    Member(Box<GE>, String),
    Index(Box<GE>, Box<GE>),
    Call(Box<GE>, Vec<GE>),
    Un(&'static str, Box<GE>),
    Bin(&'static str, Box<GE>, Box<GE>),
    Cond(Box<GE>, Box<GE>, Box<GE>),
}

#[derive(Clone, Debug)]
pub enum GA {
    Item(GE),
    Spread(GE),
    Hole,
}

#[derive(Clone, Debug)]
pub enum GO {
    Named(String, GE),
    Short(String),
    Spread(GE),
}

pub const UNOPS: [&str; 6] = ["!", "~", "+", "-", "typeof", "void"];
pub const BINOPS: [&str; 23] = [
    "*", "/", "%", "+", "-", "<<", ">>", ">>>", "<", ">", "<=", ">=", "instanceof", "==", "!=", "===", "!==", "&", "^",
    "|", "&&", "||", "??",
];

/// ECMAScript precedence level of a binary operator (higher binds tighter)
pub fn bin_prec(op: &str) -> u8 {
    match op {
        "*" | "/" | "%" => 12,
        "+" | "-" => 11,
        "<<" | ">>" | ">>>" => 10,
        "<" | ">" | "<=" | ">=" | "instanceof" => 9,
        "==" | "!=" | "===" | "!==" => 8,
        "&" => 7,
        "^" => 6,
        "|" => 5,
        "&&" => 4,
        "||" => 3,
        "??" => 3,
        _ => unreachable!(),
    }
}

impl GE {
    /// precedence of the node: 15 primary/member/call, 14 unary, binary as above, 2 conditional
    pub fn prec(&self) -> u8 {
        match self {
            GE::Un(..) => 14,
            GE::Bin(op, ..) => bin_prec(op),
            GE::Cond(..) => 2,
            _ => 15,
        }
    }

    /// WXML concrete syntax with the parentheses JavaScript requires (plus optional redundant
    /// ones chosen by `extra`), so that the intended grouping is exactly this tree.
    pub fn wxml(&self, extra: &mut dyn FnMut() -> bool) -> String {
        match self {
            GE::Ident(s) => s.clone(),
            GE::Undef => "undefined".into(),
            GE::Null => "null".into(),
            GE::Bool(b) => b.to_string(),
            GE::Num(s) => s.clone(),
            GE::Str(s) => wxml_str_lit(s),
            GE::Arr(items) => {
                let mut o = String::from("[");
                for (i, it) in items.iter().enumerate() {
                    match it {
                        GA::Item(e) => o.push_str(&e.wxml_at(2, false, extra)),
                        GA::Spread(e) => {
                            o.push_str("...");
                            o.push_str(&e.wxml_at(2, false, extra));
                        }
                        GA::Hole => {}
                    }
                    let last = i + 1 == items.len();
                    if !last || matches!(it, GA::Hole) {
                        o.push(',');
                    }
                }
                o.push(']');
                o
            }
            GE::Obj(fields) => {
                let mut o = String::from("{");
                for (i, f) in fields.iter().enumerate() {
                    if i > 0 {
                        o.push(',');
                    }
                    match f {
                        GO::Named(k, v) => {
                            o.push_str(k);
                            o.push(':');
                            o.push_str(&v.wxml_at(2, false, extra));
                        }
                        GO::Short(k) => o.push_str(k),
                        GO::Spread(v) => {
                            o.push_str("...");
                            o.push_str(&v.wxml_at(2, false, extra));
                        }
                    }
                }
                o.push('}');
                o
            }
            GE::Member(o, k) => format!("{}.{}", o.wxml_member_obj(extra), k),
            GE::Index(o, k) => format!("{}[{}]", o.wxml_member_obj(extra), k.wxml_at(2, false, extra)),
            GE::Call(f, args) => {
                let a: Vec<String> = args.iter().map(|x| x.wxml_at(2, false, extra)).collect();
                format!("{}({})", f.wxml_member_obj(extra), a.join(","))
            }
            GE::Un(op, e) => {
                let inner = e.wxml_at(14, false, extra);
                let sep = if op.len() > 1 || inner.starts_with(op) { " " } else { "" };
                format!("{}{}{}", op, sep, inner)
            }
            GE::Bin(op, l, r) => {
                let p = bin_prec(op);
                // left-associative: left child may be the same level, right child must be tighter.
                // `??` must not be mixed with `||` / `&&` without parentheses.
                let (lp, rp) = if *op == "??" || *op == "||" || *op == "&&" {
                    let mixed = |c: &GE| match c {
                        GE::Bin(o2, ..) => (*op == "??") != (*o2 == "??") && (*o2 == "??" || *o2 == "||" || *o2 == "&&"),
                        _ => false,
                    };
                    (if mixed(l) { 15 } else { p }, if mixed(r) { 15 } else { p + 1 })
                } else {
                    (p, p + 1)
                };
                let ls = l.wxml_at(lp, false, extra);
                let rs = r.wxml_at(rp, false, extra);
                let spaced = op.chars().next().unwrap().is_alphabetic();
                // avoid `a+ +b` / `a- -b` gluing into `++` / `--`, and `a< !--` style comment starts
                let glue = (op.ends_with('+') && rs.starts_with('+')) || (op.ends_with('-') && rs.starts_with('-'));
                if spaced || glue {
                    format!("{} {} {}", ls, op, rs)
                } else {
                    format!("{}{}{}", ls, op, rs)
                }
            }
            GE::Cond(c, t, f) => format!(
                "{}?{}:{}",
                c.wxml_at(3, false, extra),
                t.wxml_at(2, true, extra),
                f.wxml_at(2, false, extra)
            ),
        }
    }

    fn wxml_member_obj(&self, extra: &mut dyn FnMut() -> bool) -> String {
        // object of a member / call: needs primary level; numeric literals need parentheses (`1.a`)
        let s = self.wxml(extra);
        let need = self.prec() < 15 || matches!(self, GE::Num(_)) || matches!(self, GE::Obj(_));
        if need || extra() {
            format!("({})", s)
        } else {
            s
        }
    }

    /// print at a position that accepts precedence >= `min`
    fn wxml_at(&self, min: u8, cond_true_branch: bool, extra: &mut dyn FnMut() -> bool) -> String {
        let s = self.wxml(extra);
        // `c ? .5 : x` : "?." followed by a digit is handled by the parser; `c?.5` is fine in JS too
        let _ = cond_true_branch;
        if self.prec() < min || extra() {
            format!("({})", s)
        } else {
            s
        }
    }

    /// Reference translation: fully parenthesised JavaScript over `D` (data) and scope variables,
    /// with the documented helper semantics: X (null-safe object), P (callable-or-noop).
    pub fn reference_js(&self, scope: &dyn Fn(&str) -> Option<String>) -> String {
        match self {
            GE::Ident(s) => match scope(s) {
                Some(v) => v,
                None => format!("D.{}", s),
            },
            GE::Undef => "undefined".into(),
            GE::Null => "null".into(),
            GE::Bool(b) => b.to_string(),
            GE::Num(s) => js_num(s),
            GE::Str(s) => js_str_lit(s),
            GE::Arr(items) => {
                let mut o = String::from("[");
                for (i, it) in items.iter().enumerate() {
                    match it {
                        GA::Item(e) => o.push_str(&format!("({})", e.reference_js(scope))),
                        GA::Spread(e) => o.push_str(&format!("...REFSPREAD({})", e.reference_js(scope))),
                        GA::Hole => {}
                    }
                    let last = i + 1 == items.len();
                    if !last || matches!(it, GA::Hole) {
                        o.push(',');
                    }
                }
                o.push(']');
                o
            }
            GE::Obj(fields) => {
                let mut o = String::from("({");
                for (i, f) in fields.iter().enumerate() {
                    if i > 0 {
                        o.push(',');
                    }
                    match f {
                        GO::Named(k, v) => o.push_str(&format!("{}:({})", k, v.reference_js(scope))),
                        GO::Short(k) => o.push_str(&format!("{}:({})", k, GE::Ident(k.clone()).reference_js(scope))),
                        GO::Spread(v) => o.push_str(&format!("...X({})", v.reference_js(scope))),
                    }
                }
                o.push_str("})");
                o
            }
            GE::Member(o, k) => format!("(X({}).{})", o.reference_js(scope), k),
            GE::Index(o, k) => format!("(X({})[{}])", o.reference_js(scope), k.reference_js(scope)),
            GE::Call(f, args) => {
                let a: Vec<String> = args.iter().map(|x| format!("({})", x.reference_js(scope))).collect();
                format!("(P({})({}))", f.reference_js(scope), a.join(","))
            }
            GE::Un(op, e) => format!("({} ({}))", op, e.reference_js(scope)),
            GE::Bin(op, l, r) => format!("(({}) {} ({}))", l.reference_js(scope), op, r.reference_js(scope)),
            GE::Cond(c, t, f) => format!(
                "(({}) ? ({}) : ({}))",
                c.reference_js(scope),
                t.reference_js(scope),
                f.reference_js(scope)
            ),
        }
    }

    pub fn size(&self) -> usize {
        match self {
            GE::Arr(items) => 1 + items.iter().map(|x| match x { GA::Item(e) | GA::Spread(e) => e.size(), GA::Hole => 1 }).sum::<usize>(),
            GE::Obj(fs) => 1 + fs.iter().map(|x| match x { GO::Named(_, e) | GO::Spread(e) => e.size(), GO::Short(_) => 1 }).sum::<usize>(),
            GE::Member(o, _) => 1 + o.size(),
            GE::Index(o, k) => 1 + o.size() + k.size(),
            GE::Call(f, a) => 1 + f.size() + a.iter().map(|x| x.size()).sum::<usize>(),
            GE::Un(_, e) => 1 + e.size(),
            GE::Bin(_, l, r) => 1 + l.size() + r.size(),
            GE::Cond(c, t, f) => 1 + c.size() + t.size() + f.size(),
            _ => 1,
        }
    }

    pub fn kind(&self) -> &'static str {
        match self {
            GE::Ident(_) => "ident",
            GE::Undef => "undefined",
            GE::Null => "null",
            GE::Bool(_) => "bool",
            GE::Num(_) => "num",
            GE::Str(_) => "str",
            GE::Arr(_) => "arr",
            GE::Obj(_) => "obj",
            GE::Member(..) => "member",
            GE::Index(..) => "index",
            GE::Call(..) => "call",
            GE::Un(op, _) => op,
            GE::Bin(op, ..) => op,
            GE::Cond(..) => "cond",
        }
    }
}

/// JS spelling of a WXML number literal: a leading-zero octal `017` is `0o17` in strict JS
pub fn js_num(s: &str) -> String {
    let b = s.as_bytes();
    if b.len() > 1 && b[0] == b'0' && b[1..].iter().all(|c| (b'0'..=b'7').contains(c)) {
        format!("0o{}", &s[1..])
    } else if b.len() > 1 && b[0] == b'0' && b[1..].iter().all(|c| c.is_ascii_digit()) {
        // `089` : decimal with a leading zero (legacy); strip zeros
        let t = s.trim_start_matches('0');
        if t.is_empty() { "0".into() } else { t.to_string() }
    } else {
        s.to_string()
    }
}

pub fn wxml_str_lit(s: &str) -> String {
    let mut o = String::from("'");
    for c in s.chars() {
        match c {
            '\'' => o.push_str("\\'"),
            '\\' => o.push_str("\\\\"),
            '"' => o.push_str("\\x22"),
            '\n' => o.push_str("\\n"),
            '\r' => o.push_str("\\r"),
            '\t' => o.push_str("\\t"),
            '\0' => o.push_str("\\0"),
            c if (c as u32) < 0x20 => o.push_str(&format!("\\x{:02x}", c as u32)),
            '{' => o.push_str("\\x7b"),
            '}' => o.push_str("\\x7d"),
            '&' => o.push_str("\\x26"),
            '<' => o.push_str("\\x3c"),
            c => o.push(c),
        }
    }
    o.push('\'');
    o
}

pub fn js_str_lit(s: &str) -> String {
    let mut o = String::from("\"");
    for c in s.chars() {
        match c {
            '"' => o.push_str("\\\""),
            '\\' => o.push_str("\\\\"),
            '\n' => o.push_str("\\n"),
            '\r' => o.push_str("\\r"),
            '\u{2028}' => o.push_str("\\u2028"),
            '\u{2029}' => o.push_str("\\u2029"),
            c if (c as u32) < 0x20 => o.push_str(&format!("\\x{:02x}", c as u32)),
            c => o.push(c),
        }
    }
    o.push('"');
    o
}

pub const DATA_FIELDS: [&str; 8] = ["a", "b", "c", "d", "o", "l", "f", "s"];
// (names inherited from Object.prototype: a null-safe read of them on null / undefined must still be undefined)
pub const MEMBER_NAMES: [&str; 10] = ["a", "b", "x", "length", "n0", "o", "toString", "valueOf", "constructor", "hasOwnProperty"];
pub const NUMS: [&str; 22] = [
    "0", "1", "2", "7", "10", "255", "0x1f", "0xFF", "017", "08", "1.5", ".5", "5.", "1e3", "1e-3", "2.5e2", "9007199254740993",
    "9223372036854775807", "9223372036854775808", "0xffffffffffffffffff", "1e999", "0.1",
];
pub const STRS: [&str; 14] = ["", "a", "x", "length", "1", "0", " ", "\u{0}1", "it's \"q\" \\ \n", "汉\u{1f600}", "z\u{200b}\u{7f}\u{8}\u{1b}w", "\t\r\u{b}\u{c}\u{2028}",
    "\u{1}f\u{2}", "\u{e}\u{f}0\u{7}\u{10}a"];

pub struct ExprGen<'a> {
    pub rng: &'a mut Rng,
    pub idents: Vec<String>, // names usable as free identifiers (data fields and scope names)
    pub allow_instanceof: bool,
}

impl<'a> ExprGen<'a> {
    pub fn leaf(&mut self) -> GE {
        match self.rng.below(12) {
            0 | 1 | 2 | 3 => GE::Ident(self.rng.pick(&self.idents).clone()),
            4 => GE::Undef,
            5 => GE::Null,
            6 => GE::Bool(self.rng.chance(1, 2)),
            7 | 8 => GE::Num(self.rng.pick(&NUMS).to_string()),
            9 | 10 => GE::Str(self.rng.pick(&STRS).to_string()),
            _ => GE::Ident(self.rng.pick(&self.idents).clone()),
        }
    }

    pub fn gen(&mut self, depth: usize) -> GE {
        if depth == 0 {
            return self.leaf();
        }
        match self.rng.below(20) {
            0 | 1 => self.leaf(),
            2 | 3 => GE::Member(Box::new(self.gen(depth - 1)), self.rng.pick(&MEMBER_NAMES).to_string()),
            4 => GE::Index(Box::new(self.gen(depth - 1)), Box::new(self.gen(depth - 1))),
            5 => {
                let n = self.rng.below(3);
                let mut f = self.gen(depth - 1);
                // a callee is invoked as a plain function: `x.valueOf()` / `x.hasOwnProperty()` then run the built-in without
                // a receiver and throw by JavaScript's own rules, which says nothing about the compiler
                if let GE::Member(o, name) = &f {
                    if name == "valueOf" || name == "hasOwnProperty" {
                        f = GE::Member(o.clone(), "a".into());
                    }
                }
                GE::Call(Box::new(f), (0..n).map(|_| self.gen(depth - 1)).collect())
            }
            6 | 7 => {
                let op: &'static str = *self.rng.pick(&UNOPS[..]);
                GE::Un(op, Box::new(self.gen(depth - 1)))
            }
            8 => {
                let n = self.rng.below(4);
                GE::Arr(
                    (0..n)
                        .map(|_| match self.rng.below(6) {
                            0 => GA::Hole,
                            1 => GA::Spread(self.gen(depth - 1)),
                            _ => GA::Item(self.gen(depth - 1)),
                        })
                        .collect(),
                )
            }
            9 => {
                let n = self.rng.below(4);
                let mut used: Vec<String> = vec![];
                let mut fs = vec![];
                for _ in 0..n {
                    match self.rng.below(5) {
                        0 => fs.push(GO::Spread(self.gen(depth - 1))),
                        1 => {
                            let k = self.rng.pick(&self.idents).clone();
                            if !used.contains(&k) {
                                used.push(k.clone());
                                fs.push(GO::Short(k));
                            }
                        }
                        _ => {
                            // (own keys only: an own `toString` / `valueOf` would change how the object converts)
                            let k = self.rng.pick(&MEMBER_NAMES[..6]).to_string();
                            if !used.contains(&k) {
                                used.push(k.clone());
                                fs.push(GO::Named(k, self.gen(depth - 1)));
                            }
                        }
                    }
                }
                GE::Obj(fs)
            }
            10 => GE::Cond(Box::new(self.gen(depth - 1)), Box::new(self.gen(depth - 1)), Box::new(self.gen(depth - 1))),
            _ => {
                let mut op: &'static str = *self.rng.pick(&BINOPS[..]);
                if op == "instanceof" && !self.allow_instanceof {
                    op = "<";
                }
                let r = if op == "instanceof" { GE::Ident("f".into()) } else { self.gen(depth - 1) };
                GE::Bin(op, Box::new(self.gen(depth - 1)), Box::new(r))
            }
        }
    }
}

/// all expressions `op(child...)` for every operator x operand position x child shape (depth 2)
pub fn exhaustive_depth2() -> Vec<GE> {
    let a = || Box::new(GE::Ident("a".into()));
    let b = || Box::new(GE::Ident("b".into()));
    let c = || Box::new(GE::Ident("c".into()));
    let mut shapes: Vec<GE> = vec![];
    // one representative per constructor / operator, over identifiers
    shapes.push(GE::Ident("a".into()));
    shapes.push(GE::Num("1".into()));
    shapes.push(GE::Num("1.5".into()));
    shapes.push(GE::Str("s".into()));
    shapes.push(GE::Null);
    shapes.push(GE::Arr(vec![GA::Item(*a()), GA::Hole, GA::Spread(*b())]));
    shapes.push(GE::Obj(vec![GO::Named("x".into(), *a()), GO::Short("b".into()), GO::Spread(*c())]));
    shapes.push(GE::Member(a(), "x".into()));
    shapes.push(GE::Index(a(), b()));
    shapes.push(GE::Call(a(), vec![*b()]));
    for op in UNOPS {
        shapes.push(GE::Un(op, a()));
    }
    for op in BINOPS {
        if op == "instanceof" {
            shapes.push(GE::Bin(op, a(), Box::new(GE::Ident("f".into()))));
        } else {
            shapes.push(GE::Bin(op, a(), b()));
        }
    }
    shapes.push(GE::Cond(a(), b(), c()));
    let mut out = vec![];
    let rename = |e: &GE, suffix: &str| -> GE { rename_idents(e, suffix) };
    for p in &shapes {
        out.push(p.clone());
    }
    for child in &shapes {
        let ch = |s: &str| Box::new(rename(child, s));
        out.push(GE::Member(ch("1"), "x".into()));
        out.push(GE::Index(ch("1"), ch("2")));
        out.push(GE::Index(a(), ch("1")));
        out.push(GE::Call(ch("1"), vec![*ch("2")]));
        out.push(GE::Arr(vec![GA::Item(*ch("1")), GA::Spread(*ch("2"))]));
        out.push(GE::Obj(vec![GO::Named("x".into(), *ch("1")), GO::Spread(*ch("2"))]));
        for op in UNOPS {
            out.push(GE::Un(op, ch("1")));
        }
        for op in BINOPS {
            if op == "instanceof" {
                out.push(GE::Bin(op, ch("1"), Box::new(GE::Ident("f".into()))));
                continue;
            }
            out.push(GE::Bin(op, ch("1"), b()));
            out.push(GE::Bin(op, a(), ch("1")));
            out.push(GE::Bin(op, ch("1"), ch("2")));
        }
        out.push(GE::Cond(ch("1"), b(), c()));
        out.push(GE::Cond(a(), ch("1"), c()));
        out.push(GE::Cond(a(), b(), ch("1")));
    }
    out
}

pub fn rename_idents(e: &GE, suffix: &str) -> GE {
    // idents a,b,c -> a,b,c or d,o,l depending on suffix so both operands read different data
    let map = |s: &str| -> String {
        if suffix == "2" {
            match s {
                "a" => "d".to_string(),
                "b" => "o".to_string(),
                "c" => "s".to_string(),
                x => x.to_string(),
            }
        } else {
            s.to_string()
        }
    };
    match e {
        GE::Ident(s) => GE::Ident(map(s)),
        GE::Arr(items) => GE::Arr(
            items
                .iter()
                .map(|x| match x {
                    GA::Item(e) => GA::Item(rename_idents(e, suffix)),
                    GA::Spread(e) => GA::Spread(rename_idents(e, suffix)),
                    GA::Hole => GA::Hole,
                })
                .collect(),
        ),
        GE::Obj(fs) => GE::Obj(
            fs.iter()
                .map(|x| match x {
                    GO::Named(k, e) => GO::Named(k.clone(), rename_idents(e, suffix)),
                    GO::Short(k) => GO::Short(map(k)),
                    GO::Spread(e) => GO::Spread(rename_idents(e, suffix)),
                })
                .collect(),
        ),
        GE::Member(o, k) => GE::Member(Box::new(rename_idents(o, suffix)), k.clone()),
        GE::Index(o, k) => GE::Index(Box::new(rename_idents(o, suffix)), Box::new(rename_idents(k, suffix))),
        GE::Call(f, a) => GE::Call(Box::new(rename_idents(f, suffix)), a.iter().map(|x| rename_idents(x, suffix)).collect()),
        GE::Un(op, e) => GE::Un(op, Box::new(rename_idents(e, suffix))),
        GE::Bin(op, l, r) => GE::Bin(op, Box::new(rename_idents(l, suffix)), Box::new(rename_idents(r, suffix))),
        GE::Cond(c, t, f) => GE::Cond(
            Box::new(rename_idents(c, suffix)),
            Box::new(rename_idents(t, suffix)),
            Box::new(rename_idents(f, suffix)),
        ),
        x => x.clone(),
    }
}

// ---------------------------------------------------------------- data environments (JSON with markers, see jsrt/rt.js)

pub fn edge_values() -> Vec<serde_json::Value> {
    use serde_json::json;
    vec![
        json!(0),
        json!({"$n0": 1}),
        json!(1),
        json!(-1),
        json!(2.5),
        json!(""),
        json!("a"),
        json!("1"),
        json!("x"),
        // strings whose code points and UTF-16 code units differ (spread, index, length)
        json!("x\u{1f600}y"),
        json!("\u{1f600}"),
        json!({"$nan": 1}),
        json!(null),
        json!({"$u": 1}),
        json!(true),
        json!(false),
        json!({"$a": [1, 2, 3]}),
        json!({"$a": []}),
        json!({"$o": {"a": 1, "b": {"$o": {"x": "deep"}}, "x": 0, "length": 7, "n0": {"$n0": 1}, "o": {"$o": {"a": {"$a": [5]}}}}}),
        json!({"$o": {}}),
        json!({"$fn": "fa"}),
        json!({"$a": [{"$o": {"a": 1, "x": "p"}}, {"$o": {"a": 2, "x": "q"}}]}),
        json!(4294967296.0),
        json!({"$inf": 1}),
    ]
}

pub fn random_data(rng: &mut Rng) -> serde_json::Value {
    let pool = edge_values();
    let mut m = serde_json::Map::new();
    for f in DATA_FIELDS {
        let v = match f {
            "f" => serde_json::json!({"$fn": "ff"}),
            "l" => match rng.below(4) {
                0 => serde_json::json!({"$a": [1, 2, 3]}),
                1 => serde_json::json!({"$a": [{"$o": {"a": 1, "x": "p"}}, {"$o": {"a": 2, "x": "q"}}]}),
                2 => serde_json::json!({"$o": {"k1": "v1", "k2": "v2"}}),
                _ => rng.pick(&pool).clone(),
            },
            "o" => match rng.below(3) {
                0 => rng.pick(&pool).clone(),
                _ => serde_json::json!({"$o": {"a": 1, "b": {"$o": {"x": "deep"}}, "x": 0, "length": 7, "o": {"$o": {"a": {"$a": [5]}}}}}),
            },
            _ => rng.pick(&pool).clone(),
        };
        m.insert(f.to_string(), v);
    }
    serde_json::json!({ "$o": m })
}
