//! C12: string constants. `lit` = hook-level cases for the model; `litctx` = whole-pipeline jobs for node.
use crate::util::*;
use glass_easel_template_compiler::verif_hooks as hooks;
use glass_easel_template_compiler::TmplGroup;

fn is_scalar(c: u32) -> bool {
    char::from_u32(c).is_some()
}

/// esc_u as the implementation shows it on a single character
fn esc_flag(c: char) -> bool {
    let mut s = String::new();
    s.push(c);
    hooks::gen_lit_str(&s).starts_with("\"\\u{")
}

fn flags_of(s: &str) -> String {
    s.chars().map(|c| if esc_flag(c) { '1' } else { '0' }).collect()
}

fn lit_case(out: &mut Out, s: &str) {
    let r = hooks::gen_lit_str(s);
    out.case(&["lit_str", &flags_of(s), &enc(s)], &enc(&r));
}

pub fn run(tier: &str, seed: u64, out: &mut Out) {
    let mut rng = Rng::new(seed);
    let thorough = tier == "thorough";
    // 1. every Unicode scalar value alone and before each critical successor
    let succ_quick: &[&str] = &["", "0", "8", "\""];
    let succ_full: &[&str] = &["", "0", "7", "8", "9", "a", "f", "\"", "'", "\\", "{", "}", "\u{0}", "\n", "\u{2028}"];
    let succ = if thorough { succ_full } else { succ_quick };
    let mut buf = String::new();
    for c in 0u32..=0x10FFFF {
        let Some(ch) = char::from_u32(c) else { continue };
        for s in succ {
            buf.clear();
            buf.push(ch);
            buf.push_str(s);
            lit_case(out, &buf);
        }
    }
    // 2. random strings over a pool rich in specials
    let pool: Vec<char> = "\0\x01\x07\x08\t\n\x0b\x0c\r\x1b \"'\\/0189afxu{}<>&;$`\u{7f}\u{80}\u{a0}\u{ad}\u{300}\u{301}\u{200b}\u{2028}\u{2029}\u{d7ff}\u{e000}\u{feff}\u{fffd}\u{ffff}\u{10000}\u{1f600}\u{e0100}\u{10ffff}汉é"
        .chars()
        .collect();
    let n = if thorough { 400_000 } else { 60_000 };
    for _ in 0..n {
        let len = rng.below(9);
        buf.clear();
        for _ in 0..len {
            if rng.chance(1, 8) {
                loop {
                    let c = (rng.next() % 0x110000) as u32;
                    if let Some(ch) = char::from_u32(c) {
                        buf.push(ch);
                        break;
                    }
                }
            } else {
                buf.push(*rng.pick(&pool));
            }
        }
        lit_case(out, &buf);
    }
    // 3. numeric character references: every code point (thorough) / boundaries + sample (quick)
    let mut ent = |out: &mut Out, e: &str| {
        let r = hooks::entities_decode(e);
        out.case(&["entity", &enc(e)], &match r {
            Some(s) => format!("S{}", enc(&s)),
            None => "N".to_string(),
        });
    };
    let step = if thorough { 1 } else { 97 };
    let mut c = 0u32;
    while c <= 0x110010 {
        ent(out, &format!("&#{};", c));
        ent(out, &format!("&#x{:x};", c));
        if c % 5 == 0 {
            ent(out, &format!("&#x{:X};", c));
            ent(out, &format!("&#{:07};", c));
        }
        c += step;
    }
    for c in [0u32, 9, 10, 0xd7ff, 0xd800, 0xdfff, 0xe000, 0xffff, 0x10000, 0x10ffff, 0x110000, 0xffffffff] {
        ent(out, &format!("&#{};", c));
        ent(out, &format!("&#x{:x};", c));
    }
    for e in ["&#4294967296;", "&#x100000000;", "&#99999999999999999999;", "&#x;", "&#;", "&#x1g;", "&#12a;", "&#x+1;", "&#+1;", "&#-1;", "&#1", "&#x41"] {
        ent(out, e);
    }
    // 4. html escapers and dash_to_camel
    let n = if thorough { 100_000 } else { 20_000 };
    let pool2: Vec<char> = "<>\"'&;-_aZ0 é\u{1f600}-{{{}".chars().collect();
    for _ in 0..n {
        let len = rng.below(8);
        buf.clear();
        for _ in 0..len {
            buf.push(*rng.pick(&pool2));
        }
        out.case(&["html_body", &enc(&buf)], &enc(&hooks::escape_html_body(&buf)));
        out.case(&["html_quote", &enc(&buf)], &enc(&hooks::escape_html_quote(&buf)));
        out.case(&["dash_to_camel", &enc(&buf)], &enc(&hooks::dash_to_camel(&buf)));
    }
    let _ = is_scalar;
}

// ---------------------------------------------------------------- whole pipeline (node decodes)

fn wxml_attr_escape(s: &str) -> String {
    // a spelling of `s` inside a double-quoted attribute / text that denotes exactly `s`
    let mut o = String::new();
    for c in s.chars() {
        match c {
            '&' => o.push_str("&amp;"),
            '"' => o.push_str("&quot;"),
            '<' => o.push_str("&lt;"),
            '{' => o.push_str("&#123;"),
            '\r' => o.push_str("&#13;"),
            c => o.push(c),
        }
    }
    o
}

fn js_str_escape_for_wxml(s: &str) -> String {
    // a WXML expression string literal '...' denoting s, inside a double-quoted attribute
    let mut o = String::from("'");
    for c in s.chars() {
        match c {
            '\'' => o.push_str("\\'"),
            '\\' => o.push_str("\\\\"),
            '"' => o.push_str("\\x22"),
            '\n' => o.push_str("\\n"),
            '\r' => o.push_str("\\r"),
            '\0' => o.push_str("\\0"),
            c if (c as u32) < 0x20 => o.push_str(&format!("\\x{:02x}", c as u32)),
            '}' => o.push_str("\\x7d"),
            '{' => o.push_str("\\x7b"),
            '&' => o.push_str("\\x26"),
            c => o.push(c),
        }
    }
    o.push('\'');
    o
}

pub fn run_ctx(tier: &str, seed: u64, out: &mut Out) {
    let mut rng = Rng::new(seed ^ 0xc12);
    let thorough = tier == "thorough";
    let boundary: Vec<String> = vec![
        "\0", "\u{0}1", "\u{0}9\u{0}", "\u{1}", "\t", "\n", "\r", "\u{b}", "\u{7f}", "'", "\"", "\\", "\\'", "\\\"", "\\\\",
        "\u{2028}", "\u{2029}", "\u{d7ff}", "\u{e000}", "\u{fffe}", "\u{ffff}", "\u{10000}", "\u{1f600}", "\u{10ffff}",
        "\u{301}", "a\u{301}", "\u{200b}", "\u{feff}", "</script>", "${x}", "`", "*/", "//", "<!--", "-->", "\\u{41}", "\\x41", "\\0",
    ]
    .into_iter()
    .map(|s| s.to_string())
    .collect();
    let pool: Vec<char> = "\0\x01\t\n\r \"'\\/0189afxu{}<>&;$`\u{7f}\u{a0}\u{301}\u{2028}\u{2029}\u{ffff}\u{1f600}\u{10ffff}汉"
        .chars()
        .collect();
    let n_rand = if thorough { 3000 } else { 400 };
    let mut strings = boundary.clone();
    for _ in 0..n_rand {
        let len = 1 + rng.below(6);
        let mut s = String::new();
        for _ in 0..len {
            s.push(*rng.pick(&pool));
        }
        strings.push(s);
    }
    for (i, s) in strings.iter().enumerate() {
        // contexts; each yields log entries we can find by channel/name
        let a = wxml_attr_escape(s);
        let lit = js_str_escape_for_wxml(s);
        // strings that are whitespace only are dropped as text nodes: guard with a marker char
        let src = format!(
            concat!(
                "<v a=\"{a}\" class=\"{a}\" style=\"{a}\" id=\"{a}\" data-k=\"{a}\" data:j=\"{a}\" mark:m=\"{a}\" ",
                "bind:e=\"{a}\" worklet:w=\"{a}\" generic:g=\"{a}\" extra-attr:x=\"{a}\" model:mo=\"{a}\" ",
                "b=\"{{{{ {lit} }}}}\" c=\"{{{{ x[{lit}] }}}}\" d=\"p{{{{ {lit} }}}}q\">T{a}T</v>",
                "<block wx:for=\"{{{{l}}}}\" wx:key=\"{a}\"><w/></block>",
                "<slot name=\"{a}\" sv=\"{a}\"/><block slot=\"{a}\">z</block>",
                "<template is=\"{a}\"/>"
            ),
            a = a,
            lit = lit
        );
        let mut g = TmplGroup::new();
        let diags = { crate::util::note_input(&*src); g.add_tmpl("p", &src) };
        let max_level = diags.iter().map(|d| d.kind.level() as u8).max().unwrap_or(0);
        let bundle = g.get_tmpl_gen_object_groups().unwrap_or_default();
        let job = serde_json::json!({
            "kind": "litctx", "id": i, "s": s.chars().map(|c| c as u32).collect::<Vec<u32>>(),
            "src": src, "max_level": max_level, "bundle": bundle, "path": "p",
        });
        out.raw(&job.to_string());
    }
}

/// identifier-shaped constants: object keys (named and shorthand), static member names, data field names, template data
/// field names - for names over the whole identifier alphabet of the expression grammar (letters, digits, `_`, `$` in any
/// position but the digits, keywords as prefixes)
pub fn run_identctx(_tier: &str, _seed: u64, out: &mut Out) {
    let names = [
        "a$b", "price$", "k$1", "$", "$_", "_$0x", "A_1", "$$", "a$$b", "typeof$x", "void$", "in$", "true$", "null_",
        "undefined1", "thisx", "_", "__", "x9", "Z", "new$", "$typeof", "instanceof_", "if", "class", "k_$_9",
    ];
    for (i, n) in names.iter().enumerate() {
        let keyword = matches!(*n, "if" | "class");
        // keywords are legal as keys and member names only
        let src = if keyword {
            format!("<v a=\"{{{{ {{{n}: 1}} }}}}\" b=\"{{{{ o.{n} }}}}\" model:mo=\"{{{{ o.{n} }}}}\"/>", n = n)
        } else {
            format!(
                concat!(
                    "<v a=\"{{{{ {{{n}: 1, q: {n}}} }}}}\" s=\"{{{{ {{{n}}} }}}}\" b=\"{{{{ o.{n} }}}}\" c=\"{{{{ {n} }}}}\" model:mo=\"{{{{ o.{n} }}}}\"/>",
                    "<template name=\"t\"><w k=\"{{{{ {n} }}}}\"/></template><template is=\"t\" data=\"{{{{ {n}: o.{n} }}}}\"/>"
                ),
                n = n
            )
        };
        let mut g = TmplGroup::new();
        let diags = { crate::util::note_input(&*src); g.add_tmpl("p", &src) };
        let max_level = diags.iter().map(|d| d.kind.level() as u8).max().unwrap_or(0);
        let bundle = g.get_tmpl_gen_object_groups().unwrap_or_default();
        let job = serde_json::json!({"kind": "identctx", "id": i, "name": n, "keyword": keyword, "src": src, "max_level": max_level, "bundle": bundle, "path": "p"});
        out.raw(&job.to_string());
    }
}

/// resolved script paths as constants: a template in a sub-directory refers to external modules by relative / absolute
/// paths with and without suffix; the path the runtime receives in l-value paths is the resolved one
pub fn run_pathctx(_tier: &str, _seed: u64, out: &mut Out) {
    let src = "<wxs module=\"m\" src=\"../../utils/fmt.wxs\"/><wxs module=\"n\" src=\"./local\"/><wxs module=\"k\" src=\"/pages/./list/../k.wxs\"/><v bind:tap=\"{{ m.f }}\" change:p=\"{{ n.g }}\" catch:x=\"{{ k.o.h }}\"/>";
    let mut g = TmplGroup::new();
    g.add_script("utils/fmt", "exports.f = function utils_fmt_f(){}");
    g.add_script("pages/list/local", "exports.g = function local_g(){}");
    g.add_script("pages/k", "exports.o = {h: function k_o_h(){}}");
    let diags = { crate::util::note_input(src); g.add_tmpl("pages/list/index", src) };
    let max_level = diags.iter().map(|d| d.kind.level() as u8).max().unwrap_or(0);
    let bundle = g.get_tmpl_gen_object_groups().unwrap_or_default();
    let job = serde_json::json!({"kind": "pathctx", "id": 0, "src": src, "max_level": max_level, "bundle": bundle, "path": "pages/list/index",
                                 "expect": {"tap": [1, "utils/fmt", "f"], "p": [1, "pages/list/local", "g"], "x": [1, "pages/k", "o", "h"]}});
    out.raw(&job.to_string());
}

/// named character references: names on stdin (one per line, without & and ;), output name \t decoded
/// code points (hook level) and, per batch of 40, the text nodes the runtime-visible parse produces
pub fn run_entnames(out: &mut Out) {
    use std::io::Read;
    let mut input = String::new();
    std::io::stdin().read_to_string(&mut input).unwrap();
    let names: Vec<&str> = input.lines().filter(|l| !l.is_empty()).collect();
    for n in &names {
        let r = hooks::entities_decode(&format!("&{};", n));
        let j = serde_json::json!({"kind": "hook", "name": n, "decoded": r.map(|s| s.chars().map(|c| c as u32).collect::<Vec<u32>>())});
        out.raw(&j.to_string());
    }
    // whole pipeline: static text and a static attribute value
    for chunk in names.chunks(40) {
        let mut src = String::new();
        for n in chunk {
            src.push_str(&format!("<v a=\"[&{};]\">[&{};]</v>", n, n));
        }
        let mut g = TmplGroup::new();
        { crate::util::note_input(&*src); g.add_tmpl("p", &src) };
        let bundle = g.get_tmpl_gen_object_groups().unwrap_or_default();
        let j = serde_json::json!({"kind": "e2e", "names": chunk, "bundle": bundle, "src": src});
        out.raw(&j.to_string());
    }
}

/// the entity scanner: random static attribute values over an alphabet rich in `&`, `#`, `x`, digits,
/// letters and `;` (no double quote, no `{{`), decoded by the parser
pub fn run_entscan(tier: &str, seed: u64, out: &mut Out) {
    use glass_easel_template_compiler::parse::tag::{ElementKind, Node, Value};
    let mut rng = Rng::new(seed ^ 0xe27);
    let n = if tier == "thorough" { 200_000 } else { 25_000 };
    let alphabet: Vec<&str> = vec!["&", "&", "&", "#", "#", "x", "X", ";", ";", "0", "1", "9", "a", "f", "g", "A", "F", "l", "t", "amp", "lt", "gt", "quot",
                                   "frac12", "nbsp", "fjlig", "bogus", "{", "}", " ", "<", ">", "'", "é", "\u{1f600}", "123", "x41", "110000", "d800", "+", "-", "="];
    let fixed = ["&lt;", "&amp;lt;", "&#123;{", "&#x41;", "&#65;", "&#x;", "&#;", "&;", "&", "&#", "&#x", "&a", "&a;", "&amp", "&#x110000;", "&#xd800;",
                 "&#99999999999;", "&#+65;", "&#x+41;", "&frac12;", "&fjlig;", "&1a;", "&#65", "a&#65;b&lt;c&", "&&amp;;", "&#x4g;", "&#6a;"];
    let mut texts: Vec<String> = fixed.iter().map(|s| s.to_string()).collect();
    for _ in 0..n {
        let k = 1 + rng.below(7);
        let mut s = String::new();
        for _ in 0..k {
            s.push_str(*rng.pick(&alphabet));
        }
        if s.contains("{{") {
            continue;
        }
        texts.push(s);
    }
    let render = tier.ends_with("-render");
    if render {
        texts.truncate(fixed.len() + 600);
        texts.extend(["t&#9;t", "&#9;x&#09;y&#x9;", "&#7;&#65;", "a&#1;", "&#8;&#x1f;z"].iter().map(|s| s.to_string()));
    }
    for t in texts {
        let src = format!("<v a=\"{}\">[{}]</v>", t, t);
        if render {
            // whole pipeline: the value the runtime receives for the attribute and the text node
            if t.contains('<') {
                continue;
            }
            let mut g = TmplGroup::new();
            { crate::util::note_input(&*src); g.add_tmpl("p", &src) };
            let bundle = g.get_tmpl_gen_object_groups().unwrap_or_default();
            let mut named = vec![];
            let b: Vec<char> = t.chars().collect();
            let mut i = 0;
            while i < b.len() {
                if b[i] == '&' {
                    let mut j = i + 1;
                    while j < b.len() && b[j].is_ascii_alphanumeric() {
                        j += 1;
                    }
                    if j < b.len() && b[j] == ';' && j > i + 1 {
                        let e: String = b[i..=j].iter().collect();
                        if let Some(d) = hooks::entities_decode(&e) {
                            named.push(format!("{}={}", enc(&e), enc(&d)));
                        }
                    }
                }
                i += 1;
            }
            let j = serde_json::json!({"kind": "entrender", "text": t, "src": src, "bundle": bundle,
                                       "model_cmd": format!("entscan\t{}\t{}", named.join("+"), enc(&t))});
            out.raw(&j.to_string());
            continue;
        }
        let (tree, _) = glass_easel_template_compiler::parse::parse("p", &src);
        let got = match tree.content.get(0) {
            Some(Node::Element(el)) => match &el.kind {
                ElementKind::Normal { attributes, .. } => match attributes.get(0).and_then(|a| a.value.as_ref()) {
                    Some(Value::Static { value, .. }) => Some(value.to_string()),
                    _ => None,
                },
                _ => None,
            },
            _ => None,
        };
        let Some(got) = got else { continue };
        // the named references occurring in the text, as the implementation's table decodes them
        let mut named = vec![];
        let b: Vec<char> = t.chars().collect();
        let mut i = 0;
        while i < b.len() {
            if b[i] == '&' {
                let mut j = i + 1;
                while j < b.len() && b[j].is_ascii_alphanumeric() {
                    j += 1;
                }
                if j < b.len() && b[j] == ';' && j > i + 1 {
                    let e: String = b[i..=j].iter().collect();
                    if let Some(d) = hooks::entities_decode(&e) {
                        named.push(format!("{}={}", enc(&e), enc(&d)));
                    }
                }
            }
            i += 1;
        }
        out.case(&["entscan", &named.join("+"), &enc(&t)], &enc(&got));
    }
}

/// the string-literal scanner of the expression parser: random literal bodies over an alphabet of
/// escapes, hex digits and quotes (single-quoted, inside a double-quoted attribute)
pub fn run_wxscan(tier: &str, seed: u64, out: &mut Out) {
    use glass_easel_template_compiler::parse::expr::Expression;
    use glass_easel_template_compiler::parse::tag::{ElementKind, Node, Value};
    let mut rng = Rng::new(seed ^ 0x5ca9);
    let n = if tier == "thorough" { 150_000 } else { 20_000 };
    let alphabet: Vec<&str> = vec!["\\", "\\", "\\", "x", "u", "0", "1", "4", "9", "a", "f", "F", "g", "d8", "D800", "dfff", "e000", "n", "r", "t", "b", "v",
                                   "\\'", "\\\\", "q", " ", "{", "}", "é", "\u{1f600}", "\u{200b}", "\t", "7f", "\n", "\r", "\u{2028}", "\u{2029}"];
    let fixed = ["a\\\nb", "a\\\r\nb", "a\\\rb", "a\\\r\\\nb", "\\\u{2028}\\\u{2029}x", "\\x41", "\\u0041", "\\uD83D\\uDE00", "\\u{41}", "\\101", "\\x4", "\\u12", "\\x", "\\u", "\\q", "\\0", "\\01", "\\\\", "\\'", "a\\", "\\xg1", "\\ud7ff\\ue000", "\\x7f\\x00"];
    let mut bodies: Vec<String> = fixed.iter().map(|s| s.to_string()).collect();
    for _ in 0..n {
        let k = rng.below(7);
        let mut s = String::new();
        for _ in 0..k {
            s.push_str(*rng.pick(&alphabet));
        }
        bodies.push(s);
    }
    for b in bodies {
        let src = format!("<v a=\"{{{{'{}'}}}}\"/>", b);
        let (tree, _) = glass_easel_template_compiler::parse::parse("p", &src);
        let got = match tree.content.get(0) {
            Some(Node::Element(el)) => match &el.kind {
                ElementKind::Normal { attributes, .. } => match attributes.get(0).and_then(|a| a.value.as_ref()) {
                    Some(Value::Dynamic { expression, .. }) => match &**expression {
                        Expression::LitStr { value, .. } => format!("V{}", enc(value)),
                        _ => "OTHER".to_string(),
                    },
                    Some(Value::Static { .. }) => "STATIC".to_string(),
                    Some(_) => "OTHER".to_string(),
                    None => "NONE".to_string(),
                },
                _ => "NOELEM".to_string(),
            },
            _ => "NOELEM".to_string(),
        };
        out.case(&["wxscan", &enc(&format!("{}'", b))], &got);
    }
}

/// string literal bodies for the comparison with JavaScript's own reading of the literal (C03): the value the parser
/// assigns and the highest diagnostic level it raises
pub fn run_wxscan_js(tier: &str, seed: u64, out: &mut Out) {
    use glass_easel_template_compiler::parse::expr::Expression;
    use glass_easel_template_compiler::parse::tag::{ElementKind, Node, Value};
    let mut rng = Rng::new(seed ^ 0x15c4);
    let n = if tier == "thorough" { 40_000 } else { 6_000 };
    let alphabet: Vec<&str> = vec!["\\", "\\", "\\", "x", "u", "0", "1", "4", "8", "9", "a", "f", "F", "g", "d8", "D800", "dfff", "e000", "n", "r", "t", "b", "v",
                                   "\\'", "\\\\", "q", " ", "{", "}", "é", "\u{1f600}", "\u{200b}", "\t", "7f", "\n", "\r", "\u{2028}", "\u{2029}", "\"", "41"];
    let fixed = ["a\\\nb", "a\\\r\nb", "a\\\rb", "a\\\u{2028}b", "\\x41", "\\u0041", "\\uD83D\\uDE00", "\\u{41}", "\\101", "\\0", "\\08", "\\8", "\\v\\f\\b", "\\a\\c\\e"];
    let mut bodies: Vec<String> = fixed.iter().map(|s| s.to_string()).collect();
    for _ in 0..n {
        let k = rng.below(6);
        let mut s = String::new();
        for _ in 0..k {
            s.push_str(*rng.pick(&alphabet));
        }
        bodies.push(s);
    }
    for b in bodies {
        let src = format!("<v a=\"{{{{'{}'}}}}\"/>", b.replace('"', "&quot;"));
        if b.contains('"') {
            continue;
        }
        let (tree, ps) = glass_easel_template_compiler::parse::parse("p", &src);
        let level = ps.warnings().map(|d| d.kind.level() as u8).max().unwrap_or(0);
        let got: Option<Vec<u32>> = match tree.content.get(0) {
            Some(Node::Element(el)) => match &el.kind {
                ElementKind::Normal { attributes, .. } => match attributes.get(0).and_then(|a| a.value.as_ref()) {
                    Some(Value::Dynamic { expression, .. }) => match &**expression {
                        Expression::LitStr { value, .. } => Some(value.chars().map(|c| c as u32).collect()),
                        _ => None,
                    },
                    _ => None,
                },
                _ => None,
            },
            _ => None,
        };
        out.raw(&serde_json::json!({"body": b, "value": got, "level": level}).to_string());
    }
}
