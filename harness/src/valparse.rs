//! The expression / value parser against its character-level Coq model (Model/ExprParse.v):
//! text nodes `<v>X</v>` and attribute values `<v a="X"/>` over generated and mutated X; the
//! implementation's parsed value is compared with the model's.
use crate::ast;
use crate::gen::*;
use crate::util::*;
use glass_easel_template_compiler::parse::tag::{ElementKind, Node};
use glass_easel_template_compiler::verif_hooks as hooks;

/// the named character references occurring in `t`, as the implementation's table decodes them
pub fn named_table(t: &str) -> String {
    let mut named: Vec<String> = vec![];
    let b: Vec<char> = t.chars().collect();
    let mut i = 0;
    while i < b.len() {
        if b[i] == '&' {
            let mut j = i + 1;
            while j < b.len() && b[j].is_ascii_alphanumeric() {
                j += 1;
            }
            if j < b.len() && b[j] == ';' && j > i + 1 {
                let e: String = b[i..=j].iter().collect();
                if let Some(d) = hooks::entities_decode(&e) {
                    let item = format!("{}={}", enc(&e), enc(&d));
                    if !named.contains(&item) {
                        named.push(item);
                    }
                }
            }
        }
        i += 1;
    }
    named.join("+")
}

#[derive(PartialEq, Clone, Copy)]
enum Tk {
    Word,
    Str,
    Punct,
}

/// splits an expression text into words (identifiers / numbers), string literals and single
/// punctuation characters
fn tokens(s: &str) -> Vec<(Tk, String)> {
    let c: Vec<char> = s.chars().collect();
    let mut out = vec![];
    let mut i = 0;
    while i < c.len() {
        let ch = c[i];
        if ch == '"' || ch == '\'' {
            let mut j = i + 1;
            while j < c.len() && c[j] != ch {
                if c[j] == '\\' {
                    j += 1;
                }
                j += 1;
            }
            let j = (j + 1).min(c.len());
            out.push((Tk::Str, c[i..j].iter().collect()));
            i = j;
        } else if ch.is_ascii_alphanumeric() || ch == '_' || ch == '$' || (ch == '.' && i + 1 < c.len() && c[i + 1].is_ascii_digit() && (i == 0 || !c[i - 1].is_ascii_alphanumeric())) {
            let mut j = i + 1;
            while j < c.len() && (c[j].is_ascii_alphanumeric() || c[j] == '_' || c[j] == '$' || (c[j] == '.' && c[i].is_ascii_digit())) {
                j += 1;
            }
            out.push((Tk::Word, c[i..j].iter().collect()));
            i = j;
        } else {
            out.push((Tk::Punct, ch.to_string()));
            i += 1;
        }
    }
    out
}

const FILL: [&str; 8] = [" ", "  ", "\n", "\t", "/**/", "/* c */", " /* }} */ ", "/* * / */"];

/// white space and comments between tokens where they cannot split an operator
fn decorate(rng: &mut Rng, s: &str) -> String {
    let t = tokens(s);
    let mut o = String::new();
    for (i, (k, text)) in t.iter().enumerate() {
        if i > 0 {
            let (pk, ptext) = &t[i - 1];
            let both_punct = *pk == Tk::Punct && *k == Tk::Punct;
            let safe_punct = |p: &str| matches!(p, "(" | ")" | "[" | "]" | "{" | "}" | "," | ":");
            let ok = !both_punct || safe_punct(ptext) || safe_punct(text);
            if ok && rng.chance(1, 3) {
                o.push_str(*rng.pick(&FILL));
            }
        }
        o.push_str(text);
    }
    o
}

const SNIPPETS: [&str; 64] = [
    "a", " a ", "a.b", "a . b", "a.b.c[d](e)", "a?b:c", "a ? .5 : b", "a?.5:b", "a?.b:c", "a ?? b", "a??b||c", "a ? b : c ? d : e",
    "a ? b ? c : d : e", "!a", "!!a", "- -a", "--a", "a++b", "a+ +b", "a- -b", "a+-b", "typeof a", "typeofa", "typeof(a)", "void 0", "voida",
    "a instanceof f", "a instanceoff", "a<b", "a<=b", "a<<b", "a<<=b", "a>>>b", "a>>b", "a>>>=b", "a>=b", "a==b", "a===b", "a!=b", "a!==b", "a====b",
    "a&b", "a&&b", "a&&=b", "a|b", "a||b", "a^b", "a^=b", "a*b", "a**b", "a/b", "a//b", "a/*x*/b", "a%b", "a=b", "a+=b",
    "a.5", "a..b", "a...b", "1.a", "1..a", "(1).a", ".5.a", "0x1f.a",
];
const SNIPPETS2: [&str; 60] = [
    "[]", "[,]", "[,,]", "[a,]", "[,a]", "[ , , a]", "[...a]", "[...a,...b,]", "[..a]", "[.5]", "[.5,.5]", "[a b]", "[a", "[a,", "[...", "[...a", "[a;]",
    "{}", "{a}", "{a,}", "{a,b}", "{a:1}", "{a:1,}", "{a:1,b}", "{...a}", "{...a,}", "{...a,b:2}", "{..a}", "{a:}", "{a", "{a:1", "{a:1;}", "{1:2}", "{'a':1}", "{a b}", "{,}", "{a,,b}",
    "a:1", "a:1,b", "a,b", "a,", "a,b,", "...a", "...a,b", "a:1,...b", "a:", "a,,", "...", ":a",
    "f()", "f(a)", "f(a,)", "f(a,b)", "f(,)", "f(a,,b)", "f(a", "f(a b)", "a[b]", "a[b", "a[]",
];
const SNIPPETS3: [&str; 44] = [
    "'s'", "\"s\"", "'a\\'b'", "'a\\x41b'", "'\\u00e9'", "'\\ud800x'", "'\\xzz'", "'\\u12'", "'unterminated", "\"un\\", "'}}'", "'a' 'b'", "'a'.length", "'\\n\\t\\0\\q'",
    "0", "00", "017", "08", "09.5", "0x", "0x1F", "0xg", "1e3", "1e", "1e+3", "1.5.5", "1_000", "9223372036854775807", "9223372036854775808", "0x8000000000000000", "1x", ".", ".e3", "1.", "1.e2",
    "(a)", "((a))", "(a", "a)", "()", "(a,b)", "", " ", "/* only */",
];

fn expr_text(rng: &mut Rng) -> String {
    match rng.below(10) {
        0 => rng.pick(&SNIPPETS).to_string(),
        1 => rng.pick(&SNIPPETS2).to_string(),
        2 => rng.pick(&SNIPPETS3).to_string(),
        3 => {
            // two snippets joined by an operator or nothing
            let a = match rng.below(3) { 0 => *rng.pick(&SNIPPETS), 1 => *rng.pick(&SNIPPETS2), _ => *rng.pick(&SNIPPETS3) };
            let b = match rng.below(3) { 0 => *rng.pick(&SNIPPETS), 1 => *rng.pick(&SNIPPETS2), _ => *rng.pick(&SNIPPETS3) };
            let op = *rng.pick(&["+", " + ", "?", ":", ",", ".", "", " ", "&&", "<", "[", "(", "=="]);
            format!("{}{}{}", a, op, b)
        }
        _ => {
            let idents: Vec<String> = DATA_FIELDS.iter().map(|s| s.to_string()).chain(["typeofx", "voidy", "nulls", "true1", "in", "new", "$_9"].iter().map(|s| s.to_string())).collect();
            let depth = 1 + rng.below(3);
            let e = {
                let mut g = ExprGen { rng: &mut *rng, idents, allow_instanceof: true };
                g.gen(depth)
            };
            let s = {
                let mut coin = Rng::new(rng.next());
                e.wxml(&mut || coin.chance(1, 8))
            };
            decorate(rng, &s)
        }
    }
}

fn mutate_chars(rng: &mut Rng, s: &str) -> String {
    let mut c: Vec<char> = s.chars().collect();
    let alphabet = ['?', ':', '.', ',', '(', ')', '[', ']', '{', '}', '+', '-', '*', '/', '<', '>', '=', '!', '&', '|', '\'', '"', '\\', ' ', 'a', '1', 'e', 'x', '0', '~', '^', '%', ';', '\n'];
    let n = 1 + rng.below(2);
    for _ in 0..n {
        if c.is_empty() {
            c.push(*rng.pick(&alphabet));
            continue;
        }
        let i = rng.below(c.len());
        match rng.below(4) {
            0 => {
                c.remove(i);
            }
            1 => c.insert(i, *rng.pick(&alphabet)),
            2 => c[i] = *rng.pick(&alphabet),
            _ => {
                let j = rng.below(c.len());
                c.swap(i, j);
            }
        }
    }
    c.into_iter().collect()
}

const STATIC_PIECES: [&str; 24] = [
    "x", " ", "a b", "&lt;", "&amp;", "&#65;", "&bogus;", "&", "{", "}", "{ {", "}}", "}", "'", "<", "< b", "<1", "\n", "é\u{1f600}", "/*", "*/", "{a}", "\\", "=",
];

pub fn gen_value_text(rng: &mut Rng) -> String {
    let k = 1 + rng.below(4);
    let mut s = String::new();
    for _ in 0..k {
        if rng.chance(2, 5) {
            s.push_str(*rng.pick(&STATIC_PIECES));
        } else {
            let mut e = expr_text(rng);
            if rng.chance(1, 4) {
                e = mutate_chars(rng, &e);
            }
            let l = *rng.pick(&["", " ", "  ", "\n", "/* */"]);
            let r = *rng.pick(&["", " ", "  ", "\n", " /* x */ "]);
            let close = if rng.chance(1, 25) { "}" } else { "}}" };
            s.push_str(&format!("{{{{{}{}{}{}", l, e, r, close));
        }
    }
    s
}

pub fn run(tier: &str, seed: u64, out: &mut Out) {
    let mut rng = Rng::new(seed ^ 0x9a12);
    let n = if tier == "thorough" { 120_000 } else { 12_000 };
    let mut texts: Vec<String> = vec![];
    // every snippet alone, as a single binding
    for s in SNIPPETS.iter().chain(SNIPPETS2.iter()).chain(SNIPPETS3.iter()) {
        texts.push(format!("{{{{{}}}}}", s));
        texts.push(format!("{{{{ {} }}}}t", s));
    }
    for _ in 0..n {
        texts.push(gen_value_text(&mut rng));
    }
    // object-inner texts for the template-data context
    const DATA_SNIPPETS: [&str; 26] = [
        "a", "a,b", "a:1", "a:1,b", "a,", "...o", "...o,a", "a:b?c:d", "a:{b:1}", "a:[1,2]", "a}}", "a b", "a:", ":1", "a,,b", "{a:1}", "{a}", "a.b", "a+b",
        "a ? b : c", "a:1}", "typeof a", "a /* c */ : 1", "a:'}}'", "", " ",
    ];
    let nd = if tier == "thorough" { 30_000 } else { 3_000 };
    let mut data_texts: Vec<String> = DATA_SNIPPETS.iter().map(|s| format!("{{{{{}}}}}", s)).collect();
    for i in 0..nd {
        let mut inner = match rng.below(4) {
            0 => rng.pick(&DATA_SNIPPETS).to_string(),
            1 => {
                let k = 1 + rng.below(3);
                let mut parts = vec![];
                for _ in 0..k {
                    let name = *rng.pick(&["a", "b", "o", "k1", "$x"]);
                    parts.push(match rng.below(4) {
                        0 => name.to_string(),
                        1 => format!("...{}", expr_text(&mut rng)),
                        _ => format!("{}:{}", name, expr_text(&mut rng)),
                    });
                }
                parts.join(*rng.pick(&[",", ", ", " ,"]))
            }
            _ => expr_text(&mut rng),
        };
        if rng.chance(1, 4) {
            inner = mutate_chars(&mut rng, &inner);
        }
        let l = *rng.pick(&["", " ", "\n", "/* */"]);
        let r = *rng.pick(&["", " ", " /* x */ "]);
        let tail = if i % 7 == 0 { *rng.pick(&["x", " ", "{{b}}"]) } else { "" };
        data_texts.push(format!("{{{{{}{}{}}}}}{}", l, inner, r, tail));
    }
    for x in &data_texts {
        if x.contains('"') {
            continue;
        }
        use glass_easel_template_compiler::parse::tag::Value;
        let src = format!("<template is=\"t\" data=\"{}\"/>", x);
        let (tree, _) = glass_easel_template_compiler::parse::parse("p", &src);
        let got = match tree.content.get(0) {
            Some(Node::Element(el)) => match &el.kind {
                ElementKind::TemplateRef { data, .. } => ast::value(&data.1),
                _ => "?".to_string(),
            },
            _ => "?".to_string(),
        };
        let _: Option<Value> = None;
        out.case(&["valparse", "tdata", "", &enc(&format!("{}\"/>", x))], &got);
        // the same text as an unquoted attribute value (only when it cannot end the tag early in a different way)
        let src = format!("<v a={} />", x);
        let (tree, _) = glass_easel_template_compiler::parse::parse("p", &src);
        let got = match tree.content.get(0) {
            Some(Node::Element(el)) => match &el.kind {
                ElementKind::Normal { attributes, .. } => match attributes.get(0) {
                    Some(a) if a.name.name == "a" => match a.value.as_ref() {
                        Some(v) => ast::value(v),
                        None => "NOVALUE".to_string(),
                    },
                    _ => "NOATTR".to_string(),
                },
                _ => "?".to_string(),
            },
            _ => "?".to_string(),
        };
        out.case(&["valparse", "unq", "", &enc(&format!("{} />", x))], &got);
    }
    // diagnostics of one binding: which of the binding parser's own diagnostics is raised (text node, exactly one `{{`)
    let nq = if tier == "thorough" { 40_000 } else { 5_000 };
    let mut diag_texts: Vec<String> = vec![];
    for s in SNIPPETS.iter().chain(SNIPPETS2.iter()).chain(SNIPPETS3.iter()) {
        diag_texts.push(format!("{{{{{}}}}}", s));
        diag_texts.push(format!("{{{{{}", s));
        diag_texts.push(format!("{{{{ {} }}}} t", s));
    }
    for _ in 0..nq {
        let mut e = expr_text(&mut rng);
        if rng.chance(1, 3) {
            e = mutate_chars(&mut rng, &e);
        }
        let l = *rng.pick(&["", " ", "\n", "/* */"]);
        let r = *rng.pick(&["", " ", " /* x */ ", " x", "/*"]);
        let close = *rng.pick(&["}}", "}}", "}}", "}", "", "}} }", "}}t"]);
        diag_texts.push(format!("{{{{{}{}{}{}", l, e, r, close));
    }
    for x in diag_texts {
        if x[2..].contains("{{") || x.contains("</") {
            continue;
        }
        let src = format!("<v>{}</v>", x);
        let (_, ps) = glass_easel_template_compiler::parse::parse("p", &src);
        let kinds: Vec<String> = ps.warnings().map(|w| format!("{:?}", w.kind)).collect();
        out.case(&["valparse", "diag", "", &enc(&format!("{}</v>", &x[2..]))], &kinds.join(","));
    }
    for x in texts {
        // text node
        if !x.contains("</") {
            let src = format!("<v>{}</v>", x);
            let (tree, _) = glass_easel_template_compiler::parse::parse("p", &src);
            let got = match tree.content.get(0) {
                Some(Node::Element(el)) => match &el.kind {
                    ElementKind::Normal { children, .. } => match children.get(0) {
                        Some(Node::Text(v)) => ast::value(v),
                        _ => "NOTEXT".to_string(),
                    },
                    _ => "?".to_string(),
                },
                _ => "?".to_string(),
            };
            let input = format!("{}</v>", x);
            out.case(&["valparse", "text", &named_table(&x), &enc(&input)], &got);
        }
        // double-quoted attribute value
        {
            let src = format!("<v a=\"{}\"/>", x);
            let (tree, _) = glass_easel_template_compiler::parse::parse("p", &src);
            let got = match tree.content.get(0) {
                Some(Node::Element(el)) => match &el.kind {
                    ElementKind::Normal { attributes, .. } => match attributes.get(0) {
                        Some(a) if a.name.name == "a" => match a.value.as_ref() {
                            Some(v) => ast::value(v),
                            None => "NOVALUE".to_string(),
                        },
                        _ => "NOATTR".to_string(),
                    },
                    _ => "?".to_string(),
                },
                _ => "?".to_string(),
            };
            let input = format!("{}\"/>", x);
            out.case(&["valparse", "attr", &named_table(&x), &enc(&input)], &got);
        }
    }
}
