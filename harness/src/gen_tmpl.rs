//! Template generator: well-formed WXML in varied concrete syntax, covering every element kind
//! and attribute family, with nested for / slot-value / wxs scopes and colliding names.
use crate::gen::*;
use crate::util::Rng;

pub struct TmplCfg {
    pub max_depth: usize,
    pub max_children: usize,
    pub expr_depth: usize,
    pub allow_template_ref: bool,
    pub allow_include: Vec<String>, // paths (relative spellings) that may be included
    pub allow_slots: bool,
    pub allow_scripts: bool,
    pub allow_for: bool,
    pub allow_if: bool,
    pub vary_syntax: bool,
    pub simple_exprs: bool, // only the fragment evaluated by the render specification
}

impl Default for TmplCfg {
    fn default() -> Self {
        TmplCfg {
            max_depth: 3,
            max_children: 3,
            expr_depth: 2,
            allow_template_ref: true,
            allow_include: vec![],
            allow_slots: true,
            allow_scripts: true,
            allow_for: true,
            allow_if: true,
            vary_syntax: true,
            simple_exprs: false,
        }
    }
}

pub struct TmplGen<'a> {
    pub rng: &'a mut Rng,
    pub cfg: TmplCfg,
    pub scopes: Vec<String>,      // names visible as scopes (innermost last)
    pub sub_templates: Vec<String>,
    pub modules: Vec<String>,
    pub node_count: usize,
    pub features: std::collections::BTreeMap<&'static str, usize>,
}

const TAGS: [&str; 5] = ["v", "view", "text", "my-comp", "x-y"];
const STATIC_TEXTS: [&str; 18] = [
    "hello", "a b", " lead", "trail ", "x&lt;y", "&amp;amp;", "&#65;&#x42;", "q&quot;q", "&nbsp;", "汉\u{1f600}", "l1\nl2", "}{ ) (",
    // braces that only exist after entity decoding: a `{` right before a binding, a literal `{{x}}`, a lone `{`
    "a&#123;", "&#123;&#123;x}}", "{ x }", "&#123;&#123;&#123;y}}}",
    // one-digit and padded numeric references, hex in both cases
    "t&#9;t&#09;&#x9;", "&#x4a;&#x4B;&#7;",
];
const ATTR_NAMES: [&str; 5] = ["a", "hidden", "my-prop", "value", "src"];
const EVENTS: [&str; 3] = ["tap", "touch-start", "custom_ev"];

impl<'a> TmplGen<'a> {
    pub fn new(rng: &'a mut Rng, cfg: TmplCfg) -> Self {
        TmplGen { rng, cfg, scopes: vec![], sub_templates: vec![], modules: vec![], node_count: 0, features: Default::default() }
    }

    fn feat(&mut self, f: &'static str) {
        *self.features.entry(f).or_insert(0) += 1;
    }

    fn idents(&self) -> Vec<String> {
        let mut v: Vec<String> = DATA_FIELDS.iter().map(|s| s.to_string()).collect();
        // scope names are listed several times so that they are used often
        for s in &self.scopes {
            v.push(s.clone());
            v.push(s.clone());
        }
        v
    }

    fn simple_expr(&mut self, depth: usize) -> String {
        let idents = self.idents();
        let id = self.rng.pick(&idents).clone();
        if depth == 0 {
            return match self.rng.below(10) {
                0 => "'s'".into(),
                1 => "''".into(),
                2 => format!("{}", self.rng.below(4)),
                3 => (*self.rng.pick(&["true", "false", "null", "undefined"])).to_string(),
                4 => format!("{}.a", id),
                5 => format!("{}.b.x", id),
                6 => format!("{}[0]", id),
                7 => format!("{}['x']", id),
                _ => id,
            };
        }
        let a = self.simple_expr(depth - 1);
        let b = self.simple_expr(depth - 1);
        match self.rng.below(14) {
            0 => format!("{} ? {} : {}", a, b, self.simple_expr(depth - 1)),
            1 => format!("!{}", paren_unless_simple(&a)),
            2 => format!("{} && {}", paren_unless_simple(&a), paren_unless_simple(&b)),
            3 => format!("{} || {}", paren_unless_simple(&a), paren_unless_simple(&b)),
            4 => format!("{} ?? {}", paren_unless_simple(&a), paren_unless_simple(&b)),
            5 => format!("{} === {}", paren_unless_simple(&a), paren_unless_simple(&b)),
            6 => format!("{} !== {}", paren_unless_simple(&a), paren_unless_simple(&b)),
            7 => format!("'p' + {}", paren_unless_simple(&a)),
            8 => format!("{} + 1", paren_unless_simple(&a)),
            9 => format!("[{}, {}]", a, b),
            10 => format!("{{x: {}, y: {}}}", a, b),
            11 => format!("{}.length", paren_unless_simple(&a)),
            _ => a,
        }
    }

    pub fn expr(&mut self) -> String {
        if self.cfg.simple_exprs {
            let d = self.rng.below(self.cfg.expr_depth + 1);
            return self.simple_expr(d);
        }
        let idents = self.idents();
        let depth = self.rng.below(self.cfg.expr_depth + 1);
        let e = {
            let mut g = ExprGen { rng: self.rng, idents, allow_instanceof: false };
            g.gen(depth)
        };
        let mut n = 0u32;
        let mut extra = || {
            n += 1;
            n % 17 == 0
        };
        e.wxml(&mut extra)
    }

    fn binding(&mut self) -> String {
        let e = self.expr();
        match self.rng.below(4) {
            0 if !e.starts_with('{') && !e.ends_with('}') => format!("{{{{{}}}}}", e),
            1 => format!("{{{{ {} }}}}", e),
            2 => format!("{{{{  {}\n}}}}", e),
            _ => format!("{{{{ {} }}}}", e),
        }
    }

    /// attribute value text (inside quotes): static / single binding / mixed
    fn value(&mut self, allow_static: bool) -> String {
        match self.rng.below(if allow_static { 6 } else { 3 }) {
            0 | 1 => self.binding(),
            2 => {
                let a = *self.rng.pick(&["p", "x-", " ", "&lt;", "&#123;", "b&#123;&#123;"]);
                let b = *self.rng.pick(&["", "q", " y"]);
                format!("{}{}{}{}", a, self.binding(), b, if self.rng.chance(1, 3) { self.binding() } else { String::new() })
            }
            3 => "".to_string(),
            _ => self.rng.pick(&["s", "a b", "x&amp;y", "&#39;", "it&quot;s", "汉", "c1&#9;c2", "&#8;&#x1f;z"]).to_string(),
        }
    }

    fn quote(&mut self, v: &str) -> String {
        if self.cfg.vary_syntax && !v.contains('\'') && self.rng.chance(1, 3) {
            format!("'{}'", v)
        } else {
            format!("\"{}\"", v.replace('"', "&quot;"))
        }
    }

    fn attr(&mut self, name: &str, v: Option<String>) -> String {
        let sp = if self.cfg.vary_syntax && self.rng.chance(1, 6) { "\n  " } else { " " };
        match v {
            None => format!("{}{}", sp, name),
            Some(v) => format!("{}{}={}", sp, name, self.quote(&v)),
        }
    }

    fn common_attrs(&mut self, out: &mut String, used: &mut Vec<String>) {
        let n = self.rng.below(4);
        for _ in 0..n {
            let k = self.rng.below(12);
            let (name, val): (String, Option<String>) = match k {
                0 => ("id".into(), Some(self.value(true))),
                1 => (format!("data-{}", self.rng.pick(&["k", "my-key", "K2"])), Some(self.value(true))),
                2 => (format!("data:{}", self.rng.pick(&["j", "camelKey"])), Some(self.value(true))),
                3 => (format!("mark:{}", self.rng.pick(&["m", "m2"])), Some(self.value(true))),
                4 => (format!("bind:{}", self.rng.pick(&EVENTS)), Some(self.event_value())),
                5 => (format!("catch:{}", self.rng.pick(&EVENTS)), Some(self.event_value())),
                6 => (format!("mut-bind:{}", self.rng.pick(&EVENTS)), Some(self.event_value())),
                7 => (format!("capture-bind:{}", self.rng.pick(&EVENTS)), Some(self.event_value())),
                8 => (format!("capture-mut-bind:{}", self.rng.pick(&EVENTS)), Some(self.event_value())),
                9 => (format!("capture-catch:{}", self.rng.pick(&EVENTS)), Some(self.event_value())),
                10 => ("data-flag".into(), None),
                _ => (format!("mark:{}", "flag"), None),
            };
            if used.contains(&name) {
                continue;
            }
            used.push(name.clone());
            self.feat(match k { 0 => "id", 1 | 10 => "data-", 2 => "data:", 3 | 11 => "mark:", _ => "event" });
            out.push_str(&self.attr(&name, val));
        }
    }

    fn event_value(&mut self) -> String {
        match self.rng.below(4) {
            0 => "onTap".into(),
            1 if !self.modules.is_empty() => format!("{{{{ {}.f }}}}", self.modules[0]),
            _ => self.value(true),
        }
    }

    fn normal_attrs(&mut self, out: &mut String, used: &mut Vec<String>) {
        let n = self.rng.below(4);
        for _ in 0..n {
            let k = self.rng.below(11);
            let (name, val, f): (String, Option<String>, &'static str) = match k {
                0 | 1 => (self.rng.pick(&ATTR_NAMES).to_string(), Some(self.value(true)), "plain"),
                2 => (self.rng.pick(&ATTR_NAMES).to_string(), None, "plain-novalue"),
                3 => ("class".into(), Some(self.value(true)), "class"),
                4 => ("style".into(), Some(self.value(true)), "style"),
                5 => (format!("model:{}", self.rng.pick(&["value", "my-prop"])), Some(self.model_value()), "model:"),
                6 => (
                    format!("change:{}", self.rng.pick(&["prop", "my-prop"])),
                    // a change listener is a function: a data function, a member, or a conditional between functions
                    Some(if self.modules.is_empty() {
                        self.rng.pick(&["{{ f }}", "{{f}}", "{{ a ? f : o.fn }}", "{{ o.fn }}", "{{ l[0] || f }}"]).to_string()
                    } else {
                        format!("{{{{ {}.f }}}}", self.modules[0])
                    }),
                    "change:",
                ),
                7 => (format!("worklet:{}", self.rng.pick(&["w", "on-gesture"])), Some("handler".into()), "worklet:"),
                8 => (format!("generic:{}", self.rng.pick(&["g", "item-comp"])), Some("impl-comp".into()), "generic:"),
                9 => (format!("extra-attr:{}", self.rng.pick(&["e", "aria-x"])), Some("ev".into()), "extra-attr:"),
                _ => (format!("bind{}", self.rng.pick(&["tap", "x"])), Some(self.event_value()), "legacy-event-attr"),
            };
            let key = if name.starts_with("model:") { name[6..].to_string() } else { name.clone() };
            if used.contains(&key) {
                continue;
            }
            used.push(key);
            self.feat(f);
            out.push_str(&self.attr(&name, val));
        }
    }

    fn model_value(&mut self) -> String {
        // mostly assignable access chains
        let base = {
            let ids = self.idents();
            self.rng.pick(&ids).clone()
        };
        match self.rng.below(5) {
            0 => format!("{{{{ {} }}}}", base),
            1 => format!("{{{{ {}.a }}}}", base),
            2 => format!("{{{{ {}[{}] }}}}", base, self.rng.pick(&["0", "'x'", "c", "s"])),
            3 => format!("{{{{ c ? {}.a : o.b.x }}}}", base),
            _ => self.binding(),
        }
    }

    fn text(&mut self) -> String {
        self.node_count += 1;
        match self.rng.below(5) {
            0 | 1 => {
                self.feat("text-static");
                self.rng.pick(&STATIC_TEXTS).to_string()
            }
            2 => {
                self.feat("text-binding");
                self.binding()
            }
            _ => {
                self.feat("text-mixed");
                let a = self.rng.pick(&STATIC_TEXTS).to_string();
                format!("{}{}{}", a, self.binding(), if self.rng.chance(1, 2) { self.binding() } else { "!".into() })
            }
        }
    }

    fn comment(&mut self) -> String {
        if self.cfg.vary_syntax && self.rng.chance(1, 4) {
            self.feat("comment");
            " <!-- c {{x}} <v> --> ".to_string()
        } else {
            String::new()
        }
    }

    fn close(&mut self, tag: &str, children: &str) -> String {
        if children.is_empty() && self.rng.chance(1, 2) {
            "/>".to_string()
        } else {
            format!(">{}</{}{}>", children, tag, if self.cfg.vary_syntax && self.rng.chance(1, 8) { " " } else { "" })
        }
    }

    fn for_attrs(&mut self) -> (String, Vec<String>) {
        // returns the attribute text and the scopes (item, index) it introduces
        let list = match self.rng.below(6) {
            0 => "{{ l }}".to_string(),
            1 => "{{ o.o.a }}".to_string(),
            2 => "{{ [1, a, 'z'] }}".to_string(),
            3 => "{{ 3 }}".to_string(),
            4 => "{{ s }}".to_string(),
            _ => self.binding(),
        };
        let mut s = self.attr("wx:for", Some(list));
        let mut item = "item".to_string();
        let mut index = "index".to_string();
        if self.rng.chance(1, 3) {
            item = self.rng.pick(&["it", "a", "item", "index", "o"]).to_string();
            s.push_str(&self.attr("wx:for-item", Some(item.clone())));
        }
        if self.rng.chance(1, 3) {
            index = self.rng.pick(&["i", "b", "index", "item", "it"]).to_string();
            s.push_str(&self.attr("wx:for-index", Some(index.clone())));
        }
        if self.rng.chance(1, 3) {
            s.push_str(&{ let __a1 = "wx:key".to_string(); let __a2 = Some(self.rng.pick(&["a", "x", "*this", "id"]).to_string()); self.attr(&__a1, __a2) });
        }
        self.feat("wx:for");
        (s, vec![item, index])
    }

    /// one element (or if-chain of elements); returns the text
    fn element(&mut self, depth: usize) -> String {
        self.node_count += 1;
        let kind = self.rng.below(14);
        let cfg_if = self.cfg.allow_if && depth > 0;
        let cfg_for = self.cfg.allow_for && depth > 0;
        match kind {
            // plain element, possibly with wx:for and/or wx:if on it
            0..=5 => {
                let tag = self.rng.pick(&TAGS).to_string();
                let mut attrs = String::new();
                let mut pushed = 0;
                // wx:for wraps wx:if: the if condition sees item/index
                let with_for = cfg_for && self.rng.chance(1, 5);
                let with_if = cfg_if && self.rng.chance(1, 5);
                let mut for_text = String::new();
                if with_for {
                    let (t, sc) = self.for_attrs();
                    for_text = t;
                    for s in sc {
                        self.scopes.push(s);
                        pushed += 1;
                    }
                }
                let if_text = if with_if {
                    self.feat("wx:if-on-element");
                    { let __a1 = "wx:if".to_string(); let __a2 = Some(self.binding()); self.attr(&__a1, __a2) }
                } else {
                    String::new()
                };
                // slot value refs introduce scopes for the children only
                let mut slot_scopes = vec![];
                let mut slot_text = String::new();
                if self.cfg.allow_slots && !with_for && !with_if && self.rng.chance(1, 8) {
                    let n = 1 + self.rng.below(2);
                    for k in 0..n {
                        let name = ["sv", "item", "a-b"][k % 3];
                        let alias = if self.rng.chance(1, 2) { Some(["al", "index", "it2"][k % 3]) } else { None };
                        match alias {
                            Some(al) => {
                                slot_text.push_str(&self.attr(&format!("slot:{}", name), Some(al.to_string())));
                                slot_scopes.push(al.to_string());
                            }
                            None => {
                                slot_text.push_str(&self.attr(&format!("slot:{}", name), None));
                                slot_scopes.push(dash_to_camel(name));
                            }
                        }
                    }
                    self.feat("slot:ref");
                }
                let mut used = vec![];
                self.normal_attrs(&mut attrs, &mut used);
                self.common_attrs(&mut attrs, &mut used);
                if self.rng.chance(1, 8) {
                    attrs.push_str(&{ let __a1 = "slot".to_string(); let __a2 = Some(self.value(true)); self.attr(&__a1, __a2) });
                    self.feat("slot-attr");
                }
                // order of special attributes in the tag is free: shuffle the three groups
                let mut groups = vec![for_text, if_text, attrs, slot_text];
                if self.cfg.vary_syntax {
                    for i in (1..groups.len()).rev() {
                        let j = self.rng.below(i + 1);
                        groups.swap(i, j);
                    }
                }
                for s in &slot_scopes {
                    self.scopes.push(s.clone());
                }
                let children = if depth > 0 { self.nodes(depth - 1) } else { String::new() };
                for _ in &slot_scopes {
                    self.scopes.pop();
                }
                for _ in 0..pushed {
                    self.scopes.pop();
                }
                self.feat("element");
                format!("<{}{}{}", tag, groups.concat(), self.close(&tag, &children))
            }
            // if / elif / else chain on blocks or elements
            6 | 7 if cfg_if => {
                self.feat("if-chain");
                let n_elif = self.rng.below(3);
                let has_else = self.rng.chance(1, 2);
                let mut s = String::new();
                let total = 1 + n_elif + has_else as usize;
                for i in 0..total {
                    let tag = if self.rng.chance(1, 2) { "block".to_string() } else { self.rng.pick(&TAGS).to_string() };
                    let cond_attr = if i == 0 {
                        { let __a1 = "wx:if".to_string(); let __a2 = Some(self.binding()); self.attr(&__a1, __a2) }
                    } else if i <= n_elif {
                        { let __a1 = "wx:elif".to_string(); let __a2 = Some(self.binding()); self.attr(&__a1, __a2) }
                    } else {
                        self.attr("wx:else", None)
                    };
                    let children = self.nodes(depth - 1);
                    s.push_str(&format!("<{}{}{}", tag, cond_attr, self.close(&tag, &children)));
                    if i + 1 < total {
                        // whitespace and comments between branches are allowed
                        s.push_str(*self.rng.pick(&["", " ", "\n  "]));
                        s.push_str(&self.comment());
                    }
                }
                s
            }
            // block wx:for
            8 | 9 if cfg_for => {
                let (t, sc) = self.for_attrs();
                for x in &sc {
                    self.scopes.push(x.clone());
                }
                let children = self.nodes(depth - 1);
                for _ in &sc {
                    self.scopes.pop();
                }
                self.feat("block-for");
                format!("<block{}>{}</block>", t, children)
            }
            // plain block
            10 if depth > 0 => {
                self.feat("block");
                let children = self.nodes(depth - 1);
                let slot = if self.rng.chance(1, 4) { { let __a1 = "slot".to_string(); let __a2 = Some(self.value(true)); self.attr(&__a1, __a2) } } else { String::new() };
                format!("<block{}>{}</block>", slot, children)
            }
            // template reference
            11 if self.cfg.allow_template_ref && !self.sub_templates.is_empty() => {
                self.feat("template-is");
                let name = self.rng.pick(&self.sub_templates).clone();
                let is = match self.rng.below(4) {
                    0 => format!("{{{{ c ? '{}' : 'nope' }}}}", name),
                    1 => format!("{{{{ '{}' }}}}", name),
                    _ => name,
                };
                let data = match self.rng.below(5) {
                    0 => String::new(),
                    1 => self.attr("data", Some("{{ ...o }}".into())),
                    2 => { let __a1 = "data".to_string(); let __a2 = Some(format!("{{{{ a: {}, b }}}}", self.expr())); self.attr(&__a1, __a2) },
                    3 => { let __a1 = "data".to_string(); let __a2 = Some(format!("{{{{ ...o, a: {}, ...d }}}}", self.expr())); self.attr(&__a1, __a2) },
                    _ => { let __a1 = "data".to_string(); let __a2 = Some(format!("{{{{ a, o: {{ a: {} }} }}}}", self.expr())); self.attr(&__a1, __a2) },
                };
                format!("<template{}{}/>", self.attr("is", Some(is)), data)
            }
            // include
            12 if !self.cfg.allow_include.is_empty() => {
                self.feat("include");
                let p = self.rng.pick(&self.cfg.allow_include).clone();
                format!("<include{}/>", self.attr("src", Some(p)))
            }
            // slot element
            13 if self.cfg.allow_slots => {
                self.feat("slot");
                let mut s = String::from("<slot");
                if self.rng.chance(2, 3) {
                    s.push_str(&{ let __a1 = "name".to_string(); let __a2 = Some(self.value(true)); self.attr(&__a1, __a2) });
                }
                let n = self.rng.below(3);
                let mut used = vec![];
                for _ in 0..n {
                    let name = self.rng.pick(&["sv", "item", "a-b"]).to_string();
                    if used.contains(&name) {
                        continue;
                    }
                    used.push(name.clone());
                    s.push_str(&{ let __a1 = (name).to_string(); let __a2 = Some(self.value(true)); self.attr(&__a1, __a2) });
                }
                self.common_attrs(&mut s, &mut used);
                s.push_str("/>");
                s
            }
            _ => {
                let tag = self.rng.pick(&TAGS).to_string();
                let mut attrs = String::new();
                let mut used = vec![];
                self.normal_attrs(&mut attrs, &mut used);
                self.feat("element");
                format!("<{}{}{}", tag, attrs, self.close(&tag, ""))
            }
        }
    }

    pub fn nodes(&mut self, depth: usize) -> String {
        let n = self.rng.below(self.cfg.max_children + 1);
        let mut s = String::new();
        for _ in 0..n {
            if self.rng.chance(1, 3) {
                s.push_str(&self.text());
            } else {
                s.push_str(&self.element(depth));
            }
            if self.cfg.vary_syntax && self.rng.chance(1, 6) {
                s.push_str(*self.rng.pick(&[" ", "\n", "\n\t"]));
            }
            s.push_str(&self.comment());
        }
        s
    }

    /// a whole file: wxs modules, sub-template definitions, content
    pub fn file(&mut self) -> String {
        let mut s = String::new();
        if self.cfg.allow_scripts && self.rng.chance(1, 3) {
            let name = self.rng.pick(&["m", "a", "item"]).to_string();
            // valid JavaScript bodies with every kind of ending (comments, no final newline / semicolon)
            let tail = *self.rng.pick(&["", ";", " // trailing comment", "\n// c\n", " /* c */", "\n", "\n/* } */"]);
            s.push_str(&format!(
                "<wxs module=\"{}\">exports.f = function(x){{ return 'f(' + x + ')' }}; exports.k = 3; exports.o = {{ a: [7, 8] }}{}</wxs>\n",
                name, tail
            ));
            self.modules.push(name.clone());
            self.scopes.push(name);
            self.feat("wxs-inline");
        }
        if self.cfg.allow_template_ref && self.rng.chance(1, 2) {
            let n = 1 + self.rng.below(2);
            for k in 0..n {
                let name = ["t1", "t-2"][k % 2].to_string();
                // template bodies see only the script modules
                let saved: Vec<String> = self.scopes.clone();
                self.scopes = self.modules.clone();
                let body = self.nodes(self.cfg.max_depth.min(2));
                self.scopes = saved;
                s.push_str(&format!("<template name=\"{}\">{}</template>\n", name, body));
                self.sub_templates.push(name);
                self.feat("template-name");
            }
        }
        let d = self.cfg.max_depth;
        s.push_str(&self.nodes(d));
        s
    }
}

pub fn dash_to_camel(s: &str) -> String {
    let mut o = String::new();
    let mut up = false;
    for c in s.chars() {
        if c == '-' {
            up = true;
        } else if up {
            up = false;
            o.push(c.to_ascii_uppercase());
        } else {
            o.push(c);
        }
    }
    o
}

fn paren_unless_simple(s: &str) -> String {
    if s.chars().all(|c| c.is_alphanumeric() || c == '.' || c == '_' || c == '[' || c == ']' || c == '\'') {
        s.to_string()
    } else {
        format!("({})", s)
    }
}
