HOOK_COMMITS = ["bfc8887"]

CHECKS = [
    {"id": "C13",
     "text": "Coq theorems over the path model (resolve = stack-machine spec, result is normal and a fixed point of normalize, "
             "absolute references ignore the base, result depends only on the referring file's directory, normalize idempotent), "
             "for all strings; the model is tied to the code by exhaustive enumeration of all (base, rel) pairs up to 3 (quick) / 4 "
             "(thorough) segments through the hook plus dependency queries and emitted G[..]/R[..] lookups through the public API.",
     "note": "Trusted: Coq kernel, extraction (ExtrOcamlBasic), OCaml driver, Rust harness. The Gallina model of path.rs is hand-written; "
             "its tie to the code is the correspondence run (exhaustive up to the stated bound, sampled beyond).",
     "technique": "Coq proof (induction over segment lists) + exhaustive model/implementation correspondence via extracted OCaml"},
]

_PENDING = "check not built yet in this round (planned: DESIGN.md §7/§10); not claimed until its model, theorems and correspondence run exist"
NOT_APPLICABLE = [{"property_id": "C%02d" % i, "reason": _PENDING} for i in range(1, 21) if "C%02d" % i not in [c["id"] for c in CHECKS]]
