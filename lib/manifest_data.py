import importlib, os, sys
HOOK_COMMITS = ["bfc8887", "5ff94a2"]
_here = os.path.dirname(os.path.abspath(__file__))
sys.path.insert(0, _here)
CHECKS = []
for i in range(1, 21):
    pid = "C%02d" % i
    if os.path.exists(os.path.join(_here, "props", pid.lower() + ".py")):
        m = importlib.import_module("props." + pid.lower())
        if getattr(m, "MANIFEST", None):
            CHECKS.append(m.MANIFEST)

# properties not claimed: reason per id (anything not listed here and not in CHECKS is "pending")
_REASONS = {}
_PENDING = "check not built yet in this round (planned: DESIGN.md section 7/10); not claimed until its model, theorems and correspondence run exist"
NOT_APPLICABLE = [{"property_id": "C%02d" % i, "reason": _REASONS.get("C%02d" % i, _PENDING)}
                  for i in range(1, 21) if "C%02d" % i not in [c["id"] for c in CHECKS]]
