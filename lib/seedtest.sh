#!/bin/bash
# seedtest.sh <seed dir base> <prop id> [more checks...] : apply m1/m2 of the dir, run the checks, revert
base=$1; shift
for c in "$@"; do r=$(timeout 2400 /verif/check $c 2>&1 | grep -v KNOWN-FINDING | tail -1); case "$r" in *" ok "*) ;; *) echo "CLEAN TREE DOES NOT PASS $c: $r"; exit 1;; esac; done
for m in m1 m2; do
  [ -f $base/$m/patch.diff ] || continue
  echo "== $base $m"
  if git -C /repo apply $base/$m/patch.diff; then
    for c in "$@"; do timeout 2400 /verif/check $c 2>&1 | grep -v KNOWN-FINDING | tail -2 | cut -c1-300; done
  else echo "PATCH DOES NOT APPLY"; fi
  git -C /repo checkout -- .
done
