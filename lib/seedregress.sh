#!/bin/bash
# re-applies every stored seeded change and runs its property's quick check; prints one line per seed
cd /verif
for d in seeded/*/; do
  id=$(basename $d); prop=${id%%-*}
  case "$1" in "") ;; *) case "$prop" in $1) ;; *) continue;; esac;; esac
  if grep -q '"superseded"' /verif/${d}meta.json; then echo "$id superseded"; continue; fi
  if git -C /repo apply --check /verif/${d}patch.diff 2>/dev/null; then
    git -C /repo apply /verif/${d}patch.diff
    r=$(timeout 2400 ./check $prop 2>&1 | grep -v KNOWN-FINDING | tail -1)
    git -C /repo checkout -- .
    case "$r" in *FAIL*) echo "$id caught";; *) echo "$id MISSED: $r";; esac
  else
    echo "$id patch-no-longer-applies"
  fi
done
