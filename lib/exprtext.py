"""Text correspondence of single bindings (harness `exprgen` vs model `attrgen`), shared by C03/C06/C07/C11.
The model answers body|A-init|hoisted|value|guard|lvalue ; the implementation body|A-init."""
from vcheck import *


def _eq(impl, model):
    return impl == "|".join(model.split("|")[:2])


def classify(case_line, impl, model):
    """returns the set of aspects in which the implementation's text deviates from the model:
    'value' (C03), 'guard' (C06), 'lvalue' (C11), 'bmap' (C07), 'other'."""
    parts = model.split("|")
    if len(parts) < 6 or "|" not in impl:
        return {"other"}
    body_m, ainit_m, hoisted, value, guard, lv = [dec(x) for x in parts[:6]]
    body_i, ainit_i = [dec(x) for x in impl.split("|")[:2]]
    f = case_line.split("\t")
    kind, name = f[1], dec(f[2])
    out = set()
    if ainit_i != ainit_m:
        out.add("bmap")
    if kind == "text":
        main_m = "C||K||" + guard + "?T(Y(" + value + ")"
        if not body_i.startswith((hoisted + ";" if hoisted else "")):
            out.add("value")
        rest = body_i[len(hoisted) + 1 if hoisted else 0:]
        if not rest.startswith("C||K||" + guard + "?"):
            out.add("guard")
        if ("?T(Y(" + value + ")") not in rest:
            out.add("value")
    else:
        if not body_i.startswith((hoisted + ";" if hoisted else "")):
            out.add("value")
        rest = body_i[len(hoisted) + 1 if hoisted else 0:]
        if not rest.startswith("if(C||K||" + guard + ")"):
            out.add("guard")
        setter = {"class": ")L(N," + value, "style": ")R.y(N," + value, "id": ")R.i(N," + value,
                  "data": ")R.d(N," + json_str(name) + "," + value,
                  "mark": ")M(N," + json_str(name) + "," + value,
                  "change": ")R.p(N," + json_str(name) + "," + value,
                  "ev": ")R.v(N," + json_str(name) + "," + value + ",!1,!1,!1,!0",
                  "evcatch": ")R.v(N," + json_str(name) + "," + value + ",!0,!1,!1,!0",
                  "evmut": ")R.v(N," + json_str(name) + "," + value + ",!1,!0,!1,!0",
                  "evcap": ")R.v(N," + json_str(name) + "," + value + ",!1,!1,!0,!0",
                  "evcapcatch": ")R.v(N," + json_str(name) + "," + value + ",!0,!1,!0,!0"}.get(
                      kind, ")O(N," + json_str(name) + "," + value)
        k = rest.find(setter)
        if k < 0:
            out.add("value")
        else:
            after = rest[k + len(setter):]
            if not after.startswith(lv + ")"):
                out.add("lvalue")
    if not out and body_i != body_m:
        out.add("bmap")
    return out or {"other"}


def json_str(s):
    import json
    return json.dumps(s)


def run(tier, seed, tag):
    return bulk_compare(["exprgen", tier, seed], tag, eq=_eq, max_report=200)
