#!/usr/bin/env python3
"""Regenerates MANIFEST.json from the table below (kept in one place so it always validates)."""
import json, os
VERIF = os.path.dirname(os.path.dirname(os.path.abspath(__file__)))
import sys
sys.path.insert(0, os.path.join(VERIF, "lib"))
from manifest_data import CHECKS, NOT_APPLICABLE, HOOK_COMMITS

m = {
    "version": 1,
    "setup_cmd": "cd /verif && ./check setup",
    "hooks": {
        "guard": "glass_easel_verif",
        "enable": "RUSTFLAGS=\"--cfg glass_easel_verif\" (set in /verif/harness/.cargo/config.toml; the harness crate depends on /repo's crates by path)",
        "baseline_off_cmd": "cd /repo && CARGO_NET_OFFLINE=true cargo test --workspace --no-fail-fast --offline",
        "source_commits": HOOK_COMMITS,
        "add_only": True,
    },
    "engines": [
        {"name": "coq", "path": "/verif/coq", "serves_properties": [c["id"] for c in CHECKS],
         "kind_free_text": "Coq 8.16.1 development: Model/ (executable Gallina models), Proofs/, Properties/Cxx.v (pinned theorems + Print Assumptions)"},
        {"name": "modelrun", "path": "/verif/extract", "serves_properties": [c["id"] for c in CHECKS],
         "kind_free_text": "OCaml extraction (ExtrOcamlBasic only) of the models + driver; evaluates the model on the inputs the implementation ran"},
        {"name": "harness", "path": "/verif/harness", "serves_properties": [c["id"] for c in CHECKS],
         "kind_free_text": "Rust crate built against /repo's working tree with the hook cfg; generators, enumerators, serialisers"},
        {"name": "jsrt", "path": "/verif/jsrt", "serves_properties": [c["id"] for c in CHECKS if c.get("jsrt")],
         "kind_free_text": "node 20 reference protocol runtime executing the generated JavaScript (failing-input search and behavioural oracle)"},
    ],
    "checks": [],
    "not_applicable": NOT_APPLICABLE,
    "notes": "All checks: ./check <id> [--tier quick|thorough]. Technique: machine-checked proof in Coq over hand-written executable models, tied to /repo by a correspondence run on every invocation (see DESIGN.md).",
}
for c in CHECKS:
    m["checks"].append({
        "property_id": c["id"],
        "quick_cmd": "cd /verif && ./check %s --tier quick" % c["id"],
        "thorough_cmd": "cd /verif && ./check %s --tier thorough" % c["id"],
        "evidence_file": "/verif/evidence/%s.json" % c["id"],
        "replay_cmd_template": "cd /verif && ./check %s --replay {path}" % c["id"],
        "engine": "coq",
        "level_claimed": {"category": "proof", "text": c["text"], "design_ref": c.get("ref", "DESIGN.md §7 " + c["id"])},
        "level_note": c["note"],
        "technique": c["technique"],
    })
json.dump(m, open(os.path.join(VERIF, "MANIFEST.json"), "w"), indent=1)
print("MANIFEST.json written: %d checks, %d not_applicable" % (len(m["checks"]), len(NOT_APPLICABLE)))
