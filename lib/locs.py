"""Shared by C15/C16: decode every (line, UTF-16 column) of the harness' `locs` dump with the
extracted, proved decoder and slice the source."""
import json
from vcheck import *


def collect_positions(j):
    ps = []
    for d in j["diags"]:
        ps += [(d["loc"][0], d["loc"][1]), (d["loc"][2], d["loc"][3])]
    for l in j.get("located", []):
        ps += [(l["loc"][0], l["loc"][1]), (l["loc"][2], l["loc"][3])]
        for ch in l.get("children", []):
            ps += [(ch[0], ch[1]), (ch[2], ch[3])]

    def walk(t):
        for n in t:
            ps.append((n["loc"][0], n["loc"][1]))
            ps.append((n["loc"][2], n["loc"][3]))
            walk(n["children"])
    for t in j.get("trees", []):
        walk(t)
    for tk in j.get("tokens", []):
        ps.append((tk[2], tk[3]))
    return ps


def decode_all(jobs):
    """returns, per job, (dict (line,col) -> offset or None for the source, dict for the stringified text)"""
    lines = []
    for j in jobs:
        ps = sorted(set(collect_positions(j)))
        j["_ps"] = ps
        lines.append("pos_decode\t%s\t%s" % (enc(j["src"]), ";".join("%d:%d" % p for p in ps)))
        dps = sorted(set((tk[0], tk[1]) for tk in j.get("tokens", [])))
        j["_dps"] = dps
        lines.append("pos_decode\t%s\t%s" % (enc(j.get("stringified", "")), ";".join("%d:%d" % p for p in dps)))
    out = modelrun(lines)
    res = []
    for k, j in enumerate(jobs):
        a = out[2 * k].split(";") if out[2 * k] else []
        b = out[2 * k + 1].split(";") if out[2 * k + 1] else []
        m1 = {p: (None if x == "X" else int(x)) for p, x in zip(j["_ps"], a)}
        m2 = {p: (None if x == "X" else int(x)) for p, x in zip(j["_dps"], b)}
        res.append((m1, m2))
    return res


def load(tier, seed):
    p = harness_run(["locs", tier, seed], timeout=3000)
    return [json.loads(l) for l in p.stdout.decode("utf8").split("\n") if l]
