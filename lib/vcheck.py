"""Core of the /verif check driver: builds (Coq, extraction, harness), model/impl diffing,
evidence writing, known findings. Python 3 stdlib only."""
import fcntl
import hashlib
import json
import os
import re
import subprocess
import sys
import time

VERIF = os.path.dirname(os.path.dirname(os.path.abspath(__file__)))
REPO = os.environ.get("VERIF_REPO", "/repo")
CACHE = os.path.join(VERIF, ".cache")
COQ = os.path.join(VERIF, "coq")
EXTRACT_SRC = os.path.join(VERIF, "extract")
EXTRACT_OUT = os.path.join(CACHE, "extract")
TARGET = os.path.join(CACHE, "target")
HARNESS = os.path.join(VERIF, "harness")
REPLAYS = os.path.join(CACHE, "replays")

ALLOWED_AXIOMS = set()  # extended per property (e.g. Flocq classical axioms), by name

TRUSTED_BASE = [
    "Coq 8.16.1 kernel (coqc full .vo build; vm_compute used, native_compute not used)",
    "extraction with ExtrOcamlBasic only (bool/option/list/prod/unit/sumbool), OCaml 4.13.1, extract/driver.ml",
    "verif-harness (Rust; generators, serialisers, canonicalisation) built against /repo's current tree with --cfg glass_easel_verif",
    "hand-written Gallina models under coq/Model (tied to the code only by this correspondence run)",
]


class ImplPanic(Exception):
    """the implementation panicked inside the harness, outside a catch: (input handed to the compiler last, location, message)"""

    def __init__(self, args_, src, loc, msg):
        Exception.__init__(self, msg)
        self.harness_args, self.src, self.loc, self.msg = args_, src, loc, msg


class Infra(Exception):
    pass


def log(*a):
    print(*a, file=sys.stderr, flush=True)


def sh(cmd, cwd=None, timeout=3600, env=None, input_bytes=None, check=True):
    e = dict(os.environ)
    e.setdefault("CARGO_NET_OFFLINE", "true")
    e.pop("RUSTFLAGS", None)
    e.pop("CARGO_TARGET_DIR", None)
    e.pop("RUST_BACKTRACE", None)
    if env:
        e.update(env)
    p = subprocess.run(cmd, cwd=cwd, shell=isinstance(cmd, str), stdout=subprocess.PIPE,
                       stderr=subprocess.PIPE, timeout=timeout, env=e, input=input_bytes)
    if check and p.returncode != 0:
        raise Infra("command failed (%s): %s\n%s\n%s" % (
            p.returncode, cmd, p.stdout.decode("utf8", "replace")[-4000:], p.stderr.decode("utf8", "replace")[-4000:]))
    return p


class Lock:
    def __init__(self, name):
        os.makedirs(CACHE, exist_ok=True)
        self.path = os.path.join(CACHE, name + ".lock")

    def __enter__(self):
        self.f = open(self.path, "w")
        fcntl.flock(self.f, fcntl.LOCK_EX)
        return self

    def __exit__(self, *a):
        fcntl.flock(self.f, fcntl.LOCK_UN)
        self.f.close()


# ----------------------------------------------------------------------------- Coq

FORBIDDEN = re.compile(
    r"\b(Admitted|admit|Axiom|Axioms|Parameter|Parameters|Conjecture|Conjectures|Abort All|"
    r"Unset\s+Guard\s+Checking|Unset\s+Positivity\s+Checking|Unset\s+Universe\s+Checking|bypass_check|"
    r"Admit\s+Obligations|type-in-type|impredicative-set|native_compute)\b")


def strip_coq_comments(src):
    out = []
    depth = 0
    i = 0
    n = len(src)
    while i < n:
        if src.startswith("(*", i):
            depth += 1
            i += 2
        elif src.startswith("*)", i) and depth > 0:
            depth -= 1
            i += 2
        else:
            if depth == 0:
                out.append(src[i])
            i += 1
    return "".join(out)


def coq_files():
    fs = []
    for root, _, files in os.walk(COQ):
        for f in files:
            if f.endswith(".v"):
                fs.append(os.path.join(root, f))
    return sorted(fs)


def coq_gate():
    """grep gate: no Admitted/admit/Axiom/Parameter/... and no Variable/Hypothesis outside a section."""
    bad = []
    for f in coq_files():
        src = strip_coq_comments(open(f, encoding="utf8").read())
        for m in FORBIDDEN.finditer(src):
            bad.append("%s: %s" % (os.path.relpath(f, VERIF), m.group(0)))
        depth = 0
        for line in src.split("\n"):
            s = line.strip()
            if re.match(r"^Section\b", s):
                depth += 1
            elif re.match(r"^End\b", s) and depth > 0:
                depth -= 1
            elif depth == 0 and re.match(r"^(Variable|Variables|Hypothesis|Hypotheses|Context)\b", s):
                bad.append("%s: %s outside a section" % (os.path.relpath(f, VERIF), s[:40]))
    return bad


COQ_WARN = "-notation-overridden,-deprecated-hint-without-locality,-deprecated-syntactic-definition"


def coq_project():
    """_CoqProject is generated from the directory listing (Model/, Proofs/, Properties/)."""
    lines = ["-Q . GE", "-arg -w -arg " + COQ_WARN]
    for d in ("Model", "Proofs", "Properties"):
        for f in sorted(os.listdir(os.path.join(COQ, d))):
            if f.endswith(".v"):
                lines.append("%s/%s" % (d, f))
    txt = "\n".join(lines) + "\n"
    p = os.path.join(COQ, "_CoqProject")
    if not os.path.exists(p) or open(p).read() != txt:
        open(p, "w").write(txt)
        return True
    return False


def coq_build(targets=None):
    """Full .vo build via coq_makefile/make (optionally only the given .vo targets and what
    they depend on). Returns (ok, log)."""
    with Lock("coq"):
        if coq_project() or not os.path.exists(os.path.join(COQ, "Makefile")):
            sh("coq_makefile -f _CoqProject -o Makefile", cwd=COQ)
        p = sh("timeout 3000 make -j16 " + " ".join(targets or []), cwd=COQ, check=False, timeout=3100)
        return p.returncode == 0, (p.stdout + p.stderr).decode("utf8", "replace")


def coq_property(pid):
    """Re-check Properties/<pid>.v and parse Print Assumptions. Returns dict."""
    f = os.path.join(COQ, "Properties", pid + ".v")
    src = strip_coq_comments(open(f, encoding="utf8").read())
    theorems = re.findall(r"^\s*Theorem\s+([A-Za-z0-9_']+)", src, re.M)
    with Lock("coq"):
        p = sh(["timeout", "900", "coqc", "-Q", ".", "GE", "-w", COQ_WARN, "Properties/%s.v" % pid], cwd=COQ, check=False)
    out = (p.stdout + p.stderr).decode("utf8", "replace")
    ok = p.returncode == 0
    closed = out.count("Closed under the global context")
    axioms = []
    # "Axioms:" blocks list "name : type"
    for blk in re.findall(r"Axioms:\n((?:.+\n?)+?)(?:\n|$)", out):
        for line in blk.split("\n"):
            m = re.match(r"^([A-Za-z0-9_.']+)\s*:", line)
            if m:
                axioms.append(m.group(1))
    bad_axioms = [a for a in axioms if a not in ALLOWED_AXIOMS]
    n_blocks = closed + len(re.findall(r"Axioms:", out))
    return {"ok": ok, "theorems": theorems, "closed": closed, "axioms": sorted(set(axioms)),
            "bad_axioms": bad_axioms, "assumption_reports": n_blocks, "log": out[-3000:]}


# ----------------------------------------------------------------------------- extraction / modelrun

def _hash_files(files):
    h = hashlib.sha256()
    for f in sorted(files):
        h.update(f.encode())
        h.update(open(f, "rb").read())
    return h.hexdigest()


def _area_roots(path):
    imports, roots = [], []
    for line in open(path):
        line = line.split("#")[0].strip()
        if not line:
            continue
        if line.startswith("import "):
            imports.append(line[7:])
        else:
            roots.append(line)
    return imports, roots


def gen_extract_v(areas):
    imports, roots = [], []
    for a in areas:
        im, ro = _area_roots(os.path.join(EXTRACT_SRC, "roots", a + ".txt"))
        for x in im:
            if x not in imports:
                imports.append(x)
        for x in ro:
            if x not in roots:
                roots.append(x)
    return ("(* generated from extract/roots/*.txt; only ExtrOcamlBasic directives are used *)\n"
            "From Coq Require Extraction ExtrOcamlBasic.\n"
            "From GE Require Import %s.\nExtraction Language OCaml.\n"
            "(* naming only: keep extracted module names from shadowing OCaml's stdlib modules *)\n"
            "Extraction Blacklist String List Char Printf Hashtbl Buffer Stdlib.\nSeparate Extraction\n  %s.\n" % (
                " ".join(imports), "\n  ".join(roots)))


def modelrun_build():
    """Extracts the models area by area (extract/roots/<area>.txt + extract/handlers/<area>.ml). An area whose
    Coq models do not compile is left out (its commands then answer 'ERR unknown command'), so that one broken
    model cannot take the other properties' checks down."""
    with Lock("extract"):
        os.makedirs(EXTRACT_OUT, exist_ok=True)
        hd = os.path.join(EXTRACT_SRC, "handlers")
        rd = os.path.join(EXTRACT_SRC, "roots")
        srcs = [f for f in coq_files() if "/Model/" in f] + \
               [os.path.join(EXTRACT_SRC, "driver_base.ml"), os.path.join(EXTRACT_SRC, "driver_main.ml")] + \
               [os.path.join(hd, f) for f in os.listdir(hd) if f.endswith(".ml")] + \
               [os.path.join(rd, f) for f in os.listdir(rd)]
        hv = _hash_files(srcs)
        stamp = os.path.join(EXTRACT_OUT, "stamp")
        exe = os.path.join(EXTRACT_OUT, "modelrun")
        if os.path.exists(stamp) and os.path.exists(exe) and open(stamp).read() == hv:
            return exe
        areas = []
        for f in sorted(os.listdir(rd)):
            if not f.endswith(".txt"):
                continue
            a = f[:-4]
            im, _ = _area_roots(os.path.join(rd, f))
            ok, blog = coq_build(sorted(set(x.replace(".", "/") + ".vo" for x in im)))
            if ok:
                areas.append(a)
            else:
                log("WARNING: models of area %s do not compile; area left out of modelrun\n%s" % (a, blog[-1500:]))
        if "00base" not in areas:
            raise Infra("base models do not compile")
        for f in os.listdir(EXTRACT_OUT):
            if f.endswith((".ml", ".mli", ".cmi", ".cmx", ".o", ".vo", ".vok", ".vos", ".glob", ".v")):
                os.remove(os.path.join(EXTRACT_OUT, f))
        open(os.path.join(EXTRACT_OUT, "Extract.v"), "w").write(gen_extract_v(areas))
        sh(["timeout", "900", "coqc", "-Q", COQ, "GE", "Extract.v"], cwd=EXTRACT_OUT)
        sh("cp %s/driver_base.ml %s/driver_main.ml ." % (EXTRACT_SRC, EXTRACT_SRC), cwd=EXTRACT_OUT)
        hs = []
        for a in areas:
            hf = os.path.join(hd, a + ".ml")
            if os.path.exists(hf):
                sh(["cp", hf, os.path.join(EXTRACT_OUT, "h_" + a + ".ml")])
                hs.append("h_" + a + ".ml")
        sh("ocamlfind ocamlopt -w -a -o modelrun $(ocamlfind ocamldep -sort $(ls *.mli *.ml | grep -v '^h_\\|^driver_')) "
           "driver_base.ml %s driver_main.ml" % " ".join(hs), cwd=EXTRACT_OUT)
        open(stamp, "w").write(hv)
        return exe


def modelrun(lines, timeout=3000):
    """lines: list[str] of model command lines. Returns list[str] results."""
    exe = modelrun_build()
    data = ("\n".join(lines) + "\n").encode("utf8")
    p = sh(["bash", "-c", "ulimit -s unlimited 2>/dev/null; exec %s" % exe], input_bytes=data, timeout=timeout)
    res = p.stdout.decode("utf8").split("\n")
    if res and res[-1] == "":
        res.pop()
    if len(res) != len(lines):
        raise Infra("modelrun returned %d lines for %d cases" % (len(res), len(lines)))
    return res


# ----------------------------------------------------------------------------- harness

def harness_build(release=False):
    with Lock("cargo"):
        lock_src = os.path.join(REPO, "Cargo.lock")
        cmd = ["cargo", "build", "--offline"] + (["--release"] if release else [])
        p = sh(cmd, cwd=HARNESS, check=False, timeout=3000)
        if p.returncode != 0:
            raise Infra("harness build failed (does /repo compile?)\n" + p.stderr.decode("utf8", "replace")[-6000:])
        return os.path.join(TARGET, "release" if release else "debug", "verif-harness")


def raise_impl_panic(args, returncode, stderr_bytes):
    """a panic of the implementation inside the harness, outside a catch (exit code 3): reported with the input the stage
    handed to the compiler last"""
    if returncode == 3:
        for line in stderr_bytes.decode("utf8", "replace").split("\n"):
            if line.startswith("IMPL-PANIC\t"):
                f = line.split("\t", 3)
                raise ImplPanic([str(a) for a in args], dec(f[1]), f[2], f[3] if len(f) > 3 else "")


def harness_run(args, release=False, timeout=3000, input_bytes=None, check=True):
    exe = harness_build(release)
    p = sh([exe] + [str(a) for a in args], timeout=timeout, input_bytes=input_bytes, check=False)
    raise_impl_panic(args, p.returncode, p.stderr)
    if check and p.returncode != 0:
        raise Infra("harness %s failed: %s" % (args, p.stderr.decode("utf8", "replace")[-4000:]))
    return p


def split_cases(stdout_text):
    """harness lines 'cmd\\targs...\\t=>\\timpl' -> (model_cmd_line, impl_result)"""
    cases = []
    for line in stdout_text.split("\n"):
        if not line:
            continue
        i = line.rfind("\t=>\t")
        if i < 0:
            raise Infra("bad harness line: " + line[:200])
        cases.append((line[:i], line[i + 4:]))
    return cases


def dec(s):
    if s == "":
        return ""
    try:
        return "".join(chr(int(x)) for x in s.split(","))
    except ValueError:
        return s


def enc(s):
    return ",".join(str(ord(c)) for c in s)


# ----------------------------------------------------------------------------- known findings

def known_findings():
    p = os.path.join(VERIF, "known_findings.json")
    if not os.path.exists(p):
        return {"findings": [], "fixed": []}
    return json.load(open(p))


# ----------------------------------------------------------------------------- result / evidence

class Result:
    def __init__(self, pid, tier, seed):
        self.pid = pid
        self.tier = tier
        self.seed = seed
        self.t0 = time.time()
        # replay files of earlier runs of this property are stale
        if os.path.isdir(REPLAYS):
            for f in os.listdir(REPLAYS):
                if f.startswith(pid + "_"):
                    os.remove(os.path.join(REPLAYS, f))
        self.violations = []      # list of dict(replay=..., what=..., no_input=bool)
        self.known = []           # list of strings
        self.cov = {"evaluations": 0, "distinct_nontrivial": 0, "rule": "", "samples": [],
                    "obligations": 0, "discharged": 0, "checker_cmd": "", "trusted_base": list(TRUSTED_BASE)}
        self.assumptions = []
        self.notes = {}

    def violation(self, what, replay_obj, no_input=False):
        os.makedirs(REPLAYS, exist_ok=True)
        idx = len(self.violations)
        path = os.path.join(REPLAYS, "%s_%d.json" % (self.pid, idx))
        # (values delivered by a broken implementation may hold lone surrogates: written with escapes)
        with open(path, "w", encoding="utf8", errors="backslashreplace") as f:
            json.dump({"property": self.pid, "what": what, "replay": replay_obj, "seed": self.seed, "tier": self.tier},
                      f, indent=1, ensure_ascii=False)
        self.violations.append({"what": what, "replay": path, "no_input": no_input})

    def finish(self):
        wall = time.time() - self.t0
        ev = {
            "property_id": self.pid, "tier": self.tier, "seed": self.seed, "level": "proof",
            "coverage": self.cov, "assumptions": self.assumptions, "wall_s": round(wall, 2),
            "violations": len(self.violations),
        }
        ev["coverage"].update(self.notes)
        os.makedirs(os.path.join(VERIF, "evidence"), exist_ok=True)
        with open(os.path.join(VERIF, "evidence", self.pid + ".json"), "w", encoding="utf8", errors="backslashreplace") as f:
            json.dump(ev, f, indent=1, ensure_ascii=False)
        for k in self.known:
            print("KNOWN-FINDING: property=%s %s" % (self.pid, k))
        seen = set()
        for v in self.violations:
            key = v["what"][:80]
            if key in seen and len(seen) > 20:
                continue
            seen.add(key)
            print("VIOLATION property=%s replay=%s%s" % (
                self.pid, v["replay"], " no-failing-input-found" if v["no_input"] else ""))
            log("  -> " + v["what"][:600])
        print("%s %s tier=%s evaluations=%d obligations=%d/%d wall=%.1fs" % (
            self.pid, "FAIL" if self.violations else "ok", self.tier, self.cov["evaluations"],
            self.cov["discharged"], self.cov["obligations"], wall))
        return 1 if self.violations else 0


def proof_phase(res, pid, expected_theorems):
    """Build Coq, run the gate, re-check the property file. Adds violations (no-failing-input-found)
    if a proof obligation no longer checks; callers then search for a failing input."""
    bad = coq_gate()
    ok, blog = coq_build(["Properties/%s.vo" % pid])
    info = coq_property(pid) if ok else {"ok": False, "theorems": [], "closed": 0, "axioms": [], "bad_axioms": [],
                                         "assumption_reports": 0, "log": blog[-3000:]}
    res.cov["checker_cmd"] = "cd /verif/coq && make -j16 && coqc -Q . GE Properties/%s.v (Print Assumptions per theorem); grep gate for Admitted/admit/Axiom/Parameter/unsafe flags" % pid
    res.cov["obligations"] = len(expected_theorems)
    missing = [t for t in expected_theorems if t not in info["theorems"]]
    discharged = 0
    if ok and info["ok"] and not bad and not info["bad_axioms"] and not missing and \
            info["assumption_reports"] >= len(info["theorems"]):
        discharged = len(expected_theorems)
    res.cov["discharged"] = discharged
    res.notes["theorems"] = info["theorems"]
    res.notes["axioms_reported"] = info["axioms"]
    res.notes["closed_under_global_context"] = info["closed"]
    if discharged != len(expected_theorems):
        what = "proof obligations of %s no longer check: gate=%s missing=%s bad_axioms=%s build_ok=%s\n%s" % (
            pid, bad, missing, info["bad_axioms"], ok and info["ok"], info["log"][-1500:])
        return False, what
    return True, ""


# ----------------------------------------------------------------------------- bulk (streamed) model/impl comparison

def bulk_compare(harness_args, tag, shards=12, release=False, max_report=20, eq=None):
    """Runs the harness writing 'cmd\\targs\\t=>\\timpl' lines to a file, evaluates the model on the
    command parts with `shards` parallel modelrun processes and compares line by line.
    Returns dict(n=..., mismatches=[(cmd, impl, model)], kinds={cmd: count}, samples=[...])."""
    exe = harness_build(release)
    mexe = modelrun_build()
    wd = os.path.join(CACHE, "bulk", tag)
    sh("rm -rf %s && mkdir -p %s" % (wd, wd))
    cases = os.path.join(wd, "cases.tsv")
    with open(cases, "wb") as f:
        p = subprocess.run([exe] + [str(a) for a in harness_args], stdout=f, stderr=subprocess.PIPE, timeout=3000)
    if p.returncode != 0:
        raise_impl_panic(harness_args, p.returncode, p.stderr)
        raise Infra("harness %s failed: %s" % (harness_args, p.stderr.decode("utf8", "replace")[-2000:]))
    # split into shards, then into cmd / impl columns
    sh("split -n l/%d -d -a 3 cases.tsv shard_" % shards, cwd=wd)
    script = r"""
set -e
for f in shard_???; do
  ( awk -F'\t=>\t' '{print $1}' "$f" > "$f.cmd"; awk -F'\t=>\t' '{print $NF}' "$f" > "$f.impl";
    (ulimit -s unlimited 2>/dev/null; %s < "$f.cmd" > "$f.model") ) &
done
wait
""" % mexe
    sh(["bash", "-c", script], cwd=wd, timeout=3000)
    n = 0
    mism = []
    kinds = {}
    samples = []
    for sf in sorted(x for x in os.listdir(wd) if re.match(r"^shard_\d+$", x)):
        with open(os.path.join(wd, sf + ".cmd"), encoding="utf8") as fc, \
                open(os.path.join(wd, sf + ".impl"), encoding="utf8") as fi, \
                open(os.path.join(wd, sf + ".model"), encoding="utf8") as fm:
            first = True
            for c, i, m in zip(fc, fi, fm):
                n += 1
                k = c[:c.find("\t")] if "\t" in c else c.strip()
                kinds[k] = kinds.get(k, 0) + 1
                if first and len(samples) < 8:
                    samples.append((c.rstrip("\n"), i.rstrip("\n")))
                    first = False
                same = (i == m) if eq is None else eq(i.rstrip("\n"), m.rstrip("\n"))
                if not same and len(mism) < max_report:
                    mism.append((c.rstrip("\n"), i.rstrip("\n"), m.rstrip("\n")))
                elif not same:
                    mism.append(None)
    n_mis = len(mism)
    mism = [x for x in mism if x is not None]
    sh("rm -rf %s" % wd)
    return {"n": n, "n_mismatch": n_mis, "mismatches": mism, "kinds": kinds, "samples": samples}


RLD_STATE = {"path": None, "error": None, "done": False}
IDX_STATE = {"path": None, "error": None, "done": False}


def _translate(state, rel, fn_name, prefix):
    """translates a TypeScript file of /repo's runtime to JavaScript (lib/tsstrip.py, type erasure), checks the syntax with
    node and returns the path of the generated module, or None with state['error'] set.  Regenerated whenever the source
    or the translator changes (content hash in the file name); never stored under /verif outside .cache."""
    if state["done"]:
        return state["path"]
    state["done"] = True
    import hashlib
    sys.path.insert(0, os.path.join(VERIF, "lib"))
    import tsstrip
    srcp = os.path.join(REPO, *rel.split("/"))
    try:
        src = open(srcp, encoding="utf8").read()
        h = hashlib.sha256((src + open(os.path.join(VERIF, "lib", "tsstrip.py")).read()).encode("utf8")).hexdigest()[:16]
        outp = os.path.join(CACHE, "%s_%s.js" % (prefix, h))
        if not os.path.exists(outp):
            js = getattr(tsstrip, fn_name)(src)
            tmp = outp[:-3] + ".tmp.js"
            open(tmp, "w", encoding="utf8").write(js)
            pr = subprocess.run(["node", "--check", tmp], capture_output=True)
            if pr.returncode != 0:
                raise tsstrip.StripError("generated JavaScript does not parse: " + pr.stderr.decode("utf8", "replace")[:400])
            for f in os.listdir(CACHE):
                if f.startswith(prefix + "_") and f.endswith(".js") and not f.endswith(".tmp.js"):
                    os.remove(os.path.join(CACHE, f))
            os.rename(tmp, outp)
        state["path"] = outp
    except Exception as e:  # the translator could not erase the types: callers report it (C06)
        state["error"] = "%s: %s" % (type(e).__name__, e)
        state["path"] = None
    return state["path"]


def real_list_manager():
    """glass-easel/src/tmpl/range_list_diff.ts (class RangeListManager)"""
    return _translate(RLD_STATE, "glass-easel/src/tmpl/range_list_diff.ts", "strip", "rld")


def real_template_instance():
    """glass-easel/src/tmpl/index.ts (class GlassEaselTemplateInstance: updateValues builds the update path trees)"""
    return _translate(IDX_STATE, "glass-easel/src/tmpl/index.ts", "strip_index", "idx")


def node_jobs(jobs, timeout=3000, shards=8):
    """Runs jsrt/run.js on a list of JSON-serialisable jobs (in parallel shards); returns results in order.
    wx:for lists are managed by the real runtime's RangeListManager (translated from /repo on every run)."""
    import json as _json
    if not jobs:
        return []
    env = dict(os.environ)
    rld = real_list_manager()
    if rld:
        env["GE_RLD_JS"] = rld
    idx = real_template_instance()
    if idx:
        env["GE_IDX_JS"] = idx
    shards = max(1, min(shards, len(jobs)))
    chunks = [jobs[i::shards] for i in range(shards)]
    procs = []
    for ch in chunks:
        data = ("\n".join(_json.dumps(j) for j in ch) + "\n").encode("utf8")
        pr = subprocess.Popen(["node", "--stack-size=4000", os.path.join(VERIF, "jsrt", "run.js")],
                              stdin=subprocess.PIPE, stdout=subprocess.PIPE, stderr=subprocess.PIPE, env=env)
        procs.append((pr, data))
    outs = []
    import threading
    results = [None] * len(procs)

    def work(i):
        pr, data = procs[i]
        try:
            o, e = pr.communicate(data, timeout=timeout)
            results[i] = (pr.returncode, o, e)
        except subprocess.TimeoutExpired:
            pr.kill()
            results[i] = (-9, b"", b"timeout")
    ths = [threading.Thread(target=work, args=(i,)) for i in range(len(procs))]
    for t in ths:
        t.start()
    for t in ths:
        t.join()
    per = []
    for (rc, o, e), ch in zip(results, chunks):
        lines = [l for l in o.decode("utf8").split("\n") if l]
        if rc != 0 or len(lines) != len(ch):
            raise Infra("node runner failed rc=%s lines=%d/%d: %s" % (rc, len(lines), len(ch), e.decode("utf8", "replace")[-2000:]))
        per.append([_json.loads(l) for l in lines])
    res = [None] * len(jobs)
    for s, lst in enumerate(per):
        for k, r in enumerate(lst):
            res[s + k * shards] = r
    return res
