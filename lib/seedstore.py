#!/usr/bin/env python3
"""store a confirmed seeded change: seedstore.py <id> <srcdir> <caught-by> <note>"""
import json, os, shutil, sys
sid, src, caught, note = sys.argv[1:5]
dst = os.path.join('/verif/seeded', sid)
os.makedirs(dst, exist_ok=True)
for f in os.listdir(src):
    if f in ('meta.json',):
        continue
    p = os.path.join(src, f)
    if os.path.isfile(p) and os.path.getsize(p) < 2_000_000:
        shutil.copy(p, os.path.join(dst, f))
m = json.load(open(os.path.join(src, 'meta.json')))
out = {
    'property': m.get('property'),
    'what_breaks': m.get('what_breaks'),
    'needs_to_manifest': m.get('needs_to_manifest'),
    'files_touched': m.get('files_touched'),
    'confirmed_by_me': 'patch applies to the clean tree; cargo test --workspace (84 tests) passes with it; the demonstration fails with it and passes without it (re-run by the agent in its scratch worktree and spot-checked by me); applied to /repo, registered check run, then reverted with git checkout',
    'check_result': caught,
    'note': note,
}
json.dump(out, open(os.path.join(dst, 'meta.json'), 'w'), indent=1)
print('stored', dst)
