"""C02 — every emitted JavaScript artefact is a syntactically valid program."""
import json
from vcheck import *

MANIFEST = {
    "id": "C02",
    "text": "Coq theorems on the identifier allocator (names are IdentifierNames, the counter->name map is injective, the allocator "
            "terminates within its fuel, never yields a reserved word / forbidden name, successive allocations are distinct, one-letter "
            "runtime names A-Z are never allocated) and on string literals (every embedded constant is a strict-mode string literal). "
            "Tie: model = implementation for all counters below 120k (quick) / 300k (thorough) and random counters < 2^40. Whole "
            "artefacts are decided by translation validation: every artefact of every generated group (and of malformed templates, "
            "odd paths / module / slot names, >= 3000-declaration templates) must parse under node in sloppy and strict mode.",
    "note": "Partial: there is no ECMAScript grammar in Coq; node's parser is the oracle for whole artefacts, theorems cover the "
            "identifier and literal layers only. Inline <wxs> bodies are assumed valid JavaScript (hypothesis of the property).",
    "technique": "Coq proof (identifier allocator, literals) + exhaustive model/implementation correspondence + translation validation with node vm.Script",
    "jsrt": True,
}

THEOREMS = ["C02_var_name_valid", "C02_var_name_injective", "C02_var_name_not_runtime", "C02_alloc_total",
            "C02_alloc_not_reserved", "C02_alloc_valid", "C02_alloc_fresh", "C02_raw_counter_reaches_reserved",
            "C02_lit_str_is_string_literal"]


def run(res):
    ok, what = proof_phase(res, "C02", THEOREMS)
    r = bulk_compare(["ident", res.tier, res.seed], "C02")
    found = False
    for (c, i, m) in r["mismatches"][:5]:
        f = c.split("\t")
        res.violation("identifier allocator: implementation and model disagree at counter %s: impl=%s model=%s" % (
            f[1], dec(i.split(";")[0]), dec(m.split(";")[0])), {"cmd": f[0], "counter": f[1], "impl": i, "model": m}, no_input=True)
    p = harness_run(["artefacts", res.tier, res.seed], timeout=3000)
    arts = [json.loads(l) for l in p.stdout.decode("utf8").split("\n") if l]
    feats = [a for a in arts if a["kind"] == "features"]
    arts = [a for a in arts if a["kind"] == "artefact"]
    out = node_jobs([{"op": "syntax", "id": k, "src": a["src"]} for k, a in enumerate(arts)])
    kinds = {}
    total_bytes = 0
    distinct = set()
    for a, o in zip(arts, out):
        kk = a["artefact"].split(":")[0]
        kinds[kk] = kinds.get(kk, 0) + 1
        total_bytes += len(a["src"])
        distinct.add(hash(a["src"]))
        if o.get("sloppy") or o.get("strict"):
            found = True
            res.violation("artefact %s of group %s is not valid JavaScript (sloppy: %s; strict: %s)" % (
                a["artefact"], a["id"], o.get("sloppy"), o.get("strict")),
                {"artefact": a["artefact"], "group": a["id"], "wxml": a.get("wxml"), "js_head": a["src"][:2000]})
    if not ok:
        res.violation(what, {"obligation": "Properties/C02.v"}, no_input=not found)
    res.cov["evaluations"] = r["n"] + len(arts)
    res.cov["distinct_nontrivial"] = len(distinct)
    res.cov["rule"] = ("allocator: every counter value below the bound plus random counters; artefacts: every emit API on generated "
                       "multi-file groups (dev mode on/off, extra runtime script, scripts), malformed templates, odd names, "
                       "size-scaled templates; distinct_nontrivial = distinct artefact texts")
    res.cov["samples"] = [{"artefact": a["artefact"], "group": a["id"], "js_head": a["src"][:160]} for a in arts[:: max(1, len(arts) // 4)][:4]]
    res.notes.update({"allocator_cases": r["n"], "artefact_kinds": kinds, "artefact_bytes": total_bytes,
                      "template_features": feats[0]["features"] if feats else {}})
