"""C18 — @import is replaced by a faithful placeholder."""
from props.csscommon import *

MANIFEST = {
    "id": "C18",
    "text": "Coq (all strings of Unicode scalar values): C18_url_roundtrip (percent-decoding then UTF-8 decoding inverts "
            "urlencoding::encode), C18_url_alphabet (subset of [A-Za-z0-9-._~%]), C18_url_no_comment_end (`*/` cannot "
            "occur); on the model of parse_at_rule, for all paths/positions/states: C18_import_placeholder, "
            "C18_import_media_wrapper (one balanced @media{} pair), C18_import_passthrough (no sign => generic at-rule), "
            "C18_import_position_warning, C18_import_start_survives / _lost (the start of the sheet survives @import / @charset "
            "rules only), C18_import_bare_layer_wrapper / C18_import_layer_wrapper (anonymous and named layer, any letter case), "
            "C18_import_placeholder_url / _url_fn and C18_import_any_target (string and url "
            "forms, every sign and path: the statement that D17 refuted before fix eb11eee is now a theorem). REFUTED for "
            "the current code: C18_import_braces_balanced_refuted "
            "(`@import 'a' layer(x) 5;` leaves `@layer x{` open: output written before a failing try_parse is not rolled "
            "back). Each run: paths over all Unicode planes incl. quotes, `*/`, `%`, spaces in string and url() form x "
            "layer/supports/media combinations and positions; the path recovered from each placeholder of the real output "
            "must equal the imported path, wrappers must balance, warnings must match.",
    "note": "Differential only: the token streams of layer()/supports()/media conditions (compared with the executable "
            "specification). No known class is left for this property (D17, D13-inside-supports(), D25, keyword letter case, the bare `layer` keyword and the position flag of a second import were repaired in /repo). Import signs are assumed not to contain `*/`.",
    "technique": "Coq proof (lists of code points, all lengths) + symbolic model lemmas + refutation witnesses + recovery "
                 "test on the implementation output",
}

THEOREMS = ["C18_url_roundtrip", "C18_url_alphabet", "C18_url_no_comment_end", "C18_import_placeholder",
            "C18_import_media_wrapper", "C18_import_passthrough", "C18_import_passthrough_layer", "C18_import_position_warning",
            "C18_import_placeholder_url", "C18_import_placeholder_url_fn", "C18_import_any_target",
            "C18_import_braces_balanced_refuted", "C18_import_bare_layer_wrapper", "C18_import_layer_wrapper",
            "C18_import_start_survives", "C18_import_start_lost"]


def run(res):
    css_check(res, "C18", THEOREMS, ["c18_imports", "wf_clean"],
              "generated @import rules (fixed pool of awkward paths + random code points from all planes) at the start, "
              "in the middle and inside at-rules; non-trivial = imports whose placeholder was decoded and compared with "
              "the source path")
