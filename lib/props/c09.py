"""C09 — class prefixing hits every class selector and nothing else."""
from props.csscommon import *

MANIFEST = {
    "id": "C09",
    "text": "Coq: C09_prefix_nothing_else (from the token-preservation induction: for every token tree and option set "
            "without @import/:host rewriting every output token is the input token itself, or `<prefix>--<name>` of an "
            "identifier, or the vw form of an rpx dimension) with C09_tok_rel_not_ident (anything that is not an "
            "identifier/dimension is unchanged: ids, attribute selectors and values, pseudo names, strings, hashes, "
            "numbers); C09_prefix_none_identity, C09_prefix_only_after_dot, C09_prefix_form (exact form, sign comment, "
            "source-map name) for the class-name writer. The whole-sheet statement (C09_prefix_exact_full: identifier/sign "
            "sequence = specification) is still REFUTED by the model of the current code, now only by D25 (`@import 'a' "
            "layer(b.t)` prefixes the layer name); the former witness `.a:not(:is(.b .c))` (D13, repaired) satisfies it "
            "(Example prefix_exact_former_d13). Each run compares the identifier / "
            "sign-comment sequence of the re-tokenised implementation output with the specification's for every "
            "well-formed generated sheet outside the known classes, for prefixes none/empty/ASCII/non-ASCII/needing escapes.",
    "note": "NOT proved: that every `.name` of a selector context outside the known classes IS prefixed (positive half, all "
            "depths) — differential only (spec vs implementation output on each run; sheets of the repaired classes D13 / D14 "
            "are checked like all others now). Known: D25 (import layer(a.b)).",
    "technique": "Coq proof by induction over token trees + refutation witness + executable-spec conformance of the "
                 "implementation output",
}

THEOREMS = ["C09_prefix_nothing_else", "C09_tok_rel_not_ident", "C09_prefix_none_identity", "C09_prefix_only_after_dot",
            "C09_prefix_form", "C09_prefix_exact_refuted"]


def run(res):
    css_check(res, "C09", THEOREMS, ["c09_prefixed_idents", "c09_cases_with_prefix_or_sign", "wf_clean"],
              "same generated stylesheets as C08; non-trivial = prefixed class identifiers whose position and spelling were "
              "compared with the specification (sheets with a prefix or sign configured, outside the known classes)")
