"""C09 — class prefixing hits every class selector and nothing else."""
from props.csscommon import *

MANIFEST = {
    "id": "C09",
    "text": "Coq: C09_prefix_nothing_else (from the token-preservation induction: for every token tree and option set "
            "without @import/:host rewriting every output token is the input token itself, or `<prefix>--<name>` of an "
            "identifier, or the vw form of an rpx dimension) with C09_tok_rel_not_ident (anything that is not an "
            "identifier/dimension is unchanged: ids, attribute selectors and values, pseudo names, strings, hashes, "
            "numbers); C09_prefix_none_identity, C09_prefix_only_after_dot, C09_prefix_form (exact form, sign comment, "
            "source-map name) for the class-name writer. C09_class_exact_rule: for EVERY qualified rule (prelude with blocks/functions "
            "nested to any depth, comments anywhere, any declaration block) the identifier / sign-comment sequence "
            "written equals the specification's (every `.name` in selector context prefixed and signed, nothing else) "
            "- induction over both walkers. C09_class_exact_sheet: the same for WHOLE SHEETS of every size and depth and EVERY "
            "option set (prefix, sign, import sign, host conversion): rule splitting, at-rule preludes and their blocks, rule "
            "lists nested in every rule-bearing at-rule, the @import walkers (target, layer / layer() / supports() conditions, "
            "media query, placeholder, wrappers) and the :host classification - lockstep induction of the walker `rules` "
            "against the specification `rules_spec`, for every well-shaped tree whose rules the specification finds complete. "
            "(The statement was refuted by D13 and by D25 before their repair: C09_former_witnesses_now_exact.) Each run compares the identifier / "
            "sign-comment sequence of the re-tokenised implementation output with the specification's for every "
            "well-formed generated sheet outside the known classes, for prefixes none/empty/ASCII/non-ASCII/needing escapes.",
    "note": "The theorem speaks about the normal output of the model; the tie to the implementation is the byte-exact "
            "model/implementation correspondence of every run plus the spec-vs-implementation comparison (no known class touches "
            "identifiers: D13 D14 D25 were repaired in /repo). Not covered by the theorem: the identifiers of the low-priority "
            "output (host rules), sheets with incomplete rules (malformed).",
    "technique": "Coq proof by induction over token trees + executable-spec conformance of the "
                 "implementation output",
}

THEOREMS = ["C09_prefix_nothing_else", "C09_tok_rel_not_ident", "C09_prefix_none_identity", "C09_prefix_only_after_dot",
            "C09_prefix_form", "C09_class_exact_rule", "C09_former_witnesses_now_exact", "C09_class_exact_sheet"]


def run(res):
    css_check(res, "C09", THEOREMS, ["c09_prefixed_idents", "c09_cases_with_prefix_or_sign", "wf_clean"],
              "same generated stylesheets as C08; non-trivial = prefixed class identifiers whose position and spelling were "
              "compared with the specification (sheets with a prefix or sign configured, outside the known classes)")
