"""C09 — class prefixing hits every class selector and nothing else."""
from props.csscommon import *

MANIFEST = {
    "id": "C09",
    "text": "Coq: C09_prefix_nothing_else (from the token-preservation induction: for every token tree and option set "
            "without @import/:host rewriting every output token is the input token itself, or `<prefix>--<name>` of an "
            "identifier, or the vw form of an rpx dimension) with C09_tok_rel_not_ident (anything that is not an "
            "identifier/dimension is unchanged: ids, attribute selectors and values, pseudo names, strings, hashes, "
            "numbers); C09_prefix_none_identity, C09_prefix_only_after_dot, C09_prefix_form (exact form, sign comment, "
            "source-map name) for the class-name writer. C09_class_exact_rule: for EVERY qualified rule (prelude with blocks/functions "
            "nested to any depth, comments anywhere, any declaration block) the identifier / sign-comment sequence "
            "written equals the specification's (every `.name` in selector context prefixed and signed, nothing else) "
            "- induction over both walkers. C09_class_exact_sheet: the same for WHOLE SHEETS of every size and depth (rule "
            "splitting, at-rule preludes and their blocks, rule lists nested in every rule-bearing at-rule), for every option "
            "set without @import / :host rewriting and every well-shaped tree whose rules are complete - lockstep induction "
            "of the walker `rules` against the specification `rules_spec`. With the rewrites on, the whole-sheet statement "
            "was refuted by D13 and then by D25; both are repaired and their witnesses satisfy it "
            "(C09_former_witnesses_now_exact). Each run compares the identifier / "
            "sign-comment sequence of the re-tokenised implementation output with the specification's for every "
            "well-formed generated sheet outside the known classes, for prefixes none/empty/ASCII/non-ASCII/needing escapes.",
    "note": "NOT proved: the whole-sheet statement with an import sign or host conversion configured (@import conditions, "
            ":host wrappers) - differential (spec vs implementation output on each run; no known class touches "
            "identifiers any more: D13 D14 D25 were repaired in /repo).",
    "technique": "Coq proof by induction over token trees + executable-spec conformance of the "
                 "implementation output",
}

THEOREMS = ["C09_prefix_nothing_else", "C09_tok_rel_not_ident", "C09_prefix_none_identity", "C09_prefix_only_after_dot",
            "C09_prefix_form", "C09_class_exact_rule", "C09_former_witnesses_now_exact", "C09_class_exact_sheet"]


def run(res):
    css_check(res, "C09", THEOREMS, ["c09_prefixed_idents", "c09_cases_with_prefix_or_sign", "wf_clean"],
              "same generated stylesheets as C08; non-trivial = prefixed class identifiers whose position and spelling were "
              "compared with the specification (sheets with a prefix or sign configured, outside the known classes)")
