"""C10 — rpx conversion is arithmetically right; other numbers keep their value."""
from props.csscommon import *

MANIFEST = {
    "id": "C10",
    "text": "Coq: C10_rpx_only (any unit other than exactly `rpx` is written unchanged), C10_rpx_formula (value*100/ratio as "
            "two f32 operations, unit vw, sign flag kept, original token as source-map name), C10_int_exact_refuted "
            "(`2147483647` is printed `2147480000`: the full 'integers exactly' statement is false for the current code, "
            "D16), C10_int_exact_upto_100000 (every integer 0..100000 is printed exactly — by evaluating the model on every "
            "value), C10_units_exact_sheet (the unit of every dimension of the whole normal output is the specification's - vw exactly "
            "for the rpx dimensions the specification converts, in declarations, functions, selector and at-rule prelude blocks, "
            "custom properties, @import conditions - for every sheet and option set outside class D29), C10_prelude_rpx_refuted (`@a 75rpx;`: an rpx dimension directly in an at-rule prelude is left unconverted, "
            "known finding D29 pinned by a unit test of /repo). The f32 arithmetic and cssparser's number printer (dtoa Grisu2-f32 + dtoa-short 6 digits) are "
            "transliterated in Gallina and tied to the binaries by differential testing: every numeric token of every "
            "generated sheet is printed by both (byte-exact agreement is part of the model/implementation comparison), "
            "and each run checks the implementation's printed values against exact rationals computed from the source "
            "spelling: |out-expected| <= eps_f32*|expected| (rpx: two roundings), integers exactly, units untouched.",
    "note": "Differential only (not proved): correctness of the float model w.r.t. IEEE-754 and of the printer w.r.t. the "
            "reals; the relative-error bound. Known finding D16: any value that needs more than 6 significant digits "
            "(class decided per token: round_to_6_significant(expected) is outside the tolerance / differs for integers). Known finding D29: rpx directly in an at-rule prelude (class CssSpec.k29_list). An rpx value whose product with 100 overflows f32 is outside the property (the formula value*100/ratio itself overflows).",
    "technique": "Coq lemmas on the rewrite + bounded evaluation in Coq + exact-rational oracle on the implementation output",
}

THEOREMS = ["C10_rpx_only", "C10_rpx_formula", "C10_int_exact_refuted", "C10_int_exact_upto_100000",
            "C10_prelude_rpx_refuted", "C10_units_exact_sheet"]


def run(res):
    css_check(res, "C10", THEOREMS, ["c10_tokens", "c10_rpx", "c10_ints", "c10_out_of_f32_range", "c10_cases_skipped_nonconforming"],
              "numeric tokens (numbers, percentages, dimensions) of the generated sheets: integers over the whole i32 "
              "range incl. boundaries and 10^k+-1, decimals with up to 14 digits, exponents, signed zero, leading + and "
              "leading '.', ratios {750,10,1,3,0.1,375.5}; non-trivial = numeric tokens whose printed value was compared "
              "with the exact rational of the source spelling")
