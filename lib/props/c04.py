"""C04 — creation renders the node tree that WXML semantics define."""
import json
from vcheck import *

MANIFEST = {
    "id": "C04",
    "text": "Coq: `render`, an executable SPECIFICATION of creation written from the documented WXML semantics (text / attribute "
            "values, whitespace, first-truthy wx:if, wx:for over arrays / objects / strings / counts with item then index, block "
            "flattening, <template is data>, <slot>, one channel per attribute family with normalised names) over an evaluation "
            "fragment of expressions, with theorems about the specification (first truthy branch, one for-item per list element, "
            "blocks contribute only their children, every value attribute reaches exactly one channel). Tie: the tree recorded by "
            "the reference runtime when the REAL generated code runs under node equals the extracted specification's tree for "
            "generated templates (varied concrete syntax) x data; expressions outside the fragment make the case a skip, not a pass.",
    "note": "The specification is tied to the code only by this run (there is no proof about the generator's protocol-level output). "
            "jsrt stands in for the TypeScript runtime (no components, static stand-in for dynamic slots). <include>, <wxs> and "
            "non-integer numbers are outside the specification's fragment (covered behaviourally by C06/C14 and by C03).",
    "technique": "Coq executable specification + spec lemmas + specification/implementation correspondence under node",
    "jsrt": True,
}

THEOREMS = ["C04_render_if_first_truthy", "C04_render_else", "C04_render_for_array", "C04_render_attrs_one_per_attribute",
            "C04_route_camel_families", "C04_route_verbatim_families", "C04_route_events", "C04_route_data_hyphen", "C04_route_plain"]


def flat_virtual(nodes):
    """`<block>` contributes only its children: a virtual node that carries no slot is replaced by its children"""
    out = []
    for n in nodes:
        n = dict(n)
        if "ch" in n:
            n["ch"] = flat_virtual(n["ch"])
        if n.get("k") == "virtual" and n.get("slot") in (None, {"$u": 1}):
            out.extend(n.get("ch", []))
        else:
            out.append(n)
    return out


def norm(nodes):
    out = []
    for n in nodes:
        n = dict(n)
        if n.get("slot") == {"$u": 1}:
            del n["slot"]     # an undefined slot is no slot
        if "attrs" in n:
            attrs = []
            for key, rec in n["attrs"]:
                rec = {k: v for k, v in rec.items() if k not in ("model", "lv")}
                if key.startswith("v:") and key.rsplit(":", 1)[-1].startswith(("dyn", "static")):
                    key = key.rsplit(":", 1)[0]
                attrs.append([key, rec])
            # a dynamic listener replaces the previous dynamic listener of the same event (runtime semantics)
            seen_dyn = {}
            for idx, (key, rec) in enumerate(attrs):
                if key.startswith("v:") and rec.get("isDynamic"):
                    seen_dyn[(key, rec.get("final"), rec.get("mutated"), rec.get("capture"))] = idx
            attrs = [a for idx, a in enumerate(attrs)
                     if not (a[0].startswith("v:") and a[1].get("isDynamic")
                             and seen_dyn[(a[0], a[1].get("final"), a[1].get("mutated"), a[1].get("capture"))] != idx)]
            n["attrs"] = sorted(attrs, key=lambda a: json.dumps(a, sort_keys=True))
        elif n.get("k") in ("elem", "slot"):
            n["attrs"] = []
        if "ch" in n:
            n["ch"] = norm(n["ch"])
        out.append(n)
    return out


def observe_route(tree):
    """the delivery key(s) recorded by the reference runtime for the single attribute of <c><EL attr/></c>"""
    c = tree[0]
    n = c["ch"][0]
    keys = []
    for k, v in n.get("attrs", []):
        if k.startswith("r:") and v.get("model") is not None:
            k = "r!:" + k[2:]
        if k.startswith("v:"):
            parts = k.split(":")
            k = "v:%s:%d%d%d" % (":".join(parts[1:-1]), bool(v.get("final")), bool(v.get("mutated")), bool(v.get("capture")))
        keys.append(k)
    for g in n.get("generics", {}) or {}:
        keys.append("g:" + g)
    if n.get("slot") is not None:
        keys.append("slot")
    if n.get("k") == "slot" and n.get("name"):
        keys.append("slotname")
    for x in c.get("svn") or []:
        keys.append("sref:" + x)
    return keys


def static_values(res):
    """static attribute values and text with character references of every shape, rendered under node: the runtime must
    receive what the Coq model of the entity scanner (Model/TextDecode.v) decodes from the source spelling"""
    p = harness_run(["entscan", res.tier + "-render", res.seed], timeout=3000)
    jobs = [json.loads(l) for l in p.stdout.decode("utf8").split("\n") if l]
    model = modelrun([j["model_cmd"] for j in jobs])
    out = node_jobs([{"op": "run", "id": k, "bundle": j["bundle"], "path": "p", "slotValues": {"$o": {}},
                      "steps": [{"create": {"$o": {}}}]} for k, j in enumerate(jobs)], shards=8)
    found = 0
    for j, m, o in zip(jobs, model, out):
        if m.startswith(("ERR", "EXC")):
            raise Infra("entscan model failed: %s" % m)
        want = dec(m)
        if o.get("error"):
            got_attr = got_text = "throws: " + o["error"][:80]
        else:
            n = o["trees"][0][0]
            got_attr = dict((k, v) for k, v in n.get("attrs", [])).get("r:a", {}).get("v")
            got_text = n["ch"][0]["text"] if n.get("ch") else None
        if got_attr != want or got_text != "[" + want + "]":
            found += 1
            if found <= 4:
                res.violation("static value %r reaches the runtime as attribute %r / text %r, the WXML spelling denotes %r" % (
                    j["text"], got_attr, got_text, want), {"src": j["src"], "attribute": got_attr, "text": got_text, "expected": want})
    return len(jobs), found


def attr_routes(res):
    p = harness_run(["attrroute", res.tier, res.seed], timeout=3000)
    jobs = [json.loads(l) for l in p.stdout.decode("utf8").split("\n") if l]
    model = modelrun(["attr_route\t%s\t%s" % (j["el"], enc(j["raw"])) for j in jobs])
    data = {"$o": {"a": "A", "f": {"$fn": "ff"}}}
    out = node_jobs([{"op": "run", "id": k, "bundle": j["bundle"], "path": "p", "slotValues": {"$o": {}},
                      "steps": [{"create": data}]} for k, j in enumerate(jobs)], shards=8)
    found = 0
    for j, m, o in zip(jobs, model, out):
        if m.startswith(("ERR", "EXC")):
            raise Infra("attr_route model failed: %s" % m)
        exp = [dec(m[1:])] if m.startswith("S") else []
        if o.get("error"):
            got = ["throws: " + o["error"][:100]]
        else:
            got = observe_route(o["trees"][0])
        if got != exp:
            found += 1
            if found <= 6:
                res.violation("attribute %r on <%s> reaches the runtime as %s, the attribute-family model says %s (diagnostics: %s)" % (
                    j["raw"], j["el"], got or "nothing", exp or "nothing", j["diags"]), {"src": j["src"], "observed": got, "model": exp})
    return len(jobs), found


def run(res):
    ok, what = (True, "")
    if THEOREMS:
        ok, what = proof_phase(res, "C04", THEOREMS)
    p = harness_run(["render", res.tier, res.seed], timeout=3000)
    jobs_in = [json.loads(l) for l in p.stdout.decode("utf8").split("\n") if l]
    model = modelrun([j["model_cmd"] for j in jobs_in])
    out = node_jobs([{"op": "run", "id": k, "bundle": j["bundle"], "path": "p", "slotValues": j["slotValues"],
                      "steps": [{"create": j["data"]}]} for k, j in enumerate(jobs_in)], shards=12)
    found = 0
    n_cmp = n_skip = 0
    feats = {}
    nontrivial = 0
    for j, m, o in zip(jobs_in, model, out):
        if m == "SKIP":
            n_skip += 1
            continue
        if m.startswith(("ERR", "EXC")):
            raise Infra("render model failed: %s on %s" % (m, j["src"][:200]))
        if j["max_level"] >= 3:
            continue
        n_cmp += 1
        for f in j["features"]:
            feats[f] = feats.get(f, 0) + 1
        if o.get("error"):
            found += 1
            if found <= 6:
                res.violation("the generated code throws on creation although the specification defines a tree: %s" % o["error"][:200],
                              {"src": j["src"], "data": j["data"], "spec_tree": json.loads(m)})
            continue
        spec = norm(json.loads(m))
        got = norm(o["trees"][0])
        if len(m) > 60:
            nontrivial += 1
        if json.dumps(spec, sort_keys=True) != json.dumps(got, sort_keys=True):
            found += 1
            if found <= 6:
                a = json.dumps(got, sort_keys=True)
                b = json.dumps(spec, sort_keys=True)
                i = 0
                while i < min(len(a), len(b)) and a[i] == b[i]:
                    i += 1
                res.violation("created tree differs from the WXML specification near: generated ...%s | specification ...%s (template %s)" % (
                    a[max(0, i - 80):i + 80], b[max(0, i - 80):i + 80], j["src"][:200]),
                    {"src": j["src"], "data": j["data"], "slotValues": j["slotValues"], "generated_tree": got, "spec_tree": spec})
    # structural equivalences written from the documentation (a directive on an element = the directive wrapped around the
    # element), independent of the implementation's own parse tree: both sides are created with the same data
    pp = harness_run(["pairs", res.tier, res.seed], timeout=3000)
    pairs = [json.loads(l) for l in pp.stdout.decode("utf8").split("\n") if l]
    pjobs = []
    for k, j in enumerate(pairs):
        for side in ("a", "b"):
            pjobs.append({"op": "run", "id": "%d%s" % (k, side), "bundle": j["bundle_" + side], "path": j.get("path_" + side, "p"), "slotValues": {"$o": {}},
                          "steps": [{"create": j["data"]}]})
    pout = node_jobs(pjobs, shards=12)
    n_pairs = 0
    for k, j in enumerate(pairs):
        if j["level_a"] >= 3 or j["level_b"] >= 3:
            continue
        oa, ob = pout[2 * k], pout[2 * k + 1]
        n_pairs += 1
        ta = oa.get("error") or json.dumps(flat_virtual(norm(oa["trees"][0])), sort_keys=True)
        tb = ob.get("error") or json.dumps(flat_virtual(norm(ob["trees"][0])), sort_keys=True)
        if ta != tb:
            found += 1
            if found <= 6:
                i = 0
                while i < min(len(ta), len(tb)) and ta[i] == tb[i]:
                    i += 1
                res.violation("two templates that WXML semantics make equal (a directive on an element = the directive wrapped around "
                              "it) create different trees: %s | %s near ...%s vs ...%s" % (j["a"][:200], j["b"][:200], ta[max(0, i - 60):i + 60], tb[max(0, i - 60):i + 60]),
                              {"template_a": j["a"], "template_b": j["b"], "data": j["data"]})
    res.notes["structural_equivalence_pairs"] = n_pairs
    n_route, f_route = attr_routes(res)
    found += f_route
    n_sv, f_sv = static_values(res)
    found += f_sv
    res.notes["static_value_cases"] = n_sv
    # every attribute family delivers the value of its binding in the enclosing scopes (shared with C05 / C03): the Render
    # comparison above takes the implementation's own scope resolution as input, so a position the scope analysis forgets
    # would be evaluated the same wrong way on both sides
    import scopeval
    f_sc, n_sc, _, _, _ = scopeval.check(res)
    found += f_sc
    res.notes["scope_position_evaluations"] = n_sc
    if not ok:
        res.violation(what, {"obligation": "Properties/C04.v"}, no_input=(found == 0))
    res.notes["attribute_route_cases"] = n_route
    res.cov["evaluations"] = len(jobs_in) + n_route + n_sv
    res.cov["distinct_nontrivial"] = nontrivial
    res.cov["rule"] = ("generated templates (every element kind and attribute family, quote styles, self-closing vs paired, entities, "
                       "whitespace, comments between if-branches) x 2 integer/string/array/object data environments; compared = the "
                       "specification evaluates every binding; non-trivial = non-empty specification tree")
    res.cov["samples"] = [{"src": j["src"][:200]} for j in jobs_in[:3]]
    res.notes.update({"compared": n_cmp, "skipped_outside_fragment": n_skip, "feature_histogram_of_compared": feats})
