"""C07 — binding-map fast path is sound and only offered where complete."""
import copy
import json
from vcheck import *
import behave

MANIFEST = {
    "id": "C07",
    "text": "Coq: executable model of the second parsing round (scope stack, inside_dynamic_tree, collect/disable of binding-map keys, "
            "BindingMapCollector) with theorems: a field that occurs in any value analysed inside a dynamic tree or in a structural "
            "position is not advertised; every advertised field's slot count equals its number of collected occurrences. Tie: the "
            "model's analysis result (scope indices of every binding and the advertised field -> slot-count table) equals the "
            "implementation's on generated templates; behaviour: for every advertised field f, create(D0) then running exactly B[f] "
            "with D1 (D0 with only f changed) must equal create(D1) under node.",
    "note": "The runtime's bindingMapDisabled switch for dynamic slots is not modelled (jsrt has no components).",
    "technique": "Coq proof (analysis invariants) + model/implementation correspondence of the analysis + behavioural execution of B[f] under node",
    "jsrt": True,
}

THEOREMS = ["C07_disabled_not_advertised", "C07_structural_value_disables", "C07_analyse_keeps_disabled",
            "C07_include_disables_all", "C07_add_field_first", "C07_add_field_consecutive",
            "C07_value_depends_on_collected_fields", "C07_collect_keys_complete",
            "C07_setter_updater_reports_element", "C07_property_updater_reports_element"]

ALTS = [0, 1, "", "zz", None, {"$u": 1}, True, False, {"$a": [1, 2]}, {"$o": {"a": 5, "x": "n"}}, {"$nan": 1}]


def _truthy(v):
    if isinstance(v, dict):
        return not ("$u" in v or "$nan" in v or "$n0" in v)
    return bool(v)


def pick_alts(cur, f, salt):
    """two replacement values: one of the opposite truthiness, one of the same truthiness (both != cur);
    numbers / strings stay indexes / keys where possible so that index expressions keep a meaning"""
    import zlib
    h = zlib.crc32(f.encode()) + salt
    cands = [a for a in ALTS if a != cur]
    rot = cands[h % len(cands):] + cands[:h % len(cands)]
    flip = [a for a in rot if _truthy(a) != _truthy(cur)]
    same = [a for a in rot if _truthy(a) == _truthy(cur)]
    out = []
    if flip:
        out.append(flip[0])
    if same:
        out.append(same[0])
    if isinstance(cur, (int, float)) and not isinstance(cur, bool):
        out.append(cur + 1)
    if isinstance(cur, str):
        out.append({"a": "x", "x": "a", "b": "a"}.get(cur, cur + "2"))
    return out


def run(res):
    ok, what = (True, "")
    if THEOREMS:
        ok, what = proof_phase(res, "C07", THEOREMS)
    found = 0
    # 1. analysis correspondence (scopes + advertised fields)
    r = bulk_compare(["scopes", res.tier, res.seed], "C07")
    for (c, i, m) in r["mismatches"][:5]:
        found += 1
        res.violation("analysis differs from the Coq model: implementation advertises %s, model says %s (%s)" % (
            dec(i.split("|")[1]) if "|" in i else i, dec(m.split("|")[1]) if "|" in m else m, m.split("|")[0]),
            {"template_dump": c[:4000], "impl": i, "model": m}, no_input=("DIFF" in m))
    import exprtext
    rt = exprtext.run(res.tier, res.seed, "C07")
    nb = 0
    for (c, i, m) in rt["mismatches"]:
        if c.startswith("attrgen\t") and "bmap" in exprtext.classify(c, i, m):
            nb += 1
            if nb <= 3:
                res.violation("binding-map writer text differs from the Coq model: impl=%s model=%s" % (
                    dec(i.split("|")[0])[:300], dec(m.split("|")[0])[:300]), {"case": c.split("\t"), "impl": i, "model": m}, no_input=True)
    # 2. behaviour of the advertised updaters
    found_analysis = found
    found = 0
    results = behave.get_results(res.tier, res.seed, "behave") + behave.get_results(res.tier, res.seed, "behave_matrix")
    jobs = []
    meta = []
    for rr in results:
        j = rr["job"]
        run0 = rr["run"]
        if run0.get("error") or j.get("max_level", 0) >= 3:
            continue
        B = run0.get("B") or {}
        d0 = j["datas"][0]
        for k, f in enumerate(sorted(B)):
            for alt in pick_alts(d0["$o"].get(f), f, k + len(j["src"])):
                d1 = copy.deepcopy(d0)
                d1["$o"][f] = alt
                base = {"op": "run", "bundle": j["bundle"], "path": j["path"], "slotValues": j.get("slotValues")}
                jobs.append(dict(base, id="b", steps=[{"create": d0}, {"bmap": f, "data": d1}]))
                jobs.append(dict(base, id="f", steps=[{"create": d1}]))
                meta.append((j, f, d1, B[f]))
    # a field that is not advertised must be answered with `false` (the caller then updates through the tree): also for field
    # names that exist on Object.prototype
    proto_jobs = []
    proto_meta = []
    for rr in results[:40]:
        j = rr["job"]
        run0 = rr["run"]
        if run0.get("error") or j.get("max_level", 0) >= 3:
            continue
        B = run0.get("B") or {}
        for name in ("valueOf", "toString", "constructor", "hasOwnProperty", "__proto__", "zz_not_a_field"):
            if name in B:
                continue
            proto_jobs.append({"op": "run", "bundle": j["bundle"], "path": j["path"], "slotValues": j.get("slotValues"), "id": "pb",
                               "steps": [{"create": j["datas"][0]}, {"bmap": name, "data": j["datas"][0]}]})
            proto_meta.append((j, name))
    for (j, name), o in zip(proto_meta, node_jobs(proto_jobs, shards=12)):
        if o.get("error") or o.get("bmapOk") is not False:
            found += 1
            if found <= 6:
                res.violation("the binding map answers for field %r, which it does not advertise (%s): a change of that field would be "
                              "treated as handled" % (name, o.get("error") or "bindingMapUpdate returned true"),
                              {"src": j["src"], "field": name, "advertised": sorted((rr["run"].get("B") or {}).keys())})
    out = node_jobs(jobs, shards=12)
    n_eval = 0
    nontrivial = 0
    fields_seen = {}
    for k, (j, f, d1, cnt) in enumerate(meta):
        a, b = out[2 * k], out[2 * k + 1]
        n_eval += 1
        fields_seen[f] = fields_seen.get(f, 0) + 1
        if a.get("error") or b.get("error"):
            if a.get("error") and not b.get("error"):
                found += 1
                if found <= 6:
                    res.violation("running B[%s] throws: %s" % (f, a["error"][:300]), {"src": j["src"], "field": f, "data0": j["datas"][0], "data1": d1})
            continue
        if behave.canon(a["trees"][0]) != behave.canon(a["trees"][1]):
            nontrivial += 1
        if behave.canon(a["trees"][1]) != behave.canon(b["trees"][0]):
            found += 1
            if found <= 6:
                res.violation("after running exactly the %d advertised updater(s) of field %r the tree differs from a fresh creation "
                              "(the field is used where the binding map cannot reach, or an updater is wrong). template=%s" % (
                                  cnt, f, j["src"][:300]),
                              {"src": j["src"], "field": f, "data0": j["datas"][0], "data1": d1,
                               "after_bmap": a["trees"][1], "fresh": b["trees"][0]})
    if not ok:
        res.violation(what, {"obligation": "Properties/C07.v"}, no_input=(found == 0))
    if found > 0:
        for v in res.violations:
            v["no_input"] = False
    res.cov["evaluations"] = r["n"] + n_eval
    res.cov["distinct_nontrivial"] = nontrivial
    res.cov["rule"] = ("analysis: generated templates (nested if/for/template/slot/include, colliding names) dumped from the "
                       "implementation and re-analysed by the model; behaviour: every advertised field of every behavioural template x 2 "
                       "replacement values; non-trivial = the updaters changed the tree")
    res.cov["samples"] = [{"src": m[0]["src"][:200], "field": m[1]} for m in meta[:4]] or [{"note": "no advertised field in this run"}]
    res.notes.update({"analysis_cases": r["n"], "advertised_field_histogram": fields_seen, "bmap_runs": n_eval,
                      "writer_text_cases": rt["n"]})
