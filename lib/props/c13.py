"""C13 — cross-file references: path algebra (exhaustive), dependency queries, linked targets."""
from vcheck import *

MANIFEST = {
    "id": "C13",
    "text": "Coq theorems over the path model (resolve = stack-machine spec, result is normal and a fixed point of normalize, "
            "absolute references ignore the base, result depends only on the referring file's directory, normalize idempotent), "
            "for all strings; the model is tied to the code by exhaustive enumeration of all (base, rel) pairs up to 3 (quick) / 4 "
            "(thorough) segments through the hook plus dependency queries and emitted G[..]/R[..] lookups through the public API.",
    "note": "Trusted: Coq kernel, extraction (ExtrOcamlBasic), OCaml driver, Rust harness. The Gallina model of path.rs is hand-written; "
            "its tie to the code is the correspondence run (exhaustive up to the stated bound, sampled beyond).",
    "technique": "Coq proof (induction over segment lists) + exhaustive model/implementation correspondence via extracted OCaml",
}

THEOREMS = ["C13_resolve_spec", "C13_resolve_normal", "C13_resolve_is_normal", "C13_resolve_abs",
            "C13_resolve_dir_only", "C13_resolve_toplevel_file", "C13_normalize_idem", "C13_resolve_normal_base",
            "C13_template_local_first", "C13_template_last_import_wins", "C13_template_undefined"]


def _texts(nodes, acc):
    for n in nodes:
        if n.get("k") == "text":
            acc.append(n.get("text", ""))
        _texts(n.get("ch", []) or [], acc)
    return acc


LINK_NAMES = ("t", "u", "v", "toString", "constructor", "__proto__")


def links(res):
    """small groups rendered under node in several insertion orders: each <template is>, <include> and <wxs src> must reach
    the file the Coq linking model (Model/Link.v, Model/Path.v) names"""
    import json
    p = harness_run(["links", res.tier, res.seed])
    all_jobs = [json.loads(l) for l in p.stdout.decode("utf8").split("\n") if l]
    jobs = [j for j in all_jobs if j.get("kind") == "links"]
    found = n = 0
    for j in [x for x in all_jobs if x.get("kind") == "dangling"]:
        o = node_jobs([{"op": "run", "id": 0, "bundle": j["bundle"], "path": j["main"], "steps": [{"create": {"$o": {}}}]}])[0]
        n += 1
        got = "throws: " + o["error"][:200] if o.get("error") else "".join(_texts(o["trees"][0], []))
        if got != j["expect"]:
            found += 1
            res.violation("linking: dangling references named like members of Object.prototype are linked to something: %s renders %r, expected %r" % (
                j["src"][:200], got, j["expect"]), {"src": j["src"], "rendered": got, "expected": j["expect"]})
    cmds = []
    for j in jobs:
        for nm in LINK_NAMES:
            cmds.append("tmpl_owner\t" + "\t".join(j["model_args"]) + "\t" + enc(nm))
        cmds.append("path_dep\twxml\t" + "\t".join(j["include"]))
        cmds.append("path_dep\twxs\t" + "\t".join(j["wxs"]))
    model = modelrun(cmds)
    njobs = []
    for j in jobs:
        for b in j["bundles"]:
            njobs.append({"op": "run", "id": len(njobs), "bundle": b, "path": j["main"], "steps": [{"create": {"$o": {}}}]})
    out = node_jobs(njobs, shards=8)
    k = 0
    for ji, j in enumerate(jobs):
        per = len(LINK_NAMES) + 2
        m = model[per * ji:per * ji + per]
        if any(x.startswith(("ERR", "EXC")) for x in m):
            raise Infra("link model failed: %s" % m)
        want = ""
        inc = m[len(LINK_NAMES)]
        want += "(inc@%s)" % dec(inc.split(";")[0]) if inc != "?" else ""
        want += "s@%s" % dec(m[len(LINK_NAMES) + 1].split(";")[0]) if m[len(LINK_NAMES) + 1] != "?" else ""
        if j.get("inline_first"):
            want += "L@inline"   # the inline module declared before the external one
        for nm, o in zip(LINK_NAMES, m[:len(LINK_NAMES)]):
            if o.startswith("S"):
                want += "[%s@%s]" % (nm, dec(o[1:]))
        for bi in range(len(j["bundles"])):
            o = out[k]
            k += 1
            n += 1
            got = "throws: " + o["error"][:200] if o.get("error") else "".join(_texts(o["trees"][0], []))
            if got != want:
                found += 1
                if found <= 4:
                    res.violation("linking: %s renders %r in insertion order #%d, the linking model says %r" % (
                        j["src"][:300], got, bi, want), {"files": j["files"], "main": j["main"], "insertion_order_index": bi,
                                                        "rendered": got, "expected": want})
    return n, found


def run(res):
    ok, what = proof_phase(res, "C13", THEOREMS)
    n_links, f_links = links(res)
    res.notes["link_render_cases"] = n_links
    p = harness_run(["path", res.tier, res.seed])
    cases = split_cases(p.stdout.decode("utf8"))
    model = modelrun([c[0] for c in cases])
    n_bad = 0
    kinds = {}
    distinct = set()
    for (cmd, impl), m in zip(cases, model):
        k = cmd.split("\t", 1)[0]
        kinds[k] = kinds.get(k, 0) + 1
        f = cmd.split("\t")
        if any(("46" in x.split(",") or "46,46" in x) for x in f[1:]):
            distinct.add(cmd)
        if impl != m:
            n_bad += 1
            if n_bad <= 5:
                res.violation(
                    "path model/implementation disagree on %s: impl=%r model=%r (the Coq model is proved to meet the "
                    "resolution spec, so the implementation resolves this reference to the wrong file)" % (
                        [dec(x) for x in f[1:]], [dec(x) for x in impl.split(";")], [dec(x) for x in m.split(";")]),
                    {"cmd": f[0], "args": [dec(x) for x in f[1:]], "impl": impl, "model": m})
    if not ok:
        res.violation(what, {"obligation": "Properties/C13.v"}, no_input=(n_bad + f_links == 0))
    res.cov["evaluations"] = len(cases) + n_links
    res.cov["distinct_nontrivial"] = len(distinct)
    res.cov["exhaustive"] = True
    res.cov["rule"] = ("all (base, rel) pairs with <= %d segments over {a,b,.,..,''} x leading '/' through the hook "
                       "(exhaustive), plus random odd-character paths, plus import/include/wxs-src references through "
                       "direct_dependencies/script_dependencies and the emitted G[..]/R[..] lookups; non-trivial = "
                       "contains a '.'/'..' segment" % (4 if res.tier == "thorough" else 3))
    res.cov["samples"] = [{"cmd": c[0].split("\t")[0], "args": [dec(x) for x in c[0].split("\t")[1:]],
                           "impl": [dec(x) for x in c[1].split(";")]} for c in cases[:: max(1, len(cases) // 6)][:6]]
    res.notes["case_kinds"] = kinds
    res.assumptions += ["registered template paths are used verbatim as map keys (what the code does)",
                        "run-time linking under node is exercised by the C20/C04 checks"]
