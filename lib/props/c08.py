"""C08 — stylesheet output keeps the token stream and all meaningful whitespace."""
from props.csscommon import *

MANIFEST = {
    "id": "C08",
    "text": "Coq: C08_tokens_preserved — for EVERY token tree (any depth, well-formed or not) and every option set without "
            "@import/:host rewriting, the non-whitespace tokens of the normal output are one-for-one and in order the input "
            "tokens, each unchanged or a documented rewrite (class prefix / rpx->vw), and the low-priority output is empty "
            "(induction over the five walkers of lib.rs); C08_separator_sound / C08_no_spurious_separator (separator table of "
            "output.rs, both directions). C08_token_shapes_exact_sheet — for EVERY option set (prefix, sign, import sign, host "
            "conversion) and every well-shaped tree whose rules are complete, outside class D29: the non-whitespace tokens of the "
            "whole normal output (kind, unit, strings) are exactly the specification's, in order (lockstep induction of `rules` "
            "against `rules_spec`: rule splitting, preludes, nested rule lists, @import placeholders with their wrappers, :host "
            "rules absent). The full statement incl. meaningful whitespace (C08_conforms_full: both outputs "
            "conform to the grammar-directed specification CssSpec.expected) is REFUTED by the model of the current code "
            "(C08_conforms_refuted) with machine-checked witnesses for the remaining classes D15 and D27; the witnesses of the "
            "repaired classes D13/D14/D23 are proved to conform now (C08_fixed_D13_D14_D23_conform). Each run: the extracted "
            "model and the real crate process the same generated stylesheets (model agreement is byte-exact: text, source "
            "map, warnings) and the re-tokenised implementation output is checked against CssSpec.expected/conforms outside "
            "the known classes.",
    "note": "NOT proved: the white space between the tokens (the gap requirements of `expected`: required / forbidden "
            "separators) for every well-formed sheet outside the known classes — that part rests on the differential run (spec evaluated on the implementation's output for "
            "every generated sheet). cssparser's tokenizer/serializer are the oracle (trusted). Known findings D15 D24 D27 "
            "D28 are listed in known_findings.json with narrow decidable classes (CssSpec.known); D13 D14 D23 D26 were repaired "
            "in /repo and sheets of those former classes are checked against the specification like all others.",
    "technique": "Coq proof by induction over token trees (token preservation, separator table) + refutation witnesses by "
                 "vm_compute + model/implementation correspondence and executable-spec conformance via extracted OCaml",
}

THEOREMS = ["C08_separator_sound", "C08_no_spurious_separator", "C08_tokens_preserved", "C08_conforms_refuted",
            "C08_witness_D15", "C08_witness_D27", "C08_fixed_D13_D14_D23_conform", "C08_token_shapes_exact_sheet",
            "C08_low_token_shapes_exact_sheet"]


def run(res):
    css_check(res, "C08", THEOREMS, ["wf_clean", "wf", "model_exact_agree", "harmless_drift", "malformed_disagree"],
              "stylesheets from a CSS grammar (all cssparser token kinds; @media/@supports/@layer/@container/@scope/"
              "@keyframes/@font-face/@import/...; selector functions nested to depth 3; calc/min/max/clamp; rpx; :host at "
              "any at-rule depth; multi-line, multi-byte, comments) x random option sets, plus a malformed stream "
              "(character mutations) and hand-written seeds; non-trivial = well-formed sheet outside every known class, "
              "whose re-tokenised output was checked token by token and gap by gap against the specification")
