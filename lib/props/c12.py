"""C12 — static strings reach the runtime code point for code point."""
import json
from vcheck import *

MANIFEST = {
    "id": "C12",
    "text": "Coq theorem: for every escaping table esc_u and every string of Unicode scalar values, the literal emitted by the model "
            "of gen_lit_str decodes (ECMAScript strict-mode string-literal decoder, modelled) to exactly that string, whatever "
            "follows it; the pre-fix behaviour is refuted by NUL+digit. Tie: the model equals the implementation on every one of "
            "the 1 112 064 scalar values alone and before each critical successor (exhaustive), on random strings, on all numeric "
            "character references; every embedding context is exercised through the real pipeline and decoded by node.",
    "note": "Trusted: Coq kernel, extraction, harness, node's string-literal decoding (the Coq decoder is a model of the ECMAScript "
            "lexical grammar for \"...\" literals), jsrt. Which characters Rust's Debug writes as \\u{..} is a parameter of the theorem "
            "and is read off the implementation.",
    "technique": "Coq proof (induction over strings, hex round-trip lemma) + exhaustive model/implementation correspondence + node decoding",
    "jsrt": True,
}

THEOREMS = ["C12_lit_str_roundtrip", "C12_legacy_debug_escape_refuted", "C12_hex_roundtrip"]

# how each embedding context shows up in the runtime's call log: (entry name, matcher)
def _expect(log, s):
    """returns list of (context, received) that differ from s"""
    bad = []
    seen = set()

    def chk(ctx, got):
        seen.add(ctx)
        if got != s:
            bad.append((ctx, got))
    for e in log:
        k = e[0]
        if k == "T" and isinstance(e[1], str) and e[1].startswith("T") and e[1].endswith("T") and len(e[1]) >= 2:
            chk("text", e[1][1:-1])
        elif k == "a" and e[1] == "x":
            chk("extra-attr", e[2])
        elif k == "c":
            chk("class", e[1])
        elif k == "y":
            chk("style", e[1])
        elif k == "i":
            chk("id", e[1])
        elif k == "wl":
            chk("worklet", e[2])
        elif k == "r" and e[1] == "a":
            chk("attr", e[2])
        elif k == "r" and e[1] == "mo":
            chk("model-attr", e[2])
        elif k == "r" and e[1] == "b":
            chk("expr-string-literal", e[2])
        elif k == "r" and e[1] == "c":
            chk("expr-index-key", s if e[2] == "HIT" else "<key did not match>")
        elif k == "r" and e[1] == "d":
            chk("mixed-text", e[2][1:-1] if isinstance(e[2], str) and len(e[2]) >= 2 else e[2])
        elif k == "d" and e[1] in ("k", "j"):
            chk("dataset-" + e[1], e[2])
        elif k == "m":
            chk("mark", e[2])
        elif k == "v":
            chk("event-handler", e[2])
        elif k == "E" and e[1] == "v":
            g = e[2]
            chk("generic", (g.get("$o", g) or {}).get("g") if isinstance(g, dict) else None)
        elif k == "F":
            chk("wx:key", e[2] if e[2] is not None else "")
        elif k == "S":
            chk("slot-name", e[1])
        elif k == "l":
            chk("slot-value", e[2])
        elif k == "J":
            chk("slot-attr", e[1])
        elif k == "B":
            chk("template-is", e[1])
    return bad, seen


def named_entities(res):
    """every named character reference of the HTML5 table (python's html.entities.html5: an independent copy of the
    WHATWG table) through the decoder hook and through the whole pipeline (static text + static attribute)"""
    import html.entities
    table = {k[:-1]: v for k, v in html.entities.html5.items() if k.endswith(";")}
    names = sorted(table)
    # names that are not in the table must not decode
    bogus = ["bogus", "ampx", "Lt2", "fjligx", "nbsp1", "AMPP", "q"]
    p = harness_run(["entnames", res.tier, res.seed], input_bytes=("\n".join(names + bogus) + "\n").encode())
    lines = [json.loads(l) for l in p.stdout.decode("utf8").split("\n") if l]
    found = 0
    n = 0
    jobs = []
    e2e = []
    for l in lines:
        if l["kind"] == "hook":
            n += 1
            want = [ord(c) for c in table[l["name"]]] if l["name"] in table else None
            if l["decoded"] != want:
                found += 1
                if found <= 4:
                    res.violation("named character reference &%s; decodes to %s, the HTML5 table says %s" % (l["name"], l["decoded"], want),
                                  {"entity": "&%s;" % l["name"], "decoded_codepoints": l["decoded"], "html5_codepoints": want})
        else:
            e2e.append(l)
            jobs.append({"op": "run", "id": len(jobs), "bundle": l["bundle"], "path": "p", "steps": [{"create": {"$o": {}}}]})
    out = node_jobs(jobs, shards=8)
    for l, o in zip(e2e, out):
        if o.get("error"):
            raise Infra("entity template failed under node: %s" % o["error"])
        for nm, node in zip(l["names"], o["trees"][0]):
            want = "[" + (table[nm] if nm in table else "&%s;" % nm) + "]"
            got_text = node["ch"][0]["text"] if node.get("ch") else None
            got_attr = dict((k, v) for k, v in node.get("attrs", [])).get("r:a", {}).get("v")
            n += 1
            if got_text != want or got_attr != want:
                found += 1
                if found <= 4:
                    res.violation("&%s; in static text / attribute reaches the runtime as %r / %r, expected %r" % (nm, got_text, got_attr, want),
                                  {"src": "<v a=\"[&%s;]\">[&%s;]</v>" % (nm, nm), "text": got_text, "attr": got_attr, "expected": want})
    return n, found


def run(res):
    ok, what = proof_phase(res, "C12", THEOREMS)
    n_ent, f_ent = named_entities(res)
    res.notes["named_entity_cases"] = n_ent
    r = bulk_compare(["lit", res.tier, res.seed], "C12")
    found_input = f_ent > 0
    # the entity scanner of the parser (Model/TextDecode.v) on static attribute values
    rs = bulk_compare(["entscan", res.tier, res.seed], "C12")
    res.notes["entity_scanner_cases"] = rs["n"]
    for (c, i, m) in rs["mismatches"][:4]:
        f = c.split("\t")
        res.violation("static text %r is decoded by the parser as %r, the Coq model of the entity scanner says %r" % (
            dec(f[-1]), dec(i), dec(m) if not m.startswith(("ERR", "EXC")) else m), {"text": dec(f[-1]), "impl": dec(i)})
        found_input = True
    for (c, i, m) in r["mismatches"][:5]:
        f = c.split("\t")
        res.violation("%s: implementation and Coq model disagree on %r: impl=%r model=%r" % (
            f[0], dec(f[-1])[:60], dec(i)[:120] if not i.startswith(("S", "N")) else i, dec(m)[:120] if not m.startswith(("S", "N", "MODEL")) else m),
            {"cmd": f[0], "input_codepoints": f[-1], "impl": i, "model": m})
        found_input = True
    # string literals inside expressions: the parser's escape processing (Model/WxStr.v)
    rw = bulk_compare(["wxscan", res.tier, res.seed], "C12", eq=lambda i, m: i == m or (m == "E" and not i.startswith("V")))
    res.notes["string_scanner_cases"] = rw["n"]
    for (c, i, m) in rw["mismatches"][:3]:
        res.violation("string literal body %r: the parser reads %s, the Coq model of the scanner says %s" % (
            dec(c.split("\t")[-1]), dec(i[1:]) if i.startswith("V") else i, dec(m[1:]) if m.startswith("V") else m),
            {"literal_body_with_closing_quote": dec(c.split("\t")[-1])})
        found_input = True
    # resolved paths: what <import> / <include> / <wxs src> spellings (with and without suffix, repeated suffix, the other
    # suffix) resolve to, against Model/Path.v
    rp = bulk_compare(["path", res.tier, res.seed], "C12p")
    n_pd = 0
    for (c, i, m) in rp["mismatches"]:
        if c.startswith("path_dep\t"):
            n_pd += 1
            if n_pd <= 3:
                f = c.split("\t")
                res.violation("%s src=%r in file %r resolves to %s, the Coq path model says %s" % (
                    f[1], dec(f[3]), dec(f[2]), dec(i.split(";")[0]) if ";" in i else i, dec(m.split(";")[0]) if ";" in m else m),
                    {"kind": f[1], "file": dec(f[2]), "src": dec(f[3]), "impl": i, "model": m})
                found_input = True
    res.notes["resolved_path_cases"] = rp["kinds"].get("path_dep", 0)
    # whole pipeline, decoded by node
    p = harness_run(["litctx", res.tier, res.seed])
    jobs_in = [json.loads(l) for l in p.stdout.decode("utf8").split("\n") if l]
    jobs = []
    for j in jobs_in:
        s = "".join(chr(c) for c in j["s"])
        jobs.append({"op": "run", "id": j["id"], "bundle": j["bundle"], "path": "p", "log": True,
                     "steps": [{"create": {"$o": {"x": {"$o": {s: "HIT"}}, "l": {"$a": [1]}}}}]})
        jobs.append({"op": "syntax", "id": "s%d" % j["id"], "src": j["bundle"]})
    out = node_jobs(jobs)
    ctx_seen = {}
    n_ctx = 0
    for k, j in enumerate(jobs_in):
        s = "".join(chr(c) for c in j["s"])
        rr, sy = out[2 * k], out[2 * k + 1]
        if sy.get("strict") or sy.get("sloppy"):
            res.violation("generated code for a template embedding %r is not valid JavaScript: %s" % (s, sy),
                          {"string_codepoints": j["s"], "src": j["src"]})
            found_input = True
            continue
        if rr.get("error"):
            res.violation("generated code for a template embedding %r throws: %s" % (s, rr["error"]),
                          {"string_codepoints": j["s"], "src": j["src"]})
            found_input = True
            continue
        bad, seen = _expect(rr["logs"][0], s)
        for c in seen:
            ctx_seen[c] = ctx_seen.get(c, 0) + 1
        n_ctx += len(seen)
        for (ctx, got) in bad[:3]:
            res.violation("context %s: the runtime received %r instead of %r" % (ctx, got, s),
                          {"context": ctx, "string_codepoints": j["s"], "src": j["src"], "received": got})
            found_input = True
    # identifier-shaped constants (object keys, member names, data fields, template data fields)
    p2 = harness_run(["identctx", res.tier, res.seed])
    ijobs = [json.loads(l) for l in p2.stdout.decode("utf8").split("\n") if l]
    njobs = []
    for j in ijobs:
        n = j["name"]
        njobs.append({"op": "run", "id": j["id"], "bundle": j["bundle"], "path": "p", "log": True,
                      "steps": [{"create": {"$o": {n: "FIELD", "o": {"$o": {n: "MEMBER"}}}}}]})
    iout = node_jobs(njobs) if njobs else []
    n_ident = 0
    for j, rr in zip(ijobs, iout):
        n = j["name"]
        if j.get("max_level", 0) >= 2:
            res.violation("the identifier-shaped name %r is not accepted by the expression grammar (diagnostic level %d)" % (n, j["max_level"]),
                          {"name": n, "src": j["src"]})
            found_input = True
            continue
        if rr.get("error"):
            res.violation("generated code for the name %r throws: %s" % (n, rr["error"]), {"name": n, "src": j["src"]})
            found_input = True
            continue
        got = {}
        for e in rr["logs"][0]:
            if e[0] == "r" and e[1] in ("a", "s", "b", "c", "mo", "k"):
                got[e[1]] = e[2:]
        def plain(v):
            return v.get("$o", v) if isinstance(v, dict) else v
        exp = {"b": "MEMBER", "mo": "MEMBER"}
        if not j["keyword"]:
            exp.update({"c": "FIELD", "k": "MEMBER"})
        for attr, want in exp.items():
            n_ident += 1
            if attr not in got or got[attr][0] != want:
                res.violation("identifier-shaped constant %r: attribute %s received %r instead of %r" % (n, attr, got.get(attr), want),
                              {"name": n, "src": j["src"], "attribute": attr, "received": got.get(attr)})
                found_input = True
        a = plain(got.get("a", [None])[0])
        want_a = {n: 1} if j["keyword"] else {n: 1, "q": "FIELD"}
        n_ident += 1
        if a != want_a:
            res.violation("identifier-shaped object key %r: the runtime received the object %r instead of %r" % (n, a, want_a),
                          {"name": n, "src": j["src"], "received": a})
            found_input = True
        if not j["keyword"]:
            sh = plain(got.get("s", [None])[0])
            n_ident += 1
            if sh != {n: "FIELD"}:
                res.violation("shorthand object key %r: the runtime received %r" % (n, sh), {"name": n, "src": j["src"], "received": sh})
                found_input = True
        mo = got.get("mo")
        n_ident += 1
        mpath = mo[1].get("$a", mo[1]) if mo and len(mo) > 1 and isinstance(mo[1], dict) else (mo[1] if mo and len(mo) > 1 else None)
        if mpath != ["o", n]:
            res.violation("member name %r in a model path: the runtime received the path %r instead of ['o', %r]" % (n, mpath, n),
                          {"name": n, "src": j["src"], "received": mo})
            found_input = True
    n_ctx += n_ident
    # resolved script paths inside l-value paths
    p3 = harness_run(["pathctx", res.tier, res.seed])
    for j in [json.loads(l) for l in p3.stdout.decode("utf8").split("\n") if l]:
        rr = node_jobs([{"op": "run", "id": 0, "bundle": j["bundle"], "path": j["path"], "log": True, "steps": [{"create": {"$o": {}}}]}])[0]
        if rr.get("error") or j.get("max_level", 0) >= 2:
            res.violation("the script-path template does not compile / run: %s" % (rr.get("error") or "diagnostic level %d" % j["max_level"]), {"src": j["src"]})
            found_input = True
            continue
        got = {}
        for e in rr["logs"][0]:
            if e[0] == "v" and len(e) > 7:
                got[e[1]] = e[7]
            elif e[0] == "p" and len(e) > 3:
                got[e[1]] = e[3]
        for name, want in j["expect"].items():
            n_ctx += 1
            g = got.get(name)
            g = g.get("$a", g) if isinstance(g, dict) else g
            if g != want:
                res.violation("resolved script path: the l-value path of %r arrives as %r instead of %r" % (name, g, want),
                              {"src": j["src"], "binding": name, "received": g, "expected": want})
                found_input = True
    # attribute / event / mark / dataset / slot-value NAMES: every family x name spelling reaches the runtime under the name
    # the family's rule gives (camel-cased or verbatim; the attribute-family model of C04, here for the constant itself)
    from props.c04 import attr_routes
    n_routes, f_routes = attr_routes(res)
    if f_routes:
        found_input = True
        for v in res.violations:
            if v.get("what", "").startswith("attribute ") and "reaches the runtime as" in v.get("what", ""):
                v["what"] = "name constant: " + v["what"]
    n_ctx += n_routes
    if len(ctx_seen) < 20:
        res.violation("only %d embedding contexts were observed (harness/pipeline mismatch): %s" % (len(ctx_seen), sorted(ctx_seen)),
                      {"contexts": sorted(ctx_seen)}, no_input=True)
    if not ok:
        res.violation(what, {"obligation": "Properties/C12.v"}, no_input=not found_input)
    res.cov["evaluations"] = rs["n"] + r["n"] + n_ctx
    res.cov["distinct_nontrivial"] = r["kinds"].get("lit_str", 0)
    res.cov["exhaustive"] = True
    res.cov["rule"] = ("gen_lit_str on every Unicode scalar value alone and followed by each critical successor (exhaustive; %s), "
                       "random strings over a pool of special characters, numeric character references, HTML escapers; plus %d "
                       "strings x %d embedding contexts through parse -> generate -> node. distinct_nontrivial = number of distinct "
                       "literal cases (each is a distinct string)" % (
                           "15 successors" if res.tier == "thorough" else "4 successors", len(jobs_in), len(ctx_seen)))
    res.cov["samples"] = [{"cmd": c.split("\t")[0], "input": dec(c.split("\t")[-1]), "impl": dec(i) if i[:1].isdigit() else i}
                          for (c, i) in r["samples"][:6]]
    res.notes.update({"case_kinds": r["kinds"], "contexts_observed": ctx_seen})
