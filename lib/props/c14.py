"""C14 — stringify is a faithful, stable inverse of parse."""
import json
from vcheck import *
import behave

MANIFEST = {
    "id": "C14",
    "text": "Coq: (1) the expression printer of the stringifier (Model/StrExpr.v) and the character-level expression / binding / value "
            "parser (Model/ExprParse.v) are both modelled and tied to the code by correspondence (printer: every generated expression; "
            "parser: 24k / 240k generated and mutated text and attribute values per run, AST compared); the theorem "
            "C14_expression_print_parse_roundtrip proves, for every well-formed expression of any size and nesting (identifiers, i64 and "
            "string literals, object / array literals, member / index / call chains, all unary, binary and conditional operators), that "
            "parsing the printed text yields exactly that expression and stops exactly at the end of the binding (parenthesisation, "
            "operator spacing, `?.` / `--` / `++` avoidance, literal escapes are all covered by it); the value-level theorems "
            "(C14_static_value_roundtrip, C14_single_binding_value_roundtrip, C14_mixed_value_roundtrip; C14_parse_print_parse: for EVERY "
            "source text the parser accepts, the returned expression - unless it contains a float literal - is printed as a text that "
            "parses back to exactly that expression) prove that the value parser "
            "(static pieces with character references, bindings, the chain it builds) reads the printed text of a static value, of a "
            "single binding and of every alternation of text pieces and bindings back as the same value, for any entity table that "
            "knows &lt; &quot; &amp; and for both callers' `until` predicates. (2) escaping theorems: a re-printed "
            "static text never contains `{{`, `<` or a raw quote and decodes to itself under the real entity scanner. Decision of the "
            "property itself on the code: for generated well-formed, hand-written and mutated templates, print -> parse must raise "
            "nothing above Note, print is a fixpoint after one round (with and without mangling), and the re-parsed template must "
            "create and update identically to the original under node.",
    "note": "Partial: float literals and scope references are outside the round-trip theorems (floats are opaque text in the model); "
            "there is no Coq model of the tag-level printer (elements, attributes, structural tags), whose round trip is established "
            "by execution only. Known finding "
            "KF-C14-1: with mangling, wx:for bodies refer to _$n but the printed tag declares no wx:for-item / wx:for-index (pinned by "
            "the for_scope tests), so mangled prints of templates with wx:for are excluded from the behavioural comparison.",
    "technique": "Coq proof (print/parse round trip of expressions by structural induction; escaping lemmas) + model/implementation "
                 "correspondence of printer and parser + print/parse/print execution + behavioural comparison under node",
    "jsrt": True,
}

THEOREMS = ["C14_static_text_roundtrip", "C14_static_text_no_binding_start", "C14_static_text_no_special",
            "C14_legacy_static_text_becomes_binding", "C14_string_literal_roundtrip",
            "C14_printer_tables_ok", "C14_printer_paren_decision", "C14_text_piece_then_binding",
            "C14_static_text_roundtrip_real_scanner", "C14_expression_string_literal_roundtrip",
            "C14_expression_print_parse_roundtrip", "C14_expression_roundtrip_any_tail", "C14_integer_literal_roundtrip",
            "C14_binding_print_parse_roundtrip", "C14_mixed_value_roundtrip", "C14_static_value_roundtrip",
            "C14_single_binding_value_roundtrip", "C14_resolved_expression_roundtrip",
            "C14_template_data_roundtrip", "C14_parser_image", "C14_parse_print_parse"]


def _norm_nodes(nodes):
    """what `renders identically` means for this comparison: comments are not printed, so text nodes that were
    separated by a comment merge (adjacent text nodes are concatenated, empty ones dropped); a binding that is
    only a string literal is printed as static text (pinned by the repository's tests), so an event listener may
    turn from dynamic into static with the same handler (the isDynamic flag is ignored)."""
    out = []
    for n in nodes:
        n = dict(n)
        if n.get("k") == "text":
            t = n.get("text")
            if t == "" or t is None:
                continue
            if out and out[-1].get("k") == "text" and isinstance(out[-1].get("text"), str) and isinstance(t, str):
                out[-1] = dict(out[-1], text=out[-1]["text"] + t)
                continue
        if "attrs" in n:
            attrs = []
            for key, rec in n["attrs"]:
                if key.startswith("v:") and key.rsplit(":", 1)[-1].startswith(("dyn", "static")):
                    key = key.rsplit(":", 1)[0]
                    rec = {k: v for k, v in rec.items() if k != "isDynamic"}
                attrs.append([key, rec])
            n["attrs"] = attrs
        if "ch" in n:
            n["ch"] = _norm_nodes(n["ch"])
        out.append(n)
    return out


def _norm(trees):
    return [_norm_nodes(t) for t in trees]


def run(res):
    ok, what = (True, "")
    if THEOREMS:
        ok, what = proof_phase(res, "C14", THEOREMS)
    # the expression printer: implementation text = Coq model (Model/StrExpr.v) on every generated expression
    import exprtext
    rt = exprtext.run(res.tier, res.seed, "C14")
    n_sx = 0
    for (c, i, m) in rt["mismatches"]:
        if c.startswith("strexpr\t"):
            n_sx += 1
            if n_sx <= 3:
                res.violation("the stringifier prints an expression differently from the Coq model of stringify/expr.rs: impl=%s model=%s" % (
                    dec(i)[:200] if i != "STATIC" else i, dec(m)[:200] if m != "STATIC" else m), {"case": c.split("\t")}, no_input=True)
    # the string-literal scanner of the expression parser = Model/WxStr.v (what the printer's literals are read back with)
    rw = bulk_compare(["wxscan", res.tier, res.seed], "C14", eq=lambda i, m: i == m or (m == "E" and not i.startswith("V")))
    res.notes["string_scanner_cases"] = rw["n"]
    for (c, i, m) in rw["mismatches"][:3]:
        res.violation("string literal body %r: the parser reads %s, the Coq model of the scanner says %s" % (
            dec(c.split("\t")[-1]), dec(i[1:]) if i.startswith("V") else i, dec(m[1:]) if m.startswith("V") else m),
            {"literal_body_with_closing_quote": dec(c.split("\t")[-1])})
    # the expression / value parser = Model/ExprParse.v (what every printed binding is read back with)
    import valparse
    rv = valparse.run(res.tier, res.seed, "C14")
    res.notes["value_parser_cases"] = rv["n"]
    for (c, i, m) in rv["mismatches"][:3]:
        d = valparse.describe(c)
        res.violation("the parser reads the %s value %r as %s, the Coq model of the expression / value parser says %s" % (
            d["context"], d["source"][:200], i[:300], m[:300]), dict(d, impl=i, model=m))
    p = harness_run(["strfy", res.tier, res.seed], timeout=3000)
    jobs_in = [json.loads(l) for l in p.stdout.decode("utf8").split("\n") if l]
    found = 0
    kf = {k["id"]: k for k in known_findings()["findings"] if k.get("property") == "C14"}
    known_for = 0

    def viol(msg, rp):
        nonlocal found
        found += 1
        if found <= 8:
            res.violation(msg, rp)
    jobs = []
    meta = []
    classes = {}
    import re as _re
    known_wxs = 0
    known_cmt = 0
    known_cap = 0
    for j in jobs_in:
        classes[j["class"]] = classes.get(j["class"], 0) + 1
        if _re.search(r"</wxs[A-Za-z0-9_.\-]", j["src"]) and "KF-C14-2" in kf:
            known_wxs += 1      # KF-C14-2: the whole template is left out
            continue
        if _re.search(r"\{(<!--.*?-->)+\{", j["src"], _re.S) and "KF-C14-3" in kf:
            known_cmt += 1      # KF-C14-3
            continue
        if j.get("panic"):
            viol("printing / re-parsing panics", {"src": j["src"]})
            continue
        for r in j["rounds"]:
            tag = "mangled" if r["mangle"] else "plain"
            bad = [d for d in r["diags1"] if d[1] >= 2]
            uses_for = "wx:for" in j["src"]
            if r["mangle"] and uses_for:
                known_for += 1      # KF-C14-1: excluded below
            if r["mangle"] and _re.search(r"_\$\d", j["src"]) and "KF-C14-4" in kf:
                known_cap += 1      # KF-C14-4: the mangled comparison is excluded below
            if bad and not (r["mangle"] and uses_for):
                viol("%s print of a %s template re-parses with %r (level %d)" % (tag, j["class"], bad[0][0], bad[0][1]),
                     {"src": j["src"], "printed": r["s1"], "diagnostics": bad})
            if r["s1"] != r["s2"]:
                viol("%s printing is not a fixpoint after one round" % tag, {"src": j["src"], "first": r["s1"], "second": r["s2"]})
        # behaviour: original vs re-parsed (plain always; mangled unless wx:for is involved)
        if j["level0"] >= 3:
            continue   # the original did not compile successfully: no behaviour to preserve
        steps = [{"create": j["datas"][0]}, {"update": j["datas"][1], "U": True}, {"create": j["datas"][1]}]
        base = {"op": "run", "path": "p", "slotValues": j.get("slotValues"), "steps": steps}
        jobs.append(dict(base, id="o", bundle=j["bundle0"]))
        for r in j["rounds"]:
            jobs.append(dict(base, id="r", bundle=r["bundle1"]))
        meta.append(j)
    out = node_jobs(jobs, shards=12)
    n_cmp = 0
    nontrivial = 0
    for k, j in enumerate(meta):
        o, rp, rm = out[3 * k], out[3 * k + 1], out[3 * k + 2]
        if o.get("error"):
            if not rp.get("error") and "list too long" not in o["error"]:
                viol("the original template throws but its re-print does not", {"src": j["src"], "error": o["error"]})
            continue
        for tag, r in (("plain", rp), ("mangled", rm)):
            if tag == "mangled" and "wx:for" in j["src"]:
                continue
            if tag == "mangled" and _re.search(r"_\$\d", j["src"]) and "KF-C14-4" in kf:
                continue
            n_cmp += 1
            if r.get("error"):
                viol("the %s re-print throws: %s" % (tag, r["error"][:200]), {"src": j["src"], "printed": j["rounds"][0 if tag == "plain" else 1]["s1"]})
                continue
            if behave.canon(_norm(o["trees"])) != behave.canon(_norm(r["trees"])):
                viol("the %s re-print renders/updates differently from the original" % tag,
                     {"src": j["src"], "printed": j["rounds"][0 if tag == "plain" else 1]["s1"], "datas": j["datas"],
                      "original_trees": o["trees"], "reprinted_trees": r["trees"]})
            elif len(json.dumps(o["trees"][0])) > 40:
                nontrivial += 1
    if known_for and "KF-C14-1" in kf:
        res.known.append("KF-C14-1: %s (%d mangled prints with wx:for excluded in this run)" % (kf["KF-C14-1"]["what"], known_for))
    if known_wxs:
        res.known.append("KF-C14-2: %s (%d templates of this class left out in this run)" % (kf["KF-C14-2"]["what"], known_wxs))
    if known_cap:
        res.known.append("KF-C14-4: %s (%d mangled prints of this class excluded in this run)" % (kf["KF-C14-4"]["what"], known_cap))
    if known_cmt:
        res.known.append("KF-C14-3: %s (%d templates of this class left out in this run)" % (kf["KF-C14-3"]["what"], known_cmt))
    if not ok:
        res.violation(what, {"obligation": "Properties/C14.v"}, no_input=(found == 0))
    res.cov["evaluations"] = 2 * len(jobs_in) + n_cmp + rv["n"]
    res.cov["distinct_nontrivial"] = nontrivial
    res.cov["rule"] = ("generated well-formed templates, 1/3 of them mutated (ill-formed but recoverable), 10 hand-written shapes; "
                       "plain and mangled printing; second-round diagnostics, fixpoint, and create/update/create trees of original vs "
                       "re-parsed under node; non-trivial = comparisons with a non-empty tree")
    res.cov["samples"] = [{"src": j["src"][:160], "printed": j["rounds"][0]["s1"][:160]} for j in jobs_in[:3] if not j.get("panic")]
    res.notes.update({"class_histogram": classes, "behaviour_comparisons": n_cmp})
