"""C03 — binding expressions evaluate with JavaScript semantics."""
import json
from vcheck import *

MANIFEST = {
    "id": "C03",
    "text": "Coq: executable model of Expression::to_proc_gen_rec (exact emitted text incl. hoisted statements, guards, l-value paths) "
            "that also keeps the emitted value as a tree. Theorems: the tree prints to exactly the emitted text, for every expression "
            "form (C03_emitted_text_is_tree); every operand position of the tree respects the ECMAScript precedence requirement or is "
            "parenthesised (C03_emitted_respects_precedence, from the level tables C03_tables_ok); for every expression of the fragment "
            "(fields, scope variables, member / index access, literals, unary / binary operators incl. && || ??, conditionals, string "
            "conversion) running the hoisted statements in order from any initial state and evaluating the tree gives the value of the "
            "source expression (C03_compile_correct). Source side: the character-level parser model reads the minimal-parentheses "
            "spelling and every spelling with additional parentheses around any operands (up to the fully parenthesised one, whose "
            "grouping no precedence table can change) as the same tree (C03_source_parentheses_honoured: source parentheses are "
            "honoured exactly; the parser implements exactly the printer's level tables). Tie: exact text equality model vs implementation on all operator x position x "
            "child-shape combinations (depth 2, exhaustive) and random deep expressions in four binding contexts; the model's source "
            "semantics (Val.eval) vs node evaluating the emitted text; value differential in node (generated code through the real "
            "pipeline vs fully parenthesised reference JS) over an edge-value data pool for ALL expression forms.",
    "note": "Trusted: Coq kernel, extraction, harness generators (abstract expression -> WXML text / reference JS), node as the JS "
            "semantics oracle (operators on evaluated operands are shared between source and target semantics in Coq: the theorem is "
            "about the generator, the operators' meaning is validated by node), the ECMAScript precedence table in JsPrint.wf_prec, jsrt. "
            "Calls, object / array literals, floats are outside the evaluation fragment (text twin and precedence theorems still cover "
            "them as opaque nodes; the node differential covers their values).",
    "technique": "Coq proof (text = printed tree, precedence well-formedness, semantic preservation incl. hoisting, by induction) + model/implementation text correspondence + node value differential",
    "jsrt": True,
}

THEOREMS = ["C03_tables_ok", "C03_legacy_xor_table_refuted", "C03_gen_paren_decision",
            "C03_emitted_text_is_tree", "C03_emitted_respects_precedence", "C03_compile_correct",
            "C03_source_parentheses_honoured", "C03_minimal_spelling_is_the_printers"]


def value_diff(res, tier, seed):
    p = harness_run(["exprval", tier, seed])
    exprs = [json.loads(l) for l in p.stdout.decode("utf8").split("\n") if l]
    jobs = []
    for e in exprs:
        jobs.append({"op": "run", "id": "g%d" % e["id"], "bundle": e["bundle"], "path": "p", "log": True,
                     "steps": [{"create": d} for d in e["datas"]]})
        for k, d in enumerate(e["datas"]):
            jobs.append({"op": "eval", "id": "r%d_%d" % (e["id"], k), "expr": e["ref"], "data": d})
    out = node_jobs(jobs)
    by_id = {r["id"]: r for r in out}
    n_eval = n_skip = n_both_err = 0
    shapes = {}
    sizes = {}
    bad = []
    for e in exprs:
        shapes[e["shape"]] = shapes.get(e["shape"], 0) + 1
        sizes[min(e["size"] // 10 * 10, 60)] = sizes.get(min(e["size"] // 10 * 10, 60), 0) + 1
        g = by_id["g%d" % e["id"]]
        if e["max_level"] >= 3:
            bad.append((e, None, "well-formed expression rejected by the parser (diagnostic level %d)" % e["max_level"], None, None))
            continue
        for k, d in enumerate(e["datas"]):
            r = by_id["r%d_%d" % (e["id"], k)]
            n_eval += 1
            if r.get("skip"):
                n_skip += 1
                continue
            gv = None
            gerr = None
            logs_g = g.get("logs", [])
            if k < len(logs_g):
                # this step completed (an error of the run belongs to the first step without a log)
                for entry in logs_g[k]:
                    if entry[0] == "r" and entry[1] == "a":
                        gv = entry[2]
            elif k == len(logs_g) and g.get("error"):
                gerr = g["error"]
            elif g.get("error"):
                n_skip += 1     # a later step of a run that stopped: not observed
                continue
            else:
                gerr = "no log for step %d" % k
            if "error" in r:
                if gerr or gv is None:
                    n_both_err += 1
                else:
                    bad.append((e, d, "reference throws (%s) but generated code yields a value" % r["error"], gv, None))
                continue
            if gerr:
                bad.append((e, d, "generated code throws: %s" % gerr, None, r["value"]))
                continue
            if json.dumps(gv, sort_keys=True) != json.dumps(r["value"], sort_keys=True):
                bad.append((e, d, "value differs", gv, r["value"]))
    return exprs, n_eval, n_skip, n_both_err, shapes, sizes, bad


def model_semantics(res):
    """Val.eval (the source semantics the theorems speak about) and jeval of the emitted tree after running the hoists
    (C03_compile_correct says they agree) against node evaluating the emitted TEXT: hoisted statements + value text"""
    p = harness_run(["guardden", res.tier, res.seed], timeout=3000)
    jobs = [json.loads(l) for l in p.stdout.decode("utf8").split("\n") if l][::2]
    model = modelrun(["expr_sem\t%s\t%s\t%s" % (j["esc"], j["sexp"], j["data_sexp"]) for j in jobs])
    njobs, idx = [], []
    n_outside = 0
    found = 0
    for k, (j, m) in enumerate(zip(jobs, model)):
        if m.startswith(("ERR", "EXC")):
            raise Infra("expr_sem model failed: %s on %s" % (m, j["text"]))
        if m == "SKIP":
            continue
        src, tgt, hoisted, text = m.split("|")
        if src != tgt and tgt != "O":   # (object / array literals are opaque to jeval: outside C03_compile_correct's fragment)
            found += 1
            if found <= 3:
                res.violation("model self-check: jeval of the emitted tree differs from eval of the source for {{ %s }}: %s vs %s" % (
                    j["text"], tgt[:100], src[:100]), {"expr": j["text"], "data": j["data"]}, no_input=True)
        if src == "O":
            n_outside += 1
            continue
        if ("," + dec(text) + ")") not in j["impl_body"]:
            continue   # (text differences are the text stage's business)
        prog = "(() => { const X = (a) => (a == null ? Object.create(null) : a); %s; return (%s) })()" % (dec(hoisted), dec(text))
        njobs.append({"op": "eval", "id": k, "expr": prog, "data": j["data"]})
        idx.append(k)
    out = node_jobs(njobs, shards=12)
    n = 0
    for k, o in zip(idx, out):
        j, m = jobs[k], model[k]
        if o.get("skip") or o.get("error"):
            continue
        n += 1
        want = json.loads(m.split("|")[0][1:])
        if json.dumps(want, sort_keys=True) != json.dumps(o.get("value"), sort_keys=True):
            found += 1
            if found <= 3:
                res.violation("the source semantics of the Coq model (Val.eval) differs from node evaluating the emitted code for {{ %s }}: "
                              "model %s, node %s" % (j["text"], json.dumps(want)[:120], json.dumps(o.get("value"))[:120]),
                              {"expr": j["text"], "data": j["data"], "emitted": dec(m.split("|")[3])})
    return n, n_outside, found


def run(res):
    ok, what = (True, "")
    if THEOREMS:
        ok, what = proof_phase(res, "C03", THEOREMS)
    import exprtext
    r = exprtext.run(res.tier, res.seed, "C03")
    n_text = 0
    for (c, i, m) in r["mismatches"]:
        f = c.split("\t")
        if f[0] == "strexpr":
            continue   # the stringifier's printer: C14
        aspects = exprtext.classify(c, i, m) if f[0] == "attrgen" else {"value"}
        if not (aspects & {"value", "other"}):
            continue   # guard / l-value / binding-map deviations are reported by C06 / C11 / C07
        n_text += 1
        if n_text <= 5:
            res.violation("generated value text differs from the Coq model of the expression generator (%s context): impl=%s model=%s" % (
                f[1], dec(i.split("|")[0])[:300], dec(m.split("|")[0])[:300]),
                {"case": f, "impl": i, "model": m}, no_input=True)
    n_sem, n_sem_out, f_sem = model_semantics(res)
    res.notes.update({"model_semantics_cases": n_sem, "model_semantics_outside_fragment": n_sem_out})
    exprs, n_eval, n_skip, n_err, shapes, sizes, bad = value_diff(res, res.tier, res.seed)
    # a text mismatch accompanied by a value mismatch is a concrete failing input: keep only those as "with input"
    if bad:
        res.violations = [v for v in res.violations if not v["no_input"]] if False else res.violations
    seen = set()
    import re as _re
    from vcheck import known_findings as _kf
    kf_ids = {f["id"]: f for f in _kf().get("findings", []) if f.get("property") == "C03"}
    n_kf1 = 0
    for (e, d, msg, gv, rv) in bad:
        if ("KF-C03-1" in kf_ids and msg.startswith("generated code throws") and "instanceof" in msg
                and _re.search(r"(&&|\|\||\?\?|\?)", e["wxml"]) and _re.search(r"\[[^\]]*instanceof|instanceof[^\[]*\?", e["wxml"])):
            n_kf1 += 1      # KF-C03-1: a hoisted `instanceof` throws where JavaScript short-circuits
            continue
        key = (e["shape"], msg[:40])
        if key in seen and len(seen) > 8:
            continue
        seen.add(key)
        res.violation("C03 value differential: {{ %s }} with data %s: %s (generated=%s reference=%s)" % (
            e["wxml"], json.dumps(d)[:300], msg, json.dumps(gv)[:200], json.dumps(rv)[:200]),
            {"wxml": e["wxml"], "src": e["src"], "reference_js": e["ref"], "data": d, "generated": gv, "reference": rv})
    if n_kf1:
        res.known.append("KF-C03-1: %s (%d evaluations of this class in this run)" % (kf_ids["KF-C03-1"]["what"], n_kf1))
    # the parser model behind C03_source_parentheses_honoured: implementation = model on generated / mutated values
    import valparse
    rv = valparse.run(res.tier, res.seed, "C03")
    res.notes["value_parser_cases"] = rv["n"]
    for (c, i, m) in rv["mismatches"][:3]:
        d = valparse.describe(c)
        res.violation("the parser reads the %s value %r as %s, the Coq model of the expression / value parser says %s" % (
            d["context"], d["source"][:200], i[:300], m[:300]), dict(d, impl=i, model=m))
    # string escapes: the value the parser assigns to a literal = the value JavaScript (strict mode) assigns to the same
    # literal text, whenever JavaScript accepts it and the parser raises nothing at Error level
    pj = harness_run(["wxscan_js", res.tier, res.seed])
    rows = [json.loads(l) for l in pj.stdout.decode("utf8").split("\n") if l]
    outj = node_jobs([{"op": "eval", "id": i, "expr": "'" + r0["body"] + "'", "data": {"$o": {}}} for i, r0 in enumerate(rows)])
    n_js = 0
    f_js = 0
    for r0, o in zip(rows, outj):
        if o.get("error") or o.get("skip") or r0["level"] >= 3 or r0["value"] is None or not isinstance(o.get("value"), str):
            continue
        n_js += 1
        impl = "".join(chr(c) for c in r0["value"])
        if impl != o["value"]:
            f_js += 1
            if f_js <= 3:
                res.violation("string literal '%s' denotes %r in JavaScript, the parser reads %r" % (
                    r0["body"].encode("unicode_escape").decode("ascii"), o["value"], impl), {"src": "<v a=\"{{'%s'}}\"/>" % r0["body"]})
    res.notes["string_literal_vs_javascript"] = n_js
    # free identifiers denote the innermost enclosing template scope, then the data field (shared with C05)
    import scopeval
    f_sc, n_sc, _, _, _ = scopeval.check(res)
    res.notes["scope_resolution_evaluations"] = n_sc
    if not ok:
        res.violation(what, {"obligation": "Properties/C03.v"}, no_input=not (bad or f_sc or f_js or rv["mismatches"]))
    res.cov["evaluations"] = r["n"] + n_eval + n_sem + n_sc + n_js
    res.cov["distinct_nontrivial"] = len(set(e["wxml"] for e in exprs if e["size"] >= 3))
    res.cov["rule"] = ("text correspondence: every (operator, operand position, child shape) combination to depth 2 plus random "
                       "expressions (depth <= 6) in attribute / model: / event-named attribute / text contexts; value differential: "
                       "the same expressions x data environments drawn from the edge pool; non-trivial = expression with >= 3 nodes; "
                       "distinct = distinct WXML spellings")
    res.cov["samples"] = [{"wxml": e["wxml"], "reference_js": e["ref"][:200]} for e in exprs[:: max(1, len(exprs) // 5)][:5]]
    res.notes.update({"text_cases": r["n"], "text_case_kinds": r["kinds"], "value_evaluations": n_eval,
                      "skipped_out_of_domain": n_skip, "both_throw": n_err, "top_shape_histogram": shapes,
                      "size_histogram": {str(k): v for k, v in sorted(sizes.items())}})
