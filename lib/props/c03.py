"""C03 — binding expressions evaluate with JavaScript semantics."""
import json
from vcheck import *

MANIFEST = {
    "id": "C03",
    "text": "Coq: executable model of Expression::to_proc_gen_rec (exact emitted text incl. hoisted statements, guards, l-value paths) "
            "with the generic printer theorem (level tables => the emitted token string derives, in the stratified ECMAScript "
            "expression grammar, exactly the intended tree, for every expression of every depth) and evaluation theorems over an "
            "abstract operator semantics. Tie: exact text equality model vs implementation on all operator x position x child-shape "
            "combinations (depth 2, exhaustive) and random deep expressions in four binding contexts; value differential in node "
            "(generated code through the real pipeline vs fully parenthesised reference JS) over an edge-value data pool.",
    "note": "Trusted: Coq kernel, extraction, harness generators (abstract expression -> WXML text / reference JS), node as the JS "
            "semantics oracle, jsrt. Strict numeric operator semantics are abstract in Coq (a Section variable used on both sides). "
            "Array spread of non-arrays / sparse arrays and functions with side effects are outside the reference's domain.",
    "technique": "Coq proof (structural induction, printer-level tables) + model/implementation text correspondence + node value differential",
    "jsrt": True,
}

THEOREMS = ["C03_tables_ok", "C03_legacy_xor_table_refuted", "C03_gen_paren_decision"]


def value_diff(res, tier, seed):
    p = harness_run(["exprval", tier, seed])
    exprs = [json.loads(l) for l in p.stdout.decode("utf8").split("\n") if l]
    jobs = []
    for e in exprs:
        jobs.append({"op": "run", "id": "g%d" % e["id"], "bundle": e["bundle"], "path": "p", "log": True,
                     "steps": [{"create": d} for d in e["datas"]]})
        for k, d in enumerate(e["datas"]):
            jobs.append({"op": "eval", "id": "r%d_%d" % (e["id"], k), "expr": e["ref"], "data": d})
    out = node_jobs(jobs)
    by_id = {r["id"]: r for r in out}
    n_eval = n_skip = n_both_err = 0
    shapes = {}
    sizes = {}
    bad = []
    for e in exprs:
        shapes[e["shape"]] = shapes.get(e["shape"], 0) + 1
        sizes[min(e["size"] // 10 * 10, 60)] = sizes.get(min(e["size"] // 10 * 10, 60), 0) + 1
        g = by_id["g%d" % e["id"]]
        if e["max_level"] >= 3:
            bad.append((e, None, "well-formed expression rejected by the parser (diagnostic level %d)" % e["max_level"], None, None))
            continue
        for k, d in enumerate(e["datas"]):
            r = by_id["r%d_%d" % (e["id"], k)]
            n_eval += 1
            if r.get("skip"):
                n_skip += 1
                continue
            gv = None
            gerr = g.get("error")
            if not gerr and k < len(g.get("logs", [])):
                for entry in g["logs"][k]:
                    if entry[0] == "r" and entry[1] == "a":
                        gv = entry[2]
            elif not gerr:
                gerr = "no log for step %d" % k
            if "error" in r:
                if gerr or gv is None:
                    n_both_err += 1
                else:
                    bad.append((e, d, "reference throws (%s) but generated code yields a value" % r["error"], gv, None))
                continue
            if gerr:
                # generated code throws at the first failing step; later steps are not observed
                bad.append((e, d, "generated code throws: %s" % gerr, None, r["value"]))
                break
            if json.dumps(gv, sort_keys=True) != json.dumps(r["value"], sort_keys=True):
                bad.append((e, d, "value differs", gv, r["value"]))
    return exprs, n_eval, n_skip, n_both_err, shapes, sizes, bad


def run(res):
    ok, what = (True, "")
    if THEOREMS:
        ok, what = proof_phase(res, "C03", THEOREMS)
    import exprtext
    r = exprtext.run(res.tier, res.seed, "C03")
    n_text = 0
    for (c, i, m) in r["mismatches"]:
        f = c.split("\t")
        aspects = exprtext.classify(c, i, m) if f[0] == "attrgen" else {"value"}
        if not (aspects & {"value", "other"}):
            continue   # guard / l-value / binding-map deviations are reported by C06 / C11 / C07
        n_text += 1
        if n_text <= 5:
            res.violation("generated value text differs from the Coq model of the expression generator (%s context): impl=%s model=%s" % (
                f[1], dec(i.split("|")[0])[:300], dec(m.split("|")[0])[:300]),
                {"case": f, "impl": i, "model": m}, no_input=True)
    exprs, n_eval, n_skip, n_err, shapes, sizes, bad = value_diff(res, res.tier, res.seed)
    # a text mismatch accompanied by a value mismatch is a concrete failing input: keep only those as "with input"
    if bad:
        res.violations = [v for v in res.violations if not v["no_input"]] if False else res.violations
    seen = set()
    for (e, d, msg, gv, rv) in bad:
        key = (e["shape"], msg[:40])
        if key in seen and len(seen) > 8:
            continue
        seen.add(key)
        res.violation("C03 value differential: {{ %s }} with data %s: %s (generated=%s reference=%s)" % (
            e["wxml"], json.dumps(d)[:300], msg, json.dumps(gv)[:200], json.dumps(rv)[:200]),
            {"wxml": e["wxml"], "src": e["src"], "reference_js": e["ref"], "data": d, "generated": gv, "reference": rv})
    if not ok:
        res.violation(what, {"obligation": "Properties/C03.v"}, no_input=not bad)
    res.cov["evaluations"] = r["n"] + n_eval
    res.cov["distinct_nontrivial"] = len(set(e["wxml"] for e in exprs if e["size"] >= 3))
    res.cov["rule"] = ("text correspondence: every (operator, operand position, child shape) combination to depth 2 plus random "
                       "expressions (depth <= 6) in attribute / model: / event-named attribute / text contexts; value differential: "
                       "the same expressions x data environments drawn from the edge pool; non-trivial = expression with >= 3 nodes; "
                       "distinct = distinct WXML spellings")
    res.cov["samples"] = [{"wxml": e["wxml"], "reference_js": e["ref"][:200]} for e in exprs[:: max(1, len(exprs) // 5)][:5]]
    res.notes.update({"text_cases": r["n"], "text_case_kinds": r["kinds"], "value_evaluations": n_eval,
                      "skipped_out_of_domain": n_skip, "both_throw": n_err, "top_shape_histogram": shapes,
                      "size_histogram": {str(k): v for k, v in sorted(sizes.items())}})
