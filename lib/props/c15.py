"""C15 — diagnostics: clean input is clean, broken input flagged, locations valid."""
import json
from vcheck import *
import locs

MANIFEST = {
    "id": "C15",
    "text": "Coq theorems: the parser's (line, UTF-16 column) bookkeeping (skip_bytes arithmetic) equals character-wise advancing for "
            "every sequence of cursor moves, and every position so obtained decodes to the very offset it was taken at (so it lies in "
            "the source on an existing line and column); the level table has 31 entries in Note..Fatal and every structural defect "
            "kind is documented at >= Warn. Tie: the level of each of the 31 kinds is read off the binary and compared with the Coq "
            "table; every location of every diagnostic (clean, injected and fuzzed inputs) is decoded with the extracted proved "
            "decoder (start <= end, both exist); generated well-formed templates must raise nothing >= Warn; 21 kinds of single "
            "defect injections placed at the start/end/nested inside large templates must raise >= the documented level.",
    "note": "The char-level tag parser is not modelled: that diagnostics are only created from the cursor's position() is taken from "
            "reading the code and checked by decoding every reported location. 'Documented syntax' is what the generator emits.",
    "technique": "Coq proof (position invariant, decode/encode round trip, finite level table) + exhaustive level-table correspondence + generated clean/injected/fuzzed inputs",
}

THEOREMS = ["C15_skip_text_advance", "C15_skip_text_app", "C15_position_decode", "C15_structural_levels", "C15_levels_in_range",
            "C15_expression_failure_is_diagnosed_or_at_end", "C15_failed_binding_is_diagnosed"]


def run(res):
    ok, what = proof_phase(res, "C15", THEOREMS)
    # the parser model behind the no-silent-failure theorems: ASTs and, for single bindings, which diagnostics are raised
    import valparse
    rv = valparse.run(res.tier, res.seed, "C15")
    res.notes["value_parser_cases"] = rv["n"]
    for (c, i, m) in rv["mismatches"][:3]:
        d = valparse.describe(c)
        if d["context"] == "diag":
            res.violation("binding {{%s: the parser raises [%s], the Coq model of the binding parser predicts %s" % (
                d["source"][:200], i[:200], m), {"src": "<v>{{" + d["source"], "impl_diagnostics": i, "model": m})
        else:
            res.violation("the parser reads the %s value %r as %s, the Coq model says %s" % (d["context"], d["source"][:200], i[:300], m[:300]),
                          dict(d, impl=i, model=m))
    found = 0
    # 1. level table (exhaustive)
    p = harness_run(["diag_levels"])
    cases = split_cases(p.stdout.decode("utf8"))
    model = modelrun([c[0] for c in cases])
    for (c, i), m in zip(cases, model):
        if i != m:
            found += 1
            res.violation("diagnostic kind %s has level %s in the implementation, %s in the documented table" % (c.split("\t")[1], i, m),
                          {"code": c.split("\t")[1], "impl_level": i, "table_level": m}, no_input=True)
    if len(cases) != 31:
        res.violation("expected 31 diagnostic kinds, harness lists %d" % len(cases), {"n": len(cases)}, no_input=True)
    # 2. clean templates and injections
    p = harness_run(["diag", res.tier, res.seed], timeout=3000)
    n_clean = n_inj = 0
    inj_jobs = []
    inj_hist = {}
    kind_exact = 0
    for l in p.stdout.decode("utf8").split("\n"):
        if not l:
            continue
        j = json.loads(l)
        inj_jobs.append(j)
        if j["kind"] == "clean":
            n_clean += 1
            bad = [d for d in j["diags"] if d["level"] >= 2]
            if bad:
                found += 1
                if found <= 8:
                    res.violation("a template that follows the documented syntax raises %r (level %d) at %s" % (
                        bad[0]["msg"], bad[0]["level"], bad[0]["loc"]), {"src": j["src"], "diagnostics": bad})
        else:
            n_inj += 1
            inj_hist[j["injection"]] = inj_hist.get(j["injection"], 0) + 1
            if any(d["code"] == j["expect_code"] for d in j["diags"]):
                kind_exact += 1
            if not any(d["level"] >= j["expect_level"] for d in j["diags"]):
                found += 1
                if found <= 8:
                    res.violation("defect %r is not flagged at level >= %d (diagnostics: %s)" % (
                        j["injection"], j["expect_level"], [(d["msg"], d["level"]) for d in j["diags"]][:6]),
                        {"src": j["src"], "injection": j["injection"], "diagnostics": j["diags"]})
    # 3. location validity on clean + fuzzed inputs
    jobs = locs.load(res.tier, res.seed)
    for j in inj_jobs:
        j["class"] = "defect-injected" if j["kind"] == "inject" else "clean"
    jobs = jobs + [j for j in inj_jobs if j["diags"]]
    dec_maps = locs.decode_all(jobs)
    n_diag = 0
    for j, (m1, _) in zip(jobs, dec_maps):
        for d in j["diags"]:
            n_diag += 1
            a = m1.get((d["loc"][0], d["loc"][1]))
            b = m1.get((d["loc"][2], d["loc"][3]))
            if a is None or b is None or a > b:
                found += 1
                if found <= 8:
                    res.violation("diagnostic %r has an invalid location %s (decoded offsets %s..%s) in a %s input" % (
                        d["msg"], d["loc"], a, b, j["class"]), {"src": j["src"], "diagnostic": d})
    if not ok:
        res.violation(what, {"obligation": "Properties/C15.v"}, no_input=(found == 0))
    res.cov["evaluations"] = len(cases) + n_clean + n_inj + n_diag
    res.cov["distinct_nontrivial"] = n_inj
    res.cov["exhaustive"] = False
    res.cov["rule"] = ("31 kinds (exhaustive); generated well-formed templates; 21 injection kinds x templates x 5 placements; every "
                       "diagnostic location of clean, decorated (line breaks / CJK / astral) and fuzzed inputs decoded; non-trivial = injections")
    res.cov["samples"] = [{"injection": k, "count": v} for k, v in list(inj_hist.items())[:5]]
    res.notes.update({"clean_templates": n_clean, "injections": n_inj, "injection_histogram": inj_hist,
                      "injections_with_exact_kind": kind_exact, "diagnostic_locations_decoded": n_diag, "inputs_for_locations": len(jobs)})
