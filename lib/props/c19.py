"""C19 — stylesheet source maps point each output token at its source token."""
from props.csscommon import *

MANIFEST = {
    "id": "C19",
    "text": "Coq, by induction over ARBITRARY sequences of output operations: C19_out_col_invariant (utf16_len = UTF-16 "
            "length of the text), C19_entry_col_exact(_sp) (generated column = UTF-16 length of the text in front of the "
            "token itself, after the separator; entry carries the given source position and the css text of the source "
            "token as name), C19_entries_monotone, C19_entries_within_text; by induction over the walkers for every token "
            "tree and option set: C19_transform_outputs_are_op_runs (hence the three C19_transform_* corollaries) and "
            "C19_entries_point_into_tree (every entry points at the start of a node or the end of a list) and "
            "C19_src_is_token_start_no_comments (... of a token, for sheets without comments); the defect D22 (entry pointing "
            "at a preceding comment) is repaired and its witness is an Example of the correct mapping. Each run: the map of the real crate after "
            "its JSON round trip must equal the model's, and independently every entry is checked on the real output: "
            "column is a token start, order non-decreasing, tokenise(source at src)[0] corresponds to tokenise(output at "
            "dst)[0] (same token / rewrite with name = css text of the source token / closing bracket -> opening bracket "
            "/ synthesised token -> triggering construct), every non-whitespace token of the normal output has an entry.",
    "note": "Names carry cssparser's canonical spelling of the source token (e.g. `1e1rpx` is named `10rpx`), which is what "
            "the model states and the check accepts. Not proved: token-start for sheets WITH comments (checked on every generated entry: an entry whose source token is a comment is a violation since D22 was repaired).",
    "technique": "Coq proof by induction over operation sequences and over token trees + exact model/implementation "
                 "comparison of maps + direct check of every entry against both texts",
}

THEOREMS = ["C19_out_col_invariant", "C19_entry_col_exact", "C19_entry_col_exact_sp", "C19_entries_monotone",
            "C19_entries_within_text", "C19_transform_outputs_are_op_runs", "C19_transform_col_invariant",
            "C19_transform_entries_monotone", "C19_entries_point_into_tree", "C19_src_is_token_start_no_comments"]


def run(res):
    css_check(res, "C19", THEOREMS, ["c19_entries", "c19_named", "c19_model_map_disagree"],
              "source-map entries of both outputs for every generated sheet (multi-line, CRLF/FF line breaks, astral and "
              "multi-byte characters, all rewrite kinds); non-trivial = entries checked individually against source and "
              "output text")
