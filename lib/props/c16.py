"""C16 — recorded source positions point at the text they describe."""
import json
import re
from vcheck import *
import locs

MANIFEST = {
    "id": "C16",
    "text": "Coq theorems: positions decode to the offset they were taken at; the stringifier (state machine over output text, line, "
            "column, map entries) registers for every token exactly the end-of-output position (its actual line / UTF-16 column) and "
            "output positions are non-decreasing, for all operation sequences. Tie / search: for generated templates decorated with "
            "line breaks, CJK and astral characters, every located node (tag / attribute / identifier / member / keyword / "
            "punctuation / static value / literal) is sliced from the source with the extracted proved decoder and compared with its "
            "spelling; children nest inside parents, siblings are in source order; every source-map token's source position starts "
            "the token's name, generated positions decode inside the output and are non-decreasing, the map survives serialisation.",
    "note": "Locations are produced by the (unmodelled) char-level parser; their correctness per node class is established by "
            "slicing, not by proof. Names under mangling carry the mangled spelling (DESIGN.md D21): only unmangled printing is checked.",
    "technique": "Coq proof (position decode, stringifier invariants by induction over op sequences) + slicing every recorded location of generated templates",
}

THEOREMS = ["C16_position_decode", "C16_srcmap_dst_exact", "C16_srcmap_monotone"]


def camel(s):
    out = []
    up = False
    for c in s:
        if c == "-":
            up = True
        elif up:
            out.append(c.upper() if c.isascii() else c)
            up = False
        else:
            out.append(c)
    return "".join(out)


def run(res):
    ok, what = proof_phase(res, "C16", THEOREMS)
    found = 0
    jobs = [j for j in locs.load(res.tier, res.seed) if j["class"] == "clean"]
    dec_maps = locs.decode_all(jobs)
    n_loc = n_tok = 0
    classes = {}
    multi = 0
    known_norm = [0]

    def viol(msg, rp):
        nonlocal found
        found += 1
        if found <= 8:
            res.violation(msg, rp)
    for j, (m1, m2) in zip(jobs, dec_maps):
        src = j["src"]
        if any(ord(c) > 127 for c in src) and "\n" in src:
            multi += 1
        if any(d["level"] >= 3 for d in j["diags"]):
            continue
        for l in j["located"]:
            n_loc += 1
            classes[l["class"]] = classes.get(l["class"], 0) + 1
            a = m1.get((l["loc"][0], l["loc"][1]))
            b = m1.get((l["loc"][2], l["loc"][3]))
            if a is None or b is None or a > b:
                viol("location %s of a %s node does not exist in the source" % (l["loc"], l["class"]), {"src": src, "node": l})
                continue
            text = src[a:b]
            sp = l["spelling"]
            c = l["class"]
            good = True
            if c in ("ident", "member", "obj-key", "tag-name", "attr-name", "keyword", "punct"):
                good = text == sp
            elif c == "punct2":
                # the closing braces of a binding inside mixed text: the recorded span is extended over the
                # static text that follows (the value's location ends there)
                good = text.startswith(sp)
            elif c == "attr-name-camel":
                good = camel(text) == sp
            elif c == "attr-name-data":
                good = (camel(text[5:].lower()) == sp) if text.startswith("data-") else (text == sp)
            elif c == "scope-ident":
                good = text.replace("_", "a").replace("$", "a").isalnum() and not text[:1].isdigit()
            elif c == "lit-str":
                # quoted literal, or a static piece of mixed text (recorded as a string literal spanning that text)
                # ... or a literal that ends a binding, merged with the static text that follows the binding (`{{ a + 'x' }}y`
                # is read as a + "xy"): the node is read from the literal AND the text, its location is their hull
                if text[:1] in ("'", '"'):
                    good = len(text) >= 2 and text[0] == text[-1]
                    if not good:
                        mm = re.match(r"""^(?:'(?:[^'\\]|\\.)*'|"(?:[^"\\]|\\.)*")\s*\}\}(?:(?!\{\{).)*$""", text, flags=re.S)
                        good = mm is not None
                else:
                    # a static piece of mixed text: it is read from text, never from the braces of a binding
                    good = not text.startswith("{{")
            elif c == "expr-span":
                # a compound expression: its sub-expressions and its own tokens lie inside its location
                for ch in l.get("children", []):
                    ca = m1.get((ch[0], ch[1]))
                    cb = m1.get((ch[2], ch[3]))
                    if ca is None or cb is None or ca < a or cb > b:
                        viol("a part at %s of the compound expression %r lies outside the expression's location %s" % (ch, text, l["loc"]),
                             {"src": src, "node": l, "part": ch})
                        break
            elif c == "lit-num":
                good = len(text) >= 1 and (text[0].isdigit() or text[0] == ".")
            elif c == "static-value":
                good = (text == sp) if "&" not in text else True
            elif c == "static-value-path":
                good = (text == sp or text == sp + ".wxml" or text == sp + ".wxs") if "&" not in text else True
            if not good:
                viol("the location of a %s node spans %r but the node is %r" % (c, text, sp), {"src": src, "node": l, "slice": text})
        # nesting and sibling order

        def walk(nodes, lo, hi):
            prev = lo
            for n in nodes:
                a = m1.get((n["loc"][0], n["loc"][1]))
                b = m1.get((n["loc"][2], n["loc"][3]))
                if a is None or b is None or a > b:
                    viol("location %s of a %s does not exist in the source" % (n["loc"], n["kind"]), {"src": src, "node": n["loc"]})
                    continue
                if a < prev or b > hi:
                    viol("%s at offsets %d..%d is not nested in its parent %d..%d / not after its previous sibling (ends %d)" % (
                        n["kind"], a, b, lo, hi, prev), {"src": src, "node": n["loc"]})
                prev = b if n["kind"] != "if" else prev
                if n["kind"] in ("element", "for"):
                    walk(n["children"], a, b)
                elif n["kind"] == "if":
                    # an if-group spans several sibling tags: its branches' children lie inside the group's span
                    walk(n["children"], a, b)
                    prev = max(prev, a)
        for t in j["trees"]:
            walk(t, 0, len(src))
        # source map of the re-printed text
        out_text = j["stringified"]
        prev_dst = -1
        brace_src = {}
        for tk in j["tokens"]:
            n_tok += 1
            d = m2.get((tk[0], tk[1]))
            s = m1.get((tk[2], tk[3]))
            # an opening `{{` of the output is printed from an opening `{{` of the source, each from its own one
            if d is not None and s is not None and tk[4] is None and out_text[d:d + 2] == "{{":
                if src[s:s + 2] != "{{":
                    viol("the `{{` printed at output offset %d is mapped to source text %r" % (d, src[s:s + 6]), {"src": src, "token": tk})
                elif s in brace_src and brace_src[s] != d:
                    viol("two different `{{` of the output (offsets %d and %d) are mapped to the same source `{{` at offset %d" % (
                        brace_src[s], d, s), {"src": src, "token": tk, "output": out_text})
                brace_src.setdefault(s, d)
            if d is None:
                viol("source-map token has a generated position (%d,%d) outside the output" % (tk[0], tk[1]), {"src": src, "token": tk, "output": out_text})
                continue
            if d < prev_dst:
                viol("source-map generated positions decrease at token %s" % tk, {"src": src, "token": tk})
            prev_dst = d
            if s is None:
                viol("source-map token points at a source position (%d,%d) that does not exist" % (tk[2], tk[3]), {"src": src, "token": tk})
                continue
            if tk[4] is not None and not src[s:].startswith(tk[4]):
                # known finding KF-C16-1: names the parser normalises (data-x -> x, dash -> camelCase) carry the
                # normalised spelling; anything else is a violation
                w = ""
                for ch in src[s:]:
                    if ch.isalnum() or ch in "-_.$":
                        w += ch
                    else:
                        break
                import html as _html
                if tk[4] == camel(w) or (w.startswith("data-") and tk[4] == camel(w[5:].lower())):
                    known_norm[0] += 1
                elif "&" in src[s:s + 8 * len(tk[4]) + 8] and _html.unescape(src[s:s + 8 * len(tk[4]) + 8]).startswith(tk[4]):
                    # same finding: the AST keeps the decoded value of a static string written with character references
                    known_norm[0] += 1
                else:
                    viol("source-map name %r is not the source spelling at its source position (source has %r)" % (tk[4], src[s:s + 12]),
                         {"src": src, "token": tk})
        if not j.get("map_roundtrip", True):
            viol("the source map does not survive serialisation", {"src": src})
    kf = [k for k in known_findings()["findings"] if k.get("id") == "KF-C16-1"]
    if known_norm[0] and kf:
        res.known.append("KF-C16-1: %s (%d tokens in this run)" % (kf[0]["what"], known_norm[0]))
    elif known_norm[0]:
        viol("source-map names of normalised attribute names do not carry the source spelling", {"count": known_norm[0]})
    if not ok:
        res.violation(what, {"obligation": "Properties/C16.v"}, no_input=(found == 0))
    res.cov["evaluations"] = n_loc + n_tok
    res.cov["distinct_nontrivial"] = multi
    res.cov["rule"] = ("generated well-formed templates, half of them decorated with line breaks / CJK / astral characters before and "
                       "between tokens; every located AST node and every source-map token checked; non-trivial = multi-line templates "
                       "with non-ASCII text")
    res.cov["samples"] = [{"src": j["src"][:200]} for j in jobs[:3]]
    res.notes.update({"located_nodes": n_loc, "class_histogram": classes, "source_map_tokens": n_tok, "templates": len(jobs)})
