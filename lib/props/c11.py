"""C11 — emitted l-value paths address exactly the value the expression reads."""
import copy
import json
import re
from vcheck import *
import behave

MANIFEST = {
    "id": "C11",
    "text": "Coq: executable model of is_legal_lvalue_path / to_lvalue_path_arr inside the generator model (exact text of the path "
            "arrays incl. prefixes 0/1/2, `...var`, `.slice(1)`, conditional paths), theorems: a non-access-chain expression never "
            "gets a path, a conditional gets the path of each branch, the emitted data path of an access chain is exactly its chain "
            "of member names / hoisted indices. Tie: text correspondence in model:/event contexts; behaviour under node: for every "
            "path the generated code hands to the runtime (R.r model and general paths, R.v / R.p / R.l, F), reading the data at that "
            "path yields the very value delivered (get), and writing a sentinel there and re-creating delivers the sentinel (put).",
    "note": "Script-module paths (prefix 1/2) are checked for shape (module and member names) only. A self-referential index "
            "(a[a.i]) satisfies 'get' but not 'put' by construction; such cases are reported separately if they occur.",
    "technique": "Coq proof (the denoted path names the value read, for the access/operator/conditional fragment; non-assignable forms get no path; member-chain path text) + model/implementation text and denotation correspondence + get/put execution under node",
    "jsrt": True,
}

THEOREMS = ["C11_path_names_what_is_read", "C11_not_assignable_no_path", "C11_member_chain_path_text"]

SENTINEL = "☃SENTINEL"


def dec_val(v):
    """marker JSON -> python (only what paths need)"""
    if isinstance(v, dict):
        if "$a" in v:
            return [dec_val(x) for x in v["$a"]]
        if "$o" in v:
            return {k: dec_val(x) for k, x in v["$o"].items()}
        return v
    return v


def _numnorm(v):
    """JSON numbers: 4294967296.0 and 4294967296 are the same JavaScript number"""
    if isinstance(v, float) and v == int(v) and abs(v) < 1e21:
        return int(v)
    if isinstance(v, list):
        return [_numnorm(x) for x in v]
    if isinstance(v, dict):
        return {k: _numnorm(x) for k, x in v.items()}
    return v


def seg_key(seg):
    """JavaScript's ToPropertyKey of a (marker-encoded) path segment"""
    if isinstance(seg, bool):
        return "true" if seg else "false"
    if seg is None:
        return "null"
    if isinstance(seg, int):
        return str(seg)
    if isinstance(seg, float):
        if seg == int(seg) and abs(seg) < 1e21:
            return str(int(seg))
        return repr(seg)
    if isinstance(seg, dict):
        if "$inf" in seg:
            return "Infinity" if seg["$inf"] > 0 else "-Infinity"
        if "$nan" in seg:
            return "NaN"
        if "$n0" in seg:
            return "0"
        if "$u" in seg:
            return "undefined"
        if "$a" in seg:
            return seg_key(seg["$a"])
        if "$fn" in seg or "$deep" in seg:
            return None
        # an object (marker-encoded or already decoded): Object.prototype.toString
        return "[object Object]"
    if isinstance(seg, list):
        # Array.prototype.join: null and undefined give the empty string
        parts = []
        for x in seg:
            if x is None or (isinstance(x, dict) and "$u" in x):
                parts.append("")
                continue
            k = seg_key(x)
            if k is None:
                return None
            parts.append(k)
        return ",".join(parts)
    return seg


PROTO_FUNCS = ("toString", "valueOf", "toLocaleString", "hasOwnProperty", "isPrototypeOf", "propertyIsEnumerable")


def get_path(data, path):
    path = [seg_key(x) for x in path]
    if any(x is None for x in path):
        return {"$unsupported": 1}
    cur = data
    for seg in path:
        # members every non-nullish value inherits from its prototype (the runtime encodes a function by its name)
        if seg in PROTO_FUNCS and cur is not None and not (isinstance(cur, dict) and ("$u" in cur or "$fn" in cur)) \
                and not (isinstance(cur, dict) and "$o" in cur and seg in cur["$o"]):
            cur = {"$fn": seg}
            continue
        if isinstance(cur, dict) and "$o" in cur:
            cur = cur["$o"].get(str(seg) if not isinstance(seg, str) else seg, {"$u": 1})
        elif isinstance(cur, dict) and "$a" in cur:
            try:
                i = int(seg)
            except (TypeError, ValueError):
                if seg == "length":
                    cur = len(cur["$a"])
                    continue
                return {"$u": 1}
            cur = cur["$a"][i] if 0 <= i < len(cur["$a"]) else {"$u": 1}
        elif isinstance(cur, str):
            # JavaScript strings are indexed by UTF-16 code unit
            units = cur.encode("utf-16-le", "surrogatepass")
            n_units = len(units) // 2
            try:
                i = int(seg)
                cur = units[2 * i:2 * i + 2].decode("utf-16-le", "surrogatepass") if 0 <= i < n_units else {"$u": 1}
            except (TypeError, ValueError):
                cur = n_units if seg == "length" else {"$u": 1}
        else:
            return {"$u": 1}
    return cur


def set_path(data, path, value):
    path = [seg_key(x) for x in path]
    if any(x is None for x in path):
        return None
    d = copy.deepcopy(data)
    cur = d
    for k, seg in enumerate(path):
        last = k + 1 == len(path)
        if isinstance(cur, dict) and "$o" in cur:
            key = seg if isinstance(seg, str) else str(seg)
            if last:
                cur["$o"][key] = value
                return d
            if key not in cur["$o"]:
                return None
            cur = cur["$o"][key]
        elif isinstance(cur, dict) and "$a" in cur:
            try:
                i = int(seg)
            except (TypeError, ValueError):
                return None
            if not (0 <= i < len(cur["$a"])):
                return None
            if last:
                cur["$a"][i] = value
                return d
            cur = cur["$a"][i]
        else:
            return None
    return None


def _walk(nodes, acc):
    for n in nodes:
        acc.append(n)
        _walk(n.get("ch", []) or [], acc)
    return acc


def script_paths(res, tree, j, label, counter):
    """general l-value paths rooted at a script module ([1, <script path>, members...] for a file, [2, <template path>,
    <module name>, members...] for an inline module) must name the module and member whose value the attribute delivers.
    The designed templates export self-describing functions named <module>_<member>_..., so the path is checked against the
    value without looking at the implementation's scope table."""
    bad = 0
    src = j["src"]
    inline = re.findall(r'<wxs module="([^"]+)">', src)
    ext = dict((m, p.lstrip("/")) for m, p in re.findall(r'<wxs module="([^"]+)" src="([^"]+)"', src))
    for n in _walk(tree, []):
        if n.get("k") != "elem":
            continue
        for key, rec in n.get("attrs", []) or []:
            pth = rec.get("lv")
            if not (isinstance(pth, dict) and "$a" in pth):
                continue
            path = dec_val(pth)
            v = rec.get("v")
            if not path or path[0] not in (1, 2) or not (isinstance(v, dict) and "$fn" in v):
                continue
            # (only the designed, self-describing functions: <module>_<members>)
            if not any(v["$fn"].startswith(m + "_") for m in inline + list(ext)):
                continue
            counter[0] += 1
            if path[0] == 2:
                ok = len(path) >= 3 and path[1] == j["path"] and path[2] in inline and "_".join([path[2]] + [str(x) for x in path[3:]]) == v["$fn"]
            else:
                mods = [m for m, p in ext.items() if len(path) >= 2 and p == path[1]]
                ok = any("_".join([m] + [str(x) for x in path[2:]]) == v["$fn"] for m in mods)
            if not ok:
                bad += 1
                if bad <= 2:
                    res.violation("%s: the general path %r held by %s does not name the script module and member whose value it "
                                  "delivers (function %s)" % (label, path, key, v["$fn"]), {"src": src, "path": path, "attribute": key})
    return bad


def paths_in_effect(res, tree, data, j, label, counter):
    """every model / general l-value path held by an element of `tree` must address, in `data`, the value the same
    attribute currently holds (top-level elements only: inside wx:for / template-is the data object differs)"""
    bad = 0
    for n in tree:
        if n.get("k") != "elem":
            continue
        for key, rec in n.get("attrs", []) or []:
            for fld, kind in (("model", "model"), ("lv", "general")):
                pth = rec.get(fld)
                if not (isinstance(pth, dict) and "$a" in pth):
                    continue
                path = dec_val(pth)
                if kind == "general":
                    if not path or path[0] != 0:
                        continue
                    path = path[1:]
                counter[0] += 1
                got = get_path(data, path)
                if isinstance(got, dict) and "$unsupported" in got:
                    continue
                if json.dumps(_numnorm(got), sort_keys=True) != json.dumps(_numnorm(rec.get("v")), sort_keys=True):
                    bad += 1
                    if bad <= 2:
                        res.violation("%s: the %s path %r held by %s no longer addresses the value it delivers: data at the path = %s, "
                                      "value = %s" % (label, kind, path, key, json.dumps(got)[:100], json.dumps(rec.get("v"))[:100]),
                                      {"src": j["src"], "data": data, "path": path, "attribute": key})
    return bad


def path_denotation(res):
    """the Coq denotation of the model: path (Model/LvPath.v, what C11_path_names_what_is_read speaks about) against the
    path TEXT evaluated by node, and get: data at the evaluated path == value of the expression (node)"""
    p = harness_run(["guardden", res.tier, res.seed], timeout=3000)
    jobs = [json.loads(l) for l in p.stdout.decode("utf8").split("\n") if l]
    jobs = jobs[::2]
    model = modelrun(["path_den\t%s\t%s\t%s" % (j["esc"], j["sexp"], j["data_sexp"]) for j in jobs])
    njobs, idx = [], []
    for k, (j, m) in enumerate(zip(jobs, model)):
        if m.startswith(("ERR", "EXC")):
            raise Infra("path_den model failed: %s on %s" % (m, j["text"]))
        if m == "SKIP":
            continue
        text, hoisted, den, val = m.split("|")
        # (Q.e as in group.rs EXTRA_RUNTIME_ITEMS: an l-value path extended by further members, `null` staying `null`)
        prog = "(() => { const Q = {e:function(a,b){return a&&b?a.concat(b):a}}; %s; return (%s) })()" % (dec(hoisted), dec(text))
        njobs.append({"op": "eval", "id": k, "expr": prog, "data": j["data"]})
        idx.append(k)
    out = node_jobs(njobs, shards=12)
    n = found = n_den = 0
    for k, o in zip(idx, out):
        j, m = jobs[k], model[k]
        text, hoisted, den, val = m.split("|")
        if o.get("skip"):
            continue
        if o.get("error"):
            # the path text must evaluate whenever the model gives it a denotation
            if den.startswith("D") and "is not defined" in o["error"]:
                found += 1
                if found <= 3:
                    res.violation("the l-value path text of {{ %s }} does not evaluate under node: %s" % (j["text"], o["error"][:200]),
                                  {"expr": j["text"], "path_text": dec(text)}, no_input=True)
            continue
        n += 1
        if den.startswith("D"):
            n_den += 1
            want = [dec(x) for x in den[1:].split(";")] if len(den) > 1 else []
            got = o.get("value")
            got_keys = None
            if isinstance(got, dict) and "$a" in got:
                got_keys = [x if isinstance(x, str) else (str(x) if isinstance(x, int) and not isinstance(x, bool) else None) for x in got["$a"]]
            if got_keys != want:
                found += 1
                if found <= 3:
                    res.violation("denotation of the l-value path differs from the path text evaluated by node for {{ %s }}: model %r, node %r" % (
                        j["text"], want, got), {"expr": j["text"], "data": j["data"], "path_text": dec(text)})
    return n, n_den, found


def effect_stage(res):
    """histories of the expression-shape matrix (update steps) and binding-map updates of its attribute-only templates"""
    matrix = behave.get_results(res.tier, res.seed, "behave_matrix")
    counter = [0]
    bad = 0
    jobs = []
    meta = []
    for rr in matrix:
        j, run0 = rr["job"], rr["run"]
        if run0.get("error"):
            # the designed loop templates are well-formed and their data is plain: generated path code that throws there
            # (e.g. spreading a null item path) is a failure to deliver the path
            if any(str(f).startswith("matrix-loop-template") for f in j.get("features", [])) and "list too long" not in run0["error"]:
                bad += 1
                res.violation("the generated code of a loop template with two-way bindings throws: %s" % run0["error"][:200],
                              {"src": j["src"], "datas": j["datas"], "error": run0["error"]})
            continue
        for k, t in enumerate(run0["trees"]):
            if bad < 6:
                bad += paths_in_effect(res, t, j["datas"][k], j, "after update step %d" % k, counter)
                bad += script_paths(res, t, j, "after update step %d" % k, counter)
        if "matrix-attrs-only" not in j.get("features", []) and not any(str(f).startswith("matrix-loop-template") for f in j.get("features", [])):
            continue
        d0 = j["datas"][0]
        for f in sorted(run0.get("B") or {}):
            for alt in (0, 1, 2, "", "a", "x", "b", None, True):
                if d0["$o"].get(f) == alt:
                    continue
                d1 = copy.deepcopy(d0)
                d1["$o"][f] = alt
                jobs.append({"op": "run", "id": "b", "bundle": j["bundle"], "path": j["path"], "slotValues": j.get("slotValues"),
                             "steps": [{"create": d0}, {"bmap": f, "data": d1}]})
                meta.append((j, f, d1))
    out = node_jobs(jobs, shards=12)
    for (j, f, d1), o in zip(meta, out):
        if o.get("error"):
            continue
        if bad < 6:
            bad += paths_in_effect(res, o["trees"][1], d1, j, "after the binding-map update of field %r" % f, counter)
            bad += script_paths(res, o["trees"][1], j, "after the binding-map update of field %r" % f, counter)
    return counter[0], bad


def run(res):
    ok, what = (True, "")
    if THEOREMS:
        ok, what = proof_phase(res, "C11", THEOREMS)
    found = 0
    import exprtext
    rt = exprtext.run(res.tier, res.seed, "C11")
    nl = 0
    for (c, i, m) in rt["mismatches"]:
        if c.startswith("attrgen\t") and "lvalue" in exprtext.classify(c, i, m):
            nl += 1
            if nl <= 3:
                res.violation("l-value path text differs from the Coq model: impl=%s model lvalue=%s" % (
                    dec(i.split("|")[0])[:300], dec(m.split("|")[5])[:200]), {"case": c.split("\t"), "impl": i, "model": m}, no_input=True)
    n_eff, f_eff = effect_stage(res)
    found += f_eff
    n_pd, n_pd_den, f_pd = path_denotation(res)
    found += f_pd
    res.notes.update({"path_denotation_cases": n_pd, "path_denotation_defined": n_pd_den})
    res.notes["paths_in_effect_checked"] = n_eff
    results = behave.get_results(res.tier, res.seed, "behave") + behave.get_results(res.tier, res.seed, "behave_matrix")
    n_paths = 0
    kinds = {}
    put_jobs = []
    put_meta = []
    for rr in results:
        j = rr["job"]
        run0 = rr["run"]
        if run0.get("error") or not run0.get("logs"):
            continue
        if "template-is" in j.get("features", []) or "include" in j.get("features", []):
            continue   # sub-templates read their own data object: paths are relative to it, not to the root data
        # the creation log and, for the designed families, the log of every update step (paths are re-emitted by the
        # setters that run again) — each against the data of that moment
        steps_logs = [(j["datas"][0], run0["logs"][0], True)]
        if any(str(f).startswith("matrix") for f in j.get("features", [])):
            for k in range(1, min(len(run0["logs"]), len(j["datas"]))):
                steps_logs.append((j["datas"][k], run0["logs"][k], False))
        for (d0, step_log, is_creation) in steps_logs:
          for e in step_log:
              cands = []   # (what, path array (decoded), value delivered, kind)
              if e[0] == "r":
                  if len(e) > 3 and isinstance(e[3], dict) and "$a" in e[3]:
                      cands.append(("model", dec_val(e[3]), e[2], e[1]))
                  if len(e) > 4 and isinstance(e[4], dict) and "$a" in e[4]:
                      cands.append(("general", dec_val(e[4]), e[2], e[1]))
              elif e[0] in ("v", "p", "l") and isinstance(e[-1], dict) and "$a" in e[-1]:
                  cands.append(("general", dec_val(e[-1]), e[2], e[1]))
              elif e[0] == "F" and isinstance(e[3], dict) and "$a" in e[3]:
                  cands.append(("general", dec_val(e[3]), e[1], "wx:for"))
              for (kind, path, value, name) in cands:
                  n_paths += 1
                  if kind == "model":
                      data_path = path
                  else:
                      if not path:
                          continue
                      if path[0] == 0:
                          data_path = path[1:]
                      elif path[0] in (1, 2):
                          kinds["script"] = kinds.get("script", 0) + 1
                          need = 2 if path[0] == 1 else 3
                          if len(path) < need or not all(isinstance(x, (str, int)) for x in path[1:]):
                              found += 1
                              res.violation("script l-value path has a wrong shape: %r" % (path,), {"src": j["src"], "path": path})
                          continue
                      else:
                          found += 1
                          res.violation("general l-value path does not start with 0/1/2: %r" % (path,), {"src": j["src"], "path": path})
                          continue
                  kinds[kind] = kinds.get(kind, 0) + 1
                  got = get_path(d0, data_path)
                  if isinstance(got, dict) and "$unsupported" in got:
                      continue
                  if isinstance(got, dict) and "$u" in got and isinstance(value, dict) and "$fn" in value:
                      # a member inherited from a prototype (`l.constructor`, `s.valueOf`): not part of the data the path
                      # language addresses, the oracle's data has no such member (own functions of the data are `$fn`
                      # values there and are compared)
                      kinds["inherited-member"] = kinds.get("inherited-member", 0) + 1
                      continue
                  if json.dumps(_numnorm(got), sort_keys=True) != json.dumps(_numnorm(value), sort_keys=True):
                      # for-loop items over non-arrays (objects / strings / numbers) are addressed by key: allow object keys
                      found += 1
                      if found <= 6:
                          res.violation("the %s path %r emitted for %r does not address the value the expression read: "
                                        "data at the path = %s, delivered value = %s" % (
                                            kind, path, name, json.dumps(got)[:120], json.dumps(value)[:120]),
                                        {"src": j["src"], "data": d0, "path": path, "channel": e[0], "name": name})
                      continue
                  # put: write a sentinel, re-create, expect the sentinel to be delivered on the same channel/name
                  d1 = set_path(d0, data_path, SENTINEL) if is_creation else None
                  if d1 is not None and len(put_jobs) < (4000 if res.tier == "thorough" else 600):
                      put_jobs.append({"op": "run", "id": "p", "bundle": j["bundle"], "path": j["path"], "slotValues": j.get("slotValues"),
                                       "log": True, "steps": [{"create": d1}]})
                      put_meta.append((j, e[0], name, path, kind, d1))
    out = node_jobs(put_jobs, shards=12)
    n_put = n_put_ok = n_put_unobservable = 0
    for (j, ch, name, path, kind, d1), o in zip(put_meta, out):
        n_put += 1
        if o.get("error"):
            n_put_unobservable += 1
            continue
        hit = False
        same_path_seen = False
        for e in o["logs"][0]:
            if e[0] != ch and not (ch == "F" and e[0] == "F"):
                continue
            paths = [dec_val(x) for x in e if isinstance(x, dict) and "$a" in x]
            if path in paths:
                same_path_seen = True
                vals = [e[2]] if ch != "F" else [e[1]]
                if vals[0] == SENTINEL:
                    hit = True
        if hit:
            n_put_ok += 1
        elif same_path_seen:
            found += 1
            if found <= 6:
                res.violation("put fails: after writing a sentinel at %s path %r the binding %r does not deliver it" % (kind, path, name),
                              {"src": j["src"], "data_with_sentinel": d1, "path": path, "channel": ch, "name": name})
        else:
            n_put_unobservable += 1   # writing the sentinel changed the structure (e.g. a condition): not comparable
    if not ok:
        res.violation(what, {"obligation": "Properties/C11.v"}, no_input=(found == 0))
    res.cov["evaluations"] = rt["n"] + n_paths + n_put + n_eff
    res.cov["distinct_nontrivial"] = n_put_ok
    res.cov["rule"] = ("every l-value path array observed by the reference runtime on creation of the behavioural templates "
                       "(model:, event, change:, slot values, wx:for lists incl. nested for-items): get = data at path equals the "
                       "delivered value; put = sentinel written at the path is delivered after re-creation; non-trivial = successful puts")
    res.cov["samples"] = [{"path": m[3], "channel": m[1], "name": m[2], "src": m[0]["src"][:160]} for m in put_meta[:5]] or [{"note": "no paths"}]
    res.notes.update({"paths_observed": n_paths, "path_kinds": kinds, "puts": n_put, "puts_ok": n_put_ok,
                      "puts_structure_changed": n_put_unobservable, "text_cases": rt["n"]})
