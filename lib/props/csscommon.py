"""Shared machinery of the stylesheet-compiler checks (C08 C09 C10 C17 C18 C19).

One harness run (`verif-harness css <tier> <seed>`) + one model run serve all six properties; the
per-case analysis is cached under .cache/css_runs keyed by (tier, seed, hash of the stylesheet
crate sources in /repo, of the harness, of the Coq models and handlers, of this file), so a
change anywhere recomputes everything.  The harness itself is rebuilt from /repo on every call.
"""
import hashlib
import json
import os
import pickle
import re
import subprocess
import time
from concurrent.futures import ThreadPoolExecutor
from fractions import Fraction

from vcheck import *

SECT_I = ["Ntoks", "Ntext", "Nmap", "Ltoks", "Ltext", "Lmap", "warn", "Ncols", "Lcols"]
# model sections
M_NTOK, M_NTEXT, M_NMAP, M_LTOK, M_LTEXT, M_LMAP, M_WARN, M_FUEL, M_WF, M_KNOWN, M_CMN, M_CML, M_CIN, M_CIL, \
    M_EWARN, M_PATHS, M_EXPN, M_EXPL, M_NUMS = range(19)

# D13 D14 D17 D22 D23 D25 D26 were repaired in /repo (fix: commits): they are no classes any more
KNOWN_IDS = {15: "D15", 24: "D24", 27: "D27", 28: "D28", 29: "D29"}

RUNS = os.path.join(CACHE, "css_runs")


def _src_files():
    fs = []
    d = os.path.join(REPO, "glass-easel-stylesheet-compiler", "src")
    for f in sorted(os.listdir(d)):
        fs.append(os.path.join(d, f))
    fs.append(os.path.join(REPO, "glass-easel-stylesheet-compiler", "Cargo.toml"))
    fs.append(os.path.join(REPO, "Cargo.lock"))
    for f in ("css.rs", "util.rs"):
        fs.append(os.path.join(HARNESS, "src", f))
    fs.append(os.path.join(HARNESS, "Cargo.toml"))
    for f in sorted(os.listdir(os.path.join(COQ, "Model"))):
        if f.startswith("Css") and f.endswith(".v") or f == "Str.v":
            fs.append(os.path.join(COQ, "Model", f))
    fs.append(os.path.join(EXTRACT_SRC, "handlers", "css.ml"))
    fs.append(os.path.join(EXTRACT_SRC, "driver_base.ml"))
    fs.append(os.path.join(EXTRACT_SRC, "driver_main.ml"))
    fs.append(os.path.abspath(__file__))
    return [f for f in fs if os.path.exists(f)]


def run_key(tier, seed):
    h = hashlib.sha256()
    h.update(("%s/%s" % (tier, seed)).encode())
    for f in _src_files():
        h.update(f.encode())
        h.update(open(f, "rb").read())
    return h.hexdigest()[:24]


def pmodel(lines, nproc=16):
    """modelrun over `lines`, split over processes (the extracted model is single-threaded)."""
    exe = modelrun_build()
    if not lines:
        return []
    nproc = max(1, min(nproc, len(lines) // 50 + 1))
    chunks = [lines[i::nproc] for i in range(nproc)]

    def run(ch):
        p = subprocess.run(["bash", "-c", "ulimit -s unlimited 2>/dev/null; exec %s" % exe],
                           input=("\n".join(ch) + "\n").encode("utf8"), stdout=subprocess.PIPE,
                           stderr=subprocess.PIPE, timeout=3000)
        r = p.stdout.decode("utf8").split("\n")
        if r and r[-1] == "":
            r.pop()
        if len(r) != len(ch):
            raise Infra("modelrun returned %d lines for %d cases: %s" % (len(r), len(ch), p.stderr.decode()[-500:]))
        return r

    with ThreadPoolExecutor(nproc) as ex:
        res = list(ex.map(run, chunks))
    out = [None] * len(lines)
    for i, r in enumerate(res):
        out[i::nproc] = r
    return out


# ------------------------------------------------------------------ S-expression helpers

def split_toks(s):
    """'(a (i "x") w "s t")' -> ['a', '(i "x")', 'w', '"s t"'] : the items of one list level
    (items may be atoms, quoted strings, or parenthesised groups, optionally prefixed by + or !)."""
    s = s.strip()
    n = len(s)
    i = 0
    if n and s[0] == "(" and s[-1] == ")":
        i, n = 1, n - 1
    out = []
    while i < n:
        c = s[i]
        if c == " ":
            i += 1
            continue
        st = i
        if c in "+!" and i + 1 < n and s[i + 1] == "(":
            i += 1
            c = "("
        if c == "(":
            depth = 0
            while i < n:
                c = s[i]
                if c == '"':
                    i += 1
                    while s[i] != '"':
                        i += 2 if s[i] == "\\" else 1
                elif c == "(":
                    depth += 1
                elif c == ")":
                    depth -= 1
                    if depth == 0:
                        break
                i += 1
            i += 1
        elif c == '"':
            i += 1
            while s[i] != '"':
                i += 2 if s[i] == "\\" else 1
            i += 1
        else:
            while i < n and s[i] not in ' ()"':
                i += 1
            if i == st:
                i += 1  # stray closing parenthesis
        out.append(s[st:i])
    return out


_STR_RE = re.compile(r'"((?:[^"\\]|\\.)*)"')


def unq(s):
    """decode the quoting used by the harness / model printer."""
    out = []
    i = 0
    while i < len(s):
        c = s[i]
        if c == "\\":
            if s[i + 1] == "u":
                j = s.index("}", i)
                out.append(chr(int(s[i + 3:j], 16)))
                i = j + 1
            else:
                out.append(s[i + 1])
                i += 2
        else:
            out.append(c)
            i += 1
    return "".join(out)


def tok_strings(t):
    return [unq(x) for x in _STR_RE.findall(t)]


def tok_kind(t):
    return t[1:].split(" ", 1)[0].rstrip(")") if t.startswith("(") else t


# ------------------------------------------------------------------ one case

class Case:
    __slots__ = ("opts", "css", "cat", "impl", "model", "tree")

    def replay(self):
        return {"css": unq(self.css[1:-1]), "opts_sexp": self.opts, "category": self.cat}


def parse_line(line):
    i = line.rfind("\t=>\t")
    if i < 0:
        raise Infra("bad harness line: " + line[:200])
    f = line[:i].split("\t")
    c = Case()
    c.opts, c.tree, c.css, c.cat = f[1], f[2], f[3], f[4] if len(f) > 4 else ""
    c.impl = line[i + 4:].split("\t")
    c.model = None
    return c


def model_cmd(c):
    imp = c.impl
    if len(imp) >= 4:
        return "\t".join(["css", c.opts, c.tree, c.css, c.cat, imp[0], imp[3]])
    return "\t".join(["css", c.opts, c.tree, c.css, c.cat])


def opts_json(sexp):
    """(opts pre sign ratio imp host his) -> dict usable by `cssone`."""
    t = split_toks(sexp)

    def o(x):
        return None if x == "_" else unq(x[1:-1])
    return {"class_prefix": o(t[1]), "class_prefix_sign": o(t[2]), "rpx_ratio_bits": int(t[3]),
            "import_sign": o(t[4]), "convert_host": t[5] == "1", "host_is": o(t[6])}


def run_one(cases_json):
    """cases_json: list of {"css":..., "opts": {...}} -> list[Case] with model sections filled in."""
    data = "\n".join(json.dumps(c) for c in cases_json) + "\n"
    p = harness_run(["cssone"], input_bytes=data.encode("utf8"))
    cs = [parse_line(l) for l in p.stdout.decode("utf8").split("\n") if l and not l.startswith("#")]
    ms = pmodel([model_cmd(c) for c in cs])
    for c, m in zip(cs, ms):
        c.model = m.split("\t")
    return cs


# ------------------------------------------------------------------ per-case analysis

def f32_of_bits(bits):
    import struct
    return Fraction(struct.unpack(">f", struct.pack(">I", bits))[0])


def dec_fraction(txt):
    """exact value of a CSS number spelling"""
    m = re.match(r'^([+-]?)(\d*)(?:\.(\d+))?(?:[eE]([+-]?\d+))?$', txt)
    if not m or (m.group(2) == "" and m.group(3) is None):
        return None
    sign, ip, fp, ex = m.groups()
    if (ex and abs(int(ex)) > 60) or len(ip) > 60:
        return "huge"
    v = Fraction(int(ip or "0"))
    if fp:
        v += Fraction(int(fp), 10 ** len(fp))
    if ex:
        v *= Fraction(10) ** int(ex)
    return -v if sign == "-" else v


def round_sig6(v):
    """v rounded to 6 significant decimal digits (half up on the magnitude), exact"""
    if v == 0:
        return v
    a = abs(v)
    e = 0
    while a >= 1000000:
        a /= 10
        e += 1
    while a < 100000:
        a *= 10
        e -= 1
    q = (a * 2 + 1) // 2
    r = Fraction(q) * Fraction(10) ** e
    return -r if v < 0 else r


EPS = Fraction(1, 2 ** 23)
F32_MAX = Fraction(2 ** 128 - 2 ** 104)
F32_MIN_NORMAL = Fraction(1, 2 ** 126)

PROPS = ["C08", "C09", "C10", "C17", "C18", "C19"]


def is_int_spelling(txt):
    return re.match(r'^[+-]?\d+$', txt) is not None


def numeric_toks(toks):
    return [t for t in toks if tok_kind(t) in ("n", "pc", "dim")]


def c10_case(c, agg):
    """numeric tokens of the implementation output against the exact source values"""
    i, m = c.impl, c.model
    exp = split_toks(m[M_NUMS])
    out = numeric_toks(split_toks(i[0])) + numeric_toks(split_toks(i[3]))
    if len(exp) != len(out) or [tok_kind(t) for t in exp] != [tok_kind(t) for t in out]:
        agg["c10_unaligned"] += 1
        # the numeric tokens of the output are not the source's, kind by kind (a dimension that became a plain
        # number, a dropped or an added numeric token): reported unless the sheet is in a known re-lexing class
        j = 0
        while j < min(len(exp), len(out)) and tok_kind(exp[j]) == tok_kind(out[j]):
            j += 1
        return [("numeric token #%d changed kind or the numeric tokens do not line up" % j,
                 tok_strings(exp[j])[0] if j < len(exp) else "<end>", "",
                 "".join(tok_strings(out[j])[:2]) if j < len(out) else "<end>", False)]
    ratio = f32_of_bits(int(split_toks(c.opts)[3]))
    bad = []
    for e, o in zip(exp, out):
        es, os_ = tok_strings(e), tok_strings(o)
        src, otxt = es[0], os_[0]
        k = tok_kind(e)
        is_rpx = k == "dim" and src.endswith("rpx") and es[1] == "vw"
        if is_rpx:
            src = src[:-3]
        if src == "":
            continue
        sv, ov = dec_fraction(src), dec_fraction(otxt)
        if sv is None:
            continue
        if sv == "huge" or ov == "huge":
            agg["c10_out_of_f32_range"] += 1
            continue
        agg["c10_tokens"] += 1
        if k == "dim" and not is_rpx:
            # unit untouched (case-insensitively: the serializer may re-spell E as e)
            if es[1].lower() != os_[1].lower():
                bad.append(("unit changed", src, es[1], otxt + os_[1], False))
                continue
        if is_rpx:
            agg["c10_rpx"] += 1
            if ratio <= 0:
                continue
            want = sv * 100 / ratio
            tol = 2 * EPS
            must_int = False
            if os_[1] != "vw":
                bad.append(("rpx not converted to vw", src + "rpx", "", otxt + os_[1], False))
                continue
        else:
            want = sv
            tol = EPS
            must_int = is_int_spelling(src) and abs(sv) <= 2147483647
        if abs(want) > F32_MAX or (want != 0 and abs(want) < F32_MIN_NORMAL) or \
                (is_rpx and abs(sv * 100) > F32_MAX):
            agg["c10_out_of_f32_range"] += 1
            continue
        if ov is None:
            bad.append(("unparsable output number", src, "", otxt, False))
            continue
        if must_int:
            agg["c10_ints"] += 1
            ok = ov == want
        else:
            ok = abs(ov - want) <= tol * abs(want)
        # sign: a source token with an explicit '+' keeps it (has_sign)
        if ok:
            continue
        # known class D16: the value cannot be written with 6 significant digits
        r6 = round_sig6(want)
        in_known = (r6 != want) if must_int else (abs(r6 - want) > tol * abs(want))
        bad.append(("integer changed" if must_int else "value off by more than f32 rounding",
                    src + ("rpx" if is_rpx else ""), str(float(want)), otxt, in_known))
    return bad


_POS_RE = re.compile(r'\((?:i|at|h|idh|s|u|d|n|pc|dim|w|c|col|semi|com|inc|dash|pre|suf|sub|cdo|cdc|bu|bs|cp|cs|cc|F|P|S|C) (\d+) (\d+)[ )]')
_IMPORT_NEXT_RE = re.compile(r'\(at \d+ \d+ "(?i:import)"\)(?: \((\w+) (\d+) (\d+))?')
CLOSER_OF = {"P": "cp", "S": "cs", "C": "cc"}


def shape(t):
    k = tok_kind(t)
    if k in ("n", "pc"):
        return k
    if k == "dim":
        return "dim " + tok_strings(t)[1].lower()
    return t


def c19_case(c, agg):
    """direct check of the source-map entries of the implementation; returns (bad, known)"""
    i = c.impl
    o = opts_json(c.opts)
    bad, known = [], []
    tree_end = re.match(r'^\(tree (\d+) (\d+)', c.tree).groups()
    import_starts = set()
    for mm in _IMPORT_NEXT_RE.finditer(c.tree):
        if mm.group(2) is not None:
            import_starts.add((int(mm.group(2)), int(mm.group(3))))
        else:
            import_starts.add((int(tree_end[0]), int(tree_end[1])))
    for which, (ms, cs, mt, ts) in enumerate(((i[2], i[7], i[9], i[0]), (i[5], i[8], i[10], i[3]))):
        if ms.startswith("(BROKEN"):
            bad.append("source map does not survive its JSON serialisation / lost its source")
            continue
        ents = split_toks(ms)
        flat = split_toks(mt)
        if len(flat) != 3 * len(ents):
            raise Infra("map sections misaligned")
        infos = [flat[3 * k:3 * k + 3] for k in range(len(ents))]
        cols = set()
        for x in cs.split(" "):
            if x:
                l, cc_ = x.split(":")
                if l == "0":
                    cols.add(int(cc_))
        prev = -1
        entry_cols = set()
        for e, inf in zip(ents, infos):
            f = split_toks(e)
            dl, dc, sl, sc = int(f[0]), int(f[1]), int(f[2]), int(f[3])
            name = unq(f[4][1:-1]) if len(f) > 4 else None
            agg["c19_entries"] += 1
            entry_cols.add(dc)
            if dl != 0 or dc < prev:
                bad.append("entries not in non-decreasing output order at column %d" % dc)
            prev = dc
            S, Scss, D = inf
            if D == "none" or dc not in cols:
                # a token with empty text (e.g. an empty identifier) has no column of its own
                bad.append("generated column %d is not the start of an output token" % dc)
                continue
            if S == "none":
                # position at the very end of the input (synthesised by an @import at end of file)
                if (sl, sc) in import_starts:
                    continue
                bad.append("source position %d:%d is not inside the source" % (sl, sc))
                continue
            Scss = unq(Scss[1:-1])
            sk, dk = tok_kind(S), tok_kind(D)
            ok = False
            if name is not None:
                agg["c19_named"] += 1
                if name != Scss:
                    ok = False
                elif sk == "dim" and dk == "dim":
                    ok = tok_strings(S)[1] == "rpx" and tok_strings(D)[1] == "vw"
                elif sk == "i" and dk == "i":
                    ok = o["class_prefix"] is not None and tok_strings(D)[0] == o["class_prefix"] + "--" + tok_strings(S)[0]
                elif sk == "F" and dk == "at":
                    ok = tok_strings(S)[0] == tok_strings(D)[0]
                elif sk == "i" and dk == "at":
                    # the bare `layer` keyword of an import, written as `@layer`
                    ok = tok_strings(S)[0] == tok_strings(D)[0] and tok_strings(S)[0].lower() == "layer"
            else:
                if shape(S) == shape(D):
                    ok = True
                elif D in ("cp", "cs", "cc") and (CLOSER_OF.get(S) == D or (sk == "F" and D == "cp")):
                    ok = True
                elif dk == "c" and sk == "i" and o["class_prefix_sign"] is not None and tok_strings(D)[0] == o["class_prefix_sign"]:
                    ok = True   # sign comment points at the class name that triggered it
                elif S == "C" and o["convert_host"] and (D in ("S", "cs", "com", "(d 61)") or dk in ("i", "s")):
                    ok = True   # synthesised host selector points at the rule's block
                elif sk == "F" and tok_strings(S)[0].lower() in ("layer", "supports") and D in ("P", "C", "cp", "cc"):
                    ok = True   # wrappers synthesised from an @import condition
                elif sk == "i" and tok_strings(S)[0].lower() == "layer" and D in ("C", "cc") and o["import_sign"] is not None:
                    ok = True   # block of the anonymous layer of an import
                elif (sl, sc) in import_starts and (D in ("C", "cc") or dk in ("at", "c")):
                    ok = True   # @media wrapper / placeholder point at the start of the import
            if ok:
                continue
            bad.append("entry (out col %d -> src %d:%d%s): source token %s does not correspond to output token %s" % (
                dc, sl, sc, " name=%r" % name if name is not None else "", S, D))
        if which == 0:
            # every non-whitespace token of the normal output has an entry
            tl = split_toks(ts)
            cl = [x for x in cs.split(" ") if x]
            if len(tl) == len(cl):
                for t, x in zip(tl, cl):
                    if t != "w" and x.startswith("0:") and int(x[2:]) not in entry_cols:
                        bad.append("output token %s at column %s has no source-map entry" % (t, x))
                        break
    return bad, known


def ident_seq(toks):
    return [t for t in toks if tok_kind(t) in ("i", "c")]


def analyse_all(cases, stats):
    import collections
    agg = collections.Counter()
    viol = {p: [] for p in PROPS}          # candidate violations (unshrunk), at most 8 each
    known_hits = {p: collections.Counter() for p in PROPS}
    samples = []
    drift = []
    cat_clean = collections.Counter()

    def add_v(pid, what, c, extra=None):
        agg["viol_" + pid] += 1
        if len(viol[pid]) < 8:
            d = {"what": what, "css": unq(c.css[1:-1]), "opts": opts_json(c.opts), "category": c.cat}
            if extra:
                d.update(extra)
            viol[pid].append(d)

    for idx, c in enumerate(cases):
        i, m = c.impl, c.model
        agg["cases"] += 1
        if len(i) < 11:
            agg["impl_panic"] += 1
            for pid in ("C08",):
                add_v(pid, "implementation panicked: " + "\t".join(i)[:200], c)
            continue
        if len(m) < 19:
            raise Infra("model output malformed: " + "\t".join(m)[:400])
        wf = m[M_WF] == "1"
        known = [int(x) for x in split_toks(m[M_KNOWN])]
        kn = [KNOWN_IDS.get(k, "K%d" % k) for k in known]
        text_eq = i[1] == m[M_NTEXT] and i[4] == m[M_LTEXT]
        tok_eq = i[0] == m[M_NTOK] and i[3] == m[M_LTOK]
        map_eq = i[2] == m[M_NMAP] and i[5] == m[M_LMAP]
        warn_eq = i[6] == m[M_WARN]
        conf_impl = m[M_CIN] == "1" and m[M_CIL] == "1"
        conf_model = m[M_CMN] == "1" and m[M_CML] == "1"
        o = opts_json(c.opts)
        if m[M_FUEL] != "ok":
            agg["model_out_of_fuel"] += 1
        agg["wf" if wf else "not_wf"] += 1
        if wf and not known:
            agg["wf_clean"] += 1
            cat_clean[c.cat] += 1
        if text_eq and map_eq and warn_eq:
            agg["model_exact_agree"] += 1
        if text_eq:
            agg["model_text_agree"] += 1
        elif tok_eq:
            agg["model_token_agree_only"] += 1
        else:
            agg["model_disagree"] += 1

        # ---------------- C08
        if wf:
            if not conf_impl:
                if known:
                    for k in kn:
                        known_hits["C08"][k] += 1
                else:
                    add_v("C08", "re-tokenised output does not conform to the expected token stream "
                                 "(token merged/split/dropped/reordered, or meaningful whitespace lost/inserted)", c,
                          {"impl_normal": i[0][:3000], "expected_normal": m[M_EXPN][:3000],
                           "impl_low": i[3][:1500], "expected_low": m[M_EXPL][:1500]})
            elif text_eq and not tok_eq and not known:
                add_v("C08", "the emitted token stream does not survive re-tokenisation", c,
                      {"impl_normal": i[0][:3000], "model_tokens": m[M_NTOK][:3000]})
            if not known and conf_impl != conf_model:
                agg["model_spec_verdict_differs"] += 1
        if not text_eq and not tok_eq:
            if wf and not known and conf_impl:
                agg["harmless_drift"] += 1
                if len(drift) < 5:
                    drift.append({"css": unq(c.css[1:-1]), "opts": o, "impl_normal": unq(i[1][1:-1])[:1500],
                                  "model_normal": unq(m[M_NTEXT][1:-1])[:1500], "impl_low": unq(i[4][1:-1])[:500],
                                  "model_low": unq(m[M_LTEXT][1:-1])[:500]})
            elif not wf:
                agg["malformed_disagree"] += 1
                if len(viol["C08"]) < 8 and agg["malformed_disagree"] <= 3:
                    viol.setdefault("_malformed", []).append(
                        {"css": unq(c.css[1:-1]), "opts": o, "impl": i[1][:500], "model": m[M_NTEXT][:500]})

        # ---------------- C09
        if wf:
            ei = ident_seq(split_toks(i[0])) + ["|"] + ident_seq(split_toks(i[3]))
            ee = [t.lstrip("+!") for t in ident_seq([x.lstrip("+!") for x in split_toks(m[M_EXPN])])] + ["|"] + \
                 [t.lstrip("+!") for t in ident_seq([x.lstrip("+!") for x in split_toks(m[M_EXPL])])]
            if o["class_prefix"] is not None or o["class_prefix_sign"] is not None:
                agg["c09_cases_with_prefix_or_sign"] += 1
            if o["class_prefix"] is not None:
                pre = o["class_prefix"] + "--"
                agg["c09_prefixed_idents"] += sum(1 for t in ee if tok_kind(t) == "i" and tok_strings(t)[0].startswith(pre))
            if ei != ee:
                if known:
                    for k in kn:
                        known_hits["C09"][k] += 1
                else:
                    j = 0
                    while j < min(len(ei), len(ee)) and ei[j] == ee[j]:
                        j += 1
                    add_v("C09", "identifier / sign-comment sequence differs from the expected one at #%d: got %s, expected %s" % (
                        j, ei[j] if j < len(ei) else "<end>", ee[j] if j < len(ee) else "<end>"), c)

        # ---------------- C10
        # numeric tokens are paired by order, which is sound only when the token streams conform
        # (a well-formed sheet outside every known class whose output does not conform is a C08 violation already; its
        # numeric tokens are still paired when their kinds line up, so that an unconverted rpx is reported under C10 too)
        # (class 29 leaves an rpx dimension unconverted: the token streams still line up)
        c10_on = wf and (conf_impl or not [k for k in known if k != 29])
        if not c10_on:
            agg["c10_cases_skipped_nonconforming"] += 1
        for b in (c10_case(c, agg) if c10_on else []):
            what, src, want, got, in_known = b
            if in_known:
                known_hits["C10"]["D16"] += 1
            elif 29 in known and what == "rpx not converted to vw":
                known_hits["C10"]["D29"] += 1
            elif wf and any(k in known for k in (15, 24, 28)):
                known_hits["C10"]["D15/D24 (token re-lexed)"] += 1
            else:
                add_v("C10", "%s: source %s expected %s printed %s" % (what, src, want, got), c)

        # ---------------- C17
        if wf and o["convert_host"]:
            agg["c17_cases"] += 1
            tl = split_toks(i[3])
            tn = split_toks(i[0])
            agg["c17_host_rules_moved"] += sum(1 for t in tl if t == '(i "wx-host")')
            prob = None
            if not (m[M_CIL] == "1" and m[M_CIN] == "1"):
                prob = "outputs do not conform to the expected partition"
            elif tl.count("C") != tl.count("cc") or tn.count("C") != tn.count("cc"):
                prob = "unbalanced braces in an output"
            elif [w[1:].split(" ", 1)[0] for w in split_toks(i[6])] != split_toks(m[M_EWARN]):
                prob = "warnings differ from the expected ones: got %s expected %s" % (i[6], m[M_EWARN])
            if prob:
                if known:
                    for k in kn:
                        known_hits["C17"][k] += 1
                else:
                    add_v("C17", prob, c, {"impl_normal": i[0][:2000], "impl_low": i[3][:2000],
                                           "expected_normal": m[M_EXPN][:2000], "expected_low": m[M_EXPL][:2000]})
        elif wf and not o["convert_host"]:
            if i[3] != "()" or "65539" in i[6]:
                add_v("C17", "host conversion is off but the low-priority output / host warnings are not empty", c)

        # ---------------- C18
        if wf and o["import_sign"] is not None:
            sign = o["import_sign"] + " "
            got_paths = []
            alpha_ok = True
            for t in split_toks(i[0]):
                if tok_kind(t) == "c":
                    body = tok_strings(t)[0]
                    if body.startswith(sign):
                        enc_ = body[len(sign):]
                        if re.match(r'^[A-Za-z0-9\-_.~%]*$', enc_) is None:
                            alpha_ok = False
                        try:
                            from urllib.parse import unquote_to_bytes
                            got_paths.append(unquote_to_bytes(enc_).decode("utf8"))
                        except Exception:
                            got_paths.append(None)
            want_paths = [unq(x[1:-1]) for x in split_toks(m[M_PATHS])]
            agg["c18_imports"] += len(want_paths)
            tn = split_toks(i[0])
            prob = None
            if not alpha_ok:
                prob = "placeholder contains a character outside [A-Za-z0-9-_.~%]"
            elif got_paths != want_paths:
                prob = "paths recovered from the placeholders %r differ from the imported paths %r" % (got_paths, want_paths)
            elif tn.count("C") != tn.count("cc"):
                prob = "unbalanced braces around a placeholder"
            elif m[M_CIN] != "1":
                prob = "normal output does not conform to the expected stream"
            elif [w[1:].split(" ", 1)[0] for w in split_toks(i[6])] != split_toks(m[M_EWARN]):
                prob = "warnings differ from the expected ones: got %s expected %s" % (i[6], m[M_EWARN])
            if prob:
                if known:
                    for k in kn:
                        known_hits["C18"][k] += 1
                else:
                    add_v("C18", prob, c, {"impl_normal": i[0][:2000], "expected_normal": m[M_EXPN][:2000]})

        elif wf and o["import_sign"] is None and re.search(r"@(?i:import)\b", unq(c.css[1:-1])):
            # "without an import sign, `@import` rules pass through with their meaning intact": the rule is an ordinary
            # at-rule, its tokens (and the white space that carries meaning inside its conditions) must be the expected ones
            agg["c18_passthrough_imports"] += 1
            if m[M_CIN] != "1":
                if known:
                    for k in kn:
                        known_hits["C18"][k] += 1
                else:
                    add_v("C18", "a sheet with a pass-through @import does not conform to the expected token stream (meaning of the import or of a neighbour changed)",
                          c, {"impl_normal": i[0][:2000], "expected_normal": m[M_EXPN][:2000]})

        # ---------------- C19
        if not map_eq and text_eq:
            agg["c19_model_map_disagree"] += 1
        bad19, known19 = c19_case(c, agg)
        for k in known19:
            known_hits["C19"][k] += 1
        if bad19:
            if not wf:
                agg["c19_bad_on_malformed"] += 1
            elif any(k in known for k in (15, 24, 27, 28)):
                known_hits["C19"]["D15/D24 (token re-lexed)"] += 1
            else:
                add_v("C19", bad19[0], c, {"all": bad19[:5]})
        if not map_eq and not bad19 and wf and text_eq:
            # the map differs from the model's but every entry passes the direct check: drift, no alarm
            agg["c19_map_drift_entries_still_correct"] += 1

        if idx % max(1, len(cases) // 6) == 0 and len(samples) < 6:
            samples.append({"css": unq(c.css[1:-1])[:400], "opts": o, "normal": unq(i[1][1:-1])[:400],
                            "low": unq(i[4][1:-1])[:200], "warnings": i[6], "wf": wf, "known_classes": kn})

    return {"agg": dict(agg), "viol": viol, "known_hits": {p: dict(v) for p, v in known_hits.items()},
            "samples": samples, "stats": stats, "clean_by_category": dict(cat_clean), "drift_examples": drift}


def load_run(res):
    """one harness + model run for all six properties (cached by content hash)."""
    tier, seed = res.tier, res.seed
    harness_build(False)
    modelrun_build()
    key = run_key(tier, seed)
    os.makedirs(RUNS, exist_ok=True)
    path = os.path.join(RUNS, "%s_%s_%s.pkl" % (tier, seed, key))
    with Lock("css_run"):
        if os.path.exists(path):
            try:
                with open(path, "rb") as f:
                    d = pickle.load(f)
                d["cached"] = True
                return d
            except Exception:
                pass
        t0 = time.time()
        d = None
        nchunks = 10 if tier == "thorough" else 1
        import collections
        for ch in range(nchunks):
            p = harness_run(["css", tier, seed, ch, nchunks], timeout=3000)
            stats = {}
            cases = []
            for line in p.stdout.decode("utf8").split("\n"):
                if not line:
                    continue
                if line.startswith("#stats\t"):
                    stats = json.loads(line[7:])
                    continue
                cases.append(parse_line(line))
            del p
            models = pmodel([model_cmd(c) for c in cases])
            for c, m in zip(cases, models):
                c.model = m.split("\t")
            del models
            dd = analyse_all(cases, stats)
            del cases
            d = dd if d is None else merge_runs(d, dd)
        d["timing"] = {"total_s": round(time.time() - t0, 1)}
        d["key"] = key
        for f in os.listdir(RUNS):
            if f.startswith("%s_%s_" % (tier, seed)) and f != os.path.basename(path):
                try:
                    os.remove(os.path.join(RUNS, f))
                except OSError:
                    pass
        with open(path, "wb") as f:
            pickle.dump(d, f)
        d["cached"] = False
        return d


def _merge_counts(a, b):
    for k, v in b.items():
        if isinstance(v, dict):
            a[k] = _merge_counts(a.get(k, {}), v)
        elif isinstance(v, (int, float)):
            a[k] = a.get(k, 0) + v
        else:
            a.setdefault(k, v)
    return a


def merge_runs(a, b):
    a["agg"] = _merge_counts(a["agg"], b["agg"])
    for p in b["viol"]:
        a["viol"].setdefault(p, [])
        a["viol"][p] = (a["viol"][p] + b["viol"][p])[:8]
    a["known_hits"] = _merge_counts(a["known_hits"], b["known_hits"])
    a["stats"] = _merge_counts(a["stats"], b["stats"])
    a["clean_by_category"] = _merge_counts(a["clean_by_category"], b["clean_by_category"])
    a["drift_examples"] = (a.get("drift_examples", []) + b.get("drift_examples", []))[:5]
    return a


# ------------------------------------------------------------------ check driver shared by the six modules

def evaluate(cases_json):
    """run concrete inputs through implementation + model + analysis"""
    cs = run_one(cases_json)
    return analyse_all(cs, {}), cs


def shrink(pid, css, opts, budget_rounds=14):
    """delta-debugging on the characters of the stylesheet: keep the shortest text on which the
    same property still fails outside the known classes"""
    def fails(texts):
        res = []
        cs = run_one([{"css": t, "opts": opts} for t in texts])
        for c in cs:
            d = analyse_all([c], {})
            res.append(len(d["viol"].get(pid, [])) > 0)
        return res

    cur = css
    n = 2
    rounds = 0
    while len(cur) >= 2 and rounds < budget_rounds:
        rounds += 1
        size = max(1, len(cur) // n)
        cands = []
        for i in range(0, len(cur), size):
            cands.append(cur[:i] + cur[i + size:])
        cands = [c for c in cands if c != cur][:48]
        if not cands:
            break
        try:
            r = fails(cands)
        except Infra:
            break
        hit = [c for c, f in zip(cands, r) if f]
        if hit:
            cur = min(hit, key=len)
            n = max(n - 1, 2)
        else:
            if size == 1:
                break
            n = min(len(cur), n * 2)
    return cur


def rerun_known(res, pid):
    """re-run the witnesses of the known findings of this property; print KNOWN-FINDING lines"""
    for f in known_findings().get("findings", []):
        if not isinstance(f, dict) or f.get("property") != pid:
            continue
        w = f.get("witness", {})
        d, cs = evaluate([{"css": w.get("css", ""), "opts": w.get("opts", {})}])
        hits = d["known_hits"].get(pid, {})
        still = bool(hits) or bool(d["viol"].get(pid))
        if d["viol"].get(pid):
            # the witness must stay inside its listed class; otherwise the class no longer covers it
            res.violation("witness of known finding %s is no longer inside its class %r: %s" % (
                f.get("id"), f.get("class"), d["viol"][pid][0]["what"]), {"witness": w, "finding": f.get("id")})
        elif still:
            res.known.append("%s %s [class: %s] witness %r -> %r" % (
                f.get("id"), f.get("what"), f.get("class"), w.get("css"), unq(cs[0].impl[1][1:-1]) if len(cs[0].impl) > 1 else "?"))
        else:
            res.notes.setdefault("known_findings_not_reproduced", []).append(f.get("id"))
            log("note: witness of %s no longer deviates (fixed?)" % f.get("id"))


def css_check(res, pid, theorems, relevant_counters, rule):
    ok, what = proof_phase(res, pid, theorems)
    d = load_run(res)
    agg = d["agg"]
    n_viol = 0
    for v in d["viol"].get(pid, [])[:3]:
        n_viol += 1
        small = v["css"]
        try:
            small = shrink(pid, v["css"], v["opts"])
        except Exception as e:  # shrinking is best effort
            log("shrink failed: %r" % e)
        rep = dict(v)
        rep["css_shrunk"] = small
        rep["replay_cmd"] = "echo '<json {css, opts}>' | .cache/target/debug/verif-harness cssone | modelrun"
        res.violation("%s on %r (options %s)" % (v["what"], small, json.dumps(v["opts"], ensure_ascii=False)), rep)
    # model / implementation correspondence (the tie of the theorems to the code)
    disagree = agg.get("model_disagree", 0) + agg.get("model_token_agree_only", 0)
    res.notes["correspondence"] = {
        "cases": agg.get("cases", 0), "byte_exact_agreement (text, source map, warnings)": agg.get("model_exact_agree", 0),
        "text_agreement": agg.get("model_text_agree", 0), "token_level_only": agg.get("model_token_agree_only", 0),
        "disagree": agg.get("model_disagree", 0), "harmless_drift (differs from model, conforms to spec)": agg.get("harmless_drift", 0),
        "disagree_on_malformed_input": agg.get("malformed_disagree", 0), "impl_panics": agg.get("impl_panic", 0),
        "model_out_of_fuel": agg.get("model_out_of_fuel", 0),
    }
    res.notes["correspondence"]["inputs on which model and implementation get different spec verdicts"] = \
        agg.get("model_spec_verdict_differs", 0)
    if agg.get("model_out_of_fuel", 0):
        res.violation("the model ran out of fuel on %d inputs (the fuel bound S(size) of Css.transform is wrong)" % (
            agg.get("model_out_of_fuel", 0)), {"obligation": "fuel adequacy of coq/Model/Css.v"}, no_input=True)
    if not ok:
        res.violation(what, {"obligation": "Properties/%s.v" % pid}, no_input=(n_viol == 0))
    rerun_known(res, pid)
    res.cov["evaluations"] = agg.get("cases", 0)
    res.cov["distinct_nontrivial"] = sum(agg.get(k, 0) for k in relevant_counters[:1])
    res.cov["rule"] = rule
    res.cov["samples"] = d["samples"]
    res.cov["exhaustive"] = False
    res.notes["counters"] = {k: agg.get(k, 0) for k in relevant_counters}
    res.notes["well_formed_inputs"] = agg.get("wf", 0)
    res.notes["well_formed_outside_known_classes (checked against the specification)"] = agg.get("wf_clean", 0)
    res.notes["clean_by_category"] = d.get("clean_by_category", {})
    res.notes["known_class_hits (failing inputs whose class flags include)"] = d["known_hits"].get(pid, {})
    st = d.get("stats", {})
    for k in ("token_kinds", "at_rules", "option_sets", "categories", "max_depth_hist", "features", "total_tokens"):
        if k in st:
            res.notes["input_" + k] = st[k]
    if d.get("drift_examples"):
        res.notes["drift_examples (model differs, specification holds)"] = d["drift_examples"]
        log("note: %d inputs on which the implementation differs from the model but conforms to the specification; "
            "first: %r" % (agg.get("harmless_drift", 0), d["drift_examples"][0]["css"][:200]))
    res.notes["run_cached"] = d.get("cached", False)
    res.notes["timing"] = d.get("timing", {})
    res.assumptions += [
        "cssparser 0.34 tokenizer is the oracle for both the input token tree and the re-tokenisation of outputs",
        "number printing (dtoa 1.0.9 Grisu2-f32 + dtoa-short restrict_prec) and f32 arithmetic are transliterated in "
        "coq/Model/CssNum.v and tied to the binaries only by differential testing (every numeric token of every case)",
        "class_prefix_sign / import_sign values do not contain '*/' (they are pasted raw into a comment)",
    ]
    return d
