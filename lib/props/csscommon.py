"""Shared machinery of the stylesheet-compiler checks (C08 C09 C10 C17 C18 C19).

One harness run (`verif-harness css <tier> <seed>`) + one model run serve all six properties; the
per-case analysis is cached under .cache/css_runs keyed by (tier, seed, hash of the stylesheet
crate sources in /repo, of the harness, of the Coq models and handlers, of this file), so a
change anywhere recomputes everything.  The harness itself is rebuilt from /repo on every call.
"""
import hashlib
import json
import os
import pickle
import re
import subprocess
import time
from concurrent.futures import ThreadPoolExecutor
from fractions import Fraction

from vcheck import *

SECT_I = ["Ntoks", "Ntext", "Nmap", "Ltoks", "Ltext", "Lmap", "warn", "Ncols", "Lcols"]
# model sections
M_NTOK, M_NTEXT, M_NMAP, M_LTOK, M_LTEXT, M_LMAP, M_WARN, M_FUEL, M_WF, M_KNOWN, M_CMN, M_CML, M_CIN, M_CIL, \
    M_EWARN, M_PATHS, M_EXPN, M_EXPL, M_NUMS = range(19)

KNOWN_IDS = {13: "D13", 14: "D14", 15: "D15", 17: "D17", 23: "D23", 24: "D24", 25: "D25", 26: "D26"}

RUNS = os.path.join(CACHE, "css_runs")


def _src_files():
    fs = []
    d = os.path.join(REPO, "glass-easel-stylesheet-compiler", "src")
    for f in sorted(os.listdir(d)):
        fs.append(os.path.join(d, f))
    fs.append(os.path.join(REPO, "glass-easel-stylesheet-compiler", "Cargo.toml"))
    fs.append(os.path.join(REPO, "Cargo.lock"))
    for f in ("css.rs", "util.rs"):
        fs.append(os.path.join(HARNESS, "src", f))
    fs.append(os.path.join(HARNESS, "Cargo.toml"))
    for f in sorted(os.listdir(os.path.join(COQ, "Model"))):
        if f.startswith("Css") and f.endswith(".v") or f == "Str.v":
            fs.append(os.path.join(COQ, "Model", f))
    fs.append(os.path.join(EXTRACT_SRC, "handlers", "css.ml"))
    fs.append(os.path.join(EXTRACT_SRC, "driver_base.ml"))
    fs.append(os.path.join(EXTRACT_SRC, "driver_main.ml"))
    fs.append(os.path.abspath(__file__))
    return [f for f in fs if os.path.exists(f)]


def run_key(tier, seed):
    h = hashlib.sha256()
    h.update(("%s/%s" % (tier, seed)).encode())
    for f in _src_files():
        h.update(f.encode())
        h.update(open(f, "rb").read())
    return h.hexdigest()[:24]


def pmodel(lines, nproc=16):
    """modelrun over `lines`, split over processes (the extracted model is single-threaded)."""
    exe = modelrun_build()
    if not lines:
        return []
    nproc = max(1, min(nproc, len(lines) // 50 + 1))
    chunks = [lines[i::nproc] for i in range(nproc)]

    def run(ch):
        p = subprocess.run(["bash", "-c", "ulimit -s unlimited 2>/dev/null; exec %s" % exe],
                           input=("\n".join(ch) + "\n").encode("utf8"), stdout=subprocess.PIPE,
                           stderr=subprocess.PIPE, timeout=3000)
        r = p.stdout.decode("utf8").split("\n")
        if r and r[-1] == "":
            r.pop()
        if len(r) != len(ch):
            raise Infra("modelrun returned %d lines for %d cases: %s" % (len(r), len(ch), p.stderr.decode()[-500:]))
        return r

    with ThreadPoolExecutor(nproc) as ex:
        res = list(ex.map(run, chunks))
    out = [None] * len(lines)
    for i, r in enumerate(res):
        out[i::nproc] = r
    return out


# ------------------------------------------------------------------ S-expression helpers

_TOK_RE = re.compile(r'[+!]?\((?:[^()"]|"(?:[^"\\]|\\.)*")*\)|[^\s()]+')


def split_toks(s):
    """'(a (i "x") w)' -> ['a', '(i "x")', 'w'] (one level)."""
    s = s.strip()
    if s.startswith("(") and s.endswith(")"):
        s = s[1:-1]
    return _TOK_RE.findall(s)


_STR_RE = re.compile(r'"((?:[^"\\]|\\.)*)"')


def unq(s):
    """decode the quoting used by the harness / model printer."""
    out = []
    i = 0
    while i < len(s):
        c = s[i]
        if c == "\\":
            if s[i + 1] == "u":
                j = s.index("}", i)
                out.append(chr(int(s[i + 3:j], 16)))
                i = j + 1
            else:
                out.append(s[i + 1])
                i += 2
        else:
            out.append(c)
            i += 1
    return "".join(out)


def tok_strings(t):
    return [unq(x) for x in _STR_RE.findall(t)]


def tok_kind(t):
    return t[1:].split(" ", 1)[0].rstrip(")") if t.startswith("(") else t


# ------------------------------------------------------------------ one case

class Case:
    __slots__ = ("opts", "css", "cat", "impl", "model", "tree")

    def replay(self):
        return {"css": unq(self.css[1:-1]), "opts_sexp": self.opts, "category": self.cat}


def parse_line(line):
    i = line.rfind("\t=>\t")
    if i < 0:
        raise Infra("bad harness line: " + line[:200])
    f = line[:i].split("\t")
    c = Case()
    c.opts, c.tree, c.css, c.cat = f[1], f[2], f[3], f[4] if len(f) > 4 else ""
    c.impl = line[i + 4:].split("\t")
    c.model = None
    return c


def model_cmd(c):
    imp = c.impl
    if len(imp) >= 4:
        return "\t".join(["css", c.opts, c.tree, c.css, c.cat, imp[0], imp[3]])
    return "\t".join(["css", c.opts, c.tree, c.css, c.cat])


def opts_json(sexp):
    """(opts pre sign ratio imp host his) -> dict usable by `cssone`."""
    t = split_toks(sexp)

    def o(x):
        return None if x == "_" else unq(x[1:-1])
    return {"class_prefix": o(t[1]), "class_prefix_sign": o(t[2]), "rpx_ratio_bits": int(t[3]),
            "import_sign": o(t[4]), "convert_host": t[5] == "1", "host_is": o(t[6])}


def run_one(cases_json):
    """cases_json: list of {"css":..., "opts": {...}} -> list[Case] with model sections filled in."""
    data = "\n".join(json.dumps(c) for c in cases_json) + "\n"
    p = harness_run(["cssone"], input_bytes=data.encode("utf8"))
    cs = [parse_line(l) for l in p.stdout.decode("utf8").split("\n") if l and not l.startswith("#")]
    ms = pmodel([model_cmd(c) for c in cs])
    for c, m in zip(cs, ms):
        c.model = m.split("\t")
    return cs


# ------------------------------------------------------------------ per-case analysis

def f32_ratio(bits):
    import struct
    return Fraction(struct.unpack(">f", struct.pack(">I", bits))[0])


def dec_fraction(txt):
    """exact value of a CSS number spelling"""
    m = re.match(r'^([+-]?)(\d*)(?:\.(\d+))?(?:[eE]([+-]?\d+))?$', txt)
    if not m or (m.group(2) == "" and m.group(3) is None):
        return None
    sign, ip, fp, ex = m.groups()
    v = Fraction(int(ip or "0"))
    if fp:
        v += Fraction(int(fp), 10 ** len(fp))
    if ex:
        v *= Fraction(10) ** int(ex)
    return -v if sign == "-" else v


def round_sig6(v):
    """v rounded to 6 significant decimal digits (half up on the magnitude), exact"""
    if v == 0:
        return v
    a = abs(v)
    e = 0
    while a >= 1000000:
        a /= 10
        e += 1
    while a < 100000:
        a *= 10
        e -= 1
    q = (a * 2 + 1) // 2
    r = Fraction(q) * Fraction(10) ** e
    return -r if v < 0 else r


EPS = Fraction(1, 2 ** 23)


def analyse(c):
    """-> small dict of verdicts for all six properties (everything else is dropped)."""
    i, m = c.impl, c.model
    r = {"cat": c.cat, "panic": False}
    if len(i) < 7:
        r["panic"] = True
        r["impl_raw"] = "\t".join(i)[:300]
        return r
    if len(m) < 19:
        raise Infra("model output malformed: " + "\t".join(m)[:400])
    r["wf"] = m[M_WF] == "1"
    r["known"] = [int(x) for x in split_toks(m[M_KNOWN])]
    r["fuel_ok"] = m[M_FUEL] == "ok"
    r["text_eq"] = i[1] == m[M_NTEXT] and i[4] == m[M_LTEXT]
    r["tok_eq"] = i[0] == m[M_NTOK] and i[3] == m[M_LTOK]
    r["map_eq"] = i[2] == m[M_NMAP] and i[5] == m[M_LMAP]
    r["warn_eq"] = i[6] == m[M_WARN]
    r["conf_model"] = m[M_CMN] == "1" and m[M_CML] == "1"
    r["conf_impl"] = m[M_CIN] == "1" and m[M_CIL] == "1"
    wk = [w[1:].split(" ", 1)[0] for w in split_toks(i[6])]
    r["warn_kinds_ok"] = wk == split_toks(m[M_EWARN])
    return r


def load_run(res):
    """returns (cases summaries list, stats dict, timing dict). Uses the cache when valid."""
    tier, seed = res.tier, res.seed
    harness_build(False)
    modelrun_build()
    key = run_key(tier, seed)
    os.makedirs(RUNS, exist_ok=True)
    path = os.path.join(RUNS, "%s_%s_%s.pkl" % (tier, seed, key))
    with Lock("css_run"):
        if os.path.exists(path):
            try:
                with open(path, "rb") as f:
                    d = pickle.load(f)
                d["cached"] = True
                return d
            except Exception:
                pass
        t0 = time.time()
        p = harness_run(["css", tier, seed], timeout=3000)
        t1 = time.time()
        stats = {}
        cases = []
        for line in p.stdout.decode("utf8").split("\n"):
            if not line:
                continue
            if line.startswith("#stats\t"):
                stats = json.loads(line[7:])
                continue
            cases.append(parse_line(line))
        del p
        models = pmodel([model_cmd(c) for c in cases])
        t2 = time.time()
        for c, m in zip(cases, models):
            c.model = m.split("\t")
        del models
        d = full_analysis(cases, stats)
        d["timing"] = {"harness_s": round(t1 - t0, 1), "model_s": round(t2 - t1, 1), "analysis_s": round(time.time() - t2, 1)}
        d["key"] = key
        # drop stale runs of the same tier/seed
        for f in os.listdir(RUNS):
            if f.startswith("%s_%s_" % (tier, seed)) and f != os.path.basename(path):
                try:
                    os.remove(os.path.join(RUNS, f))
                except OSError:
                    pass
        with open(path, "wb") as f:
            pickle.dump(d, f)
        d["cached"] = False
        return d


def full_analysis(cases, stats):
    """Everything the six property modules need, in one pass; failing cases keep their inputs."""
    from props import cssanalysis
    return cssanalysis.analyse_all(cases, stats)
