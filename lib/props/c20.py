"""C20 — compilation is a deterministic function of the set of inputs."""
import subprocess
from vcheck import *

MANIFEST = {
    "id": "C20",
    "text": "Coq theorems: emission = map render (sort_by_key (iteration order of the map)); for ANY two HashMap iteration orders "
            "(arbitrary permutations) and ANY two insertion orders of the same distinctly-named files the emitted item list is "
            "identical (uniqueness of strictly sorted permutations); emission in raw iteration order is refuted. Tie: the observed "
            "order of G[..] assignments equals the model's sorted order; every insertion permutation (all for k<=4 files, sampled "
            "for k<=6), import_group vs direct insertion, and >= 8 fresh processes (fresh hash seeds) must give byte-identical "
            "artefacts, also when the process compiled other groups before (three compilation orders of the same groups across the "
            "processes) and for files with several imports of files of the group; stylesheets are transformed twice per process and "
            "across processes.",
    "note": "'Every process' is sampled (8 quick / 24 thorough fresh processes); the theorem replaces it by 'every iteration order'. "
            "The model covers the emission order of trees, scripts and binding-map fields; the text of each item is produced by "
            "deterministic code paths (no other HashMap is iterated when emitting).",
    "technique": "Coq proof (sorted permutations are unique) + model/implementation order correspondence + multi-process byte comparison",
}

THEOREMS = ["C20_emit_iteration_order_independent", "C20_emit_insertion_order_independent", "C20_unsorted_emission_refuted", "C20_import_group_as_direct_add"]


def run(res):
    ok, what = proof_phase(res, "C20", THEOREMS)
    exe = harness_build()
    n_proc = 24 if res.tier == "thorough" else 8
    # every process compiles the same groups; two thirds of them in another order (reversed / script-less groups first): what a
    # group emits must not depend on what the process compiled before it
    procs = [subprocess.Popen([exe, "determinism", res.tier, str(res.seed), str(i % 3)], stdout=subprocess.PIPE, stderr=subprocess.PIPE)
             for i in range(n_proc)]
    outs = []
    for p in procs:
        o, e = p.communicate(timeout=3000)
        if p.returncode != 0:
            raise_impl_panic(["determinism", res.tier, res.seed], p.returncode, e)
            raise Infra("determinism harness failed: " + e.decode("utf8", "replace")[-2000:])
        outs.append(o.decode("utf8").split("\n"))
    found = False
    ref = outs[0]
    n_groups = n_perms = 0
    samples = []
    for line in ref:
        if line.startswith("GROUP"):
            n_groups += 1
            f = dict(x.split("=", 1) for x in line.split(" ")[2:7] if "=" in x)
            n_perms += int(f.get("perms", "0"))
            if f.get("perm_diffs") != "0":
                found = True
                res.violation("emitted artefacts depend on the insertion order: " + line[:300], {"line": line, "seed": res.seed})
            if f.get("import_equal") != "true":
                found = True
                res.violation("import_group differs from adding the files directly: " + line[:300], {"line": line, "seed": res.seed})
            if len(samples) < 3:
                samples.append(line[:200])
        if line.startswith("CSS") and "same_in_process=true" not in line:
            found = True
            res.violation("stylesheet output differs between two runs in one process: " + line, {"line": line})
    for k, o in enumerate(outs[1:]):
        for a, b in zip(ref, o):
            if a != b:
                found = True
                res.violation("output differs between two processes (fresh hash seeds; process %d compiles the groups in order #%d): "
                              "process 0: %s | process %d: %s" % (k + 1, (k + 1) % 3, a[:300], k + 1, b[:300]),
                              {"process0": a, "other": b, "seed": res.seed, "compilation_order_of_other": (k + 1) % 3})
                break
    cases = split_cases("\n".join(l for l in ref if l.startswith("sort_keys")))
    model = modelrun([c[0] for c in cases])
    for (c, i), m in zip(cases, model):
        if i != m:
            found = True
            res.violation("emission order of templates is not the model's sorted order: observed %s, model %s" % (
                [dec(x) for x in i.split(";")], [dec(x) for x in m.split(";")]), {"paths": c, "impl": i, "model": m})
    if not ok:
        res.violation(what, {"obligation": "Properties/C20.v"}, no_input=not found)
    res.cov["evaluations"] = n_perms * n_proc
    res.cov["distinct_nontrivial"] = n_groups
    res.cov["rule"] = ("groups of 2..6 generated files with several data fields and 2-3 scripts; all insertion permutations for <= 4 "
                       "files, 14 sampled otherwise; every artefact kind; %d fresh processes; distinct_nontrivial = groups (each has "
                       ">= 2 files and >= 2 mapped fields)" % n_proc)
    res.cov["samples"] = samples
    res.notes.update({"processes": n_proc, "groups": n_groups, "insertion_orders": n_perms})
