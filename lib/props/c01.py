"""C01 — both compilers are total: no panic, abort, hang or runaway allocation."""
import json
import math
import os
import resource
import subprocess
from vcheck import *

MANIFEST = {
    "id": "C01",
    "text": "Coq: character-level model of the number scanner with every unwrap()/unreachable!() as an explicit Panic outcome "
            "(theorem: unreachable for every input; the pre-fix scanner is refuted by `0xg`), and of the attribute recovery loops "
            "(theorem: terminates within |s|+1 iterations with at most |s| diagnostics for every progress-making attribute parser; "
            "the pre-fix loop provably diverges on U+3000). Tie: scanner model = implementation on generated literals of every radix "
            "and magnitude. The property as a whole (all APIs, all inputs) is decided by execution of every API in an isolated "
            "process (timeout, address-space limit, panic capture) on generated, mutated and adversarial inputs (every White_Space "
            "character in every tag position, nesting up to 64, malformed CSS) plus a growth-exponent check on size-scaled families.",
    "note": "Partial: only the scanner and the loop skeleton are proved; a model cannot exhibit stack depth, allocator behaviour or "
            "wall-clock time, and the char-level tag parser is not modelled. Polynomial time is measured (exponent <= 2.5), not proved. "
            "Known finding KF-C01-1 (thousands of bindings in ONE text/attribute value overflow the stack) is reported, not repaired.",
    "technique": "Coq proof (scanner totality, loop termination) + model/implementation correspondence + isolated execution with time/memory limits",
}

THEOREMS = ["C01_parse_number_total", "C01_legacy_hex_panics", "C01_attr_loop_terminates", "C01_legacy_attr_loop_diverges", "C01_text_decoder_progress",
            "C01_value_parser_terminates", "C01_expression_parser_never_moves_backwards",
            "C01_expression_parser_fuel_independent"]


def _canon(x):
    if x.startswith("I"):
        return ("int", int(x[1:]))
    if x.startswith("F"):
        return ("float", repr(float(x[1:])))
    if x.startswith("P"):
        m, d = x[1:].split(",")
        try:
            return ("float", repr(float(int(m) * (2 ** int(d)))))
        except OverflowError:
            return ("float", "inf")
    if x.startswith("D"):
        t = dec(x[1:])
        try:
            return ("float", repr(float(t)))
        except ValueError:
            return ("err", t)
    return ("other", x)


def _eq(impl, model):
    if model == "PREFIX":
        return not impl.startswith("PANIC")
    return _canon(impl) == _canon(model)


def _limits():
    resource.setrlimit(resource.RLIMIT_AS, (3 << 30, 3 << 30))


def run_isolated(exe, args, timeout):
    """returns (status, stdout, stderr) with status in ok / timeout / killed(<rc>)"""
    try:
        p = subprocess.run([exe] + args, stdout=subprocess.PIPE, stderr=subprocess.PIPE, timeout=timeout, preexec_fn=_limits)
    except subprocess.TimeoutExpired as e:
        return "timeout", (e.stdout or b"").decode("utf8", "replace"), (e.stderr or b"").decode("utf8", "replace")
    st = "ok" if p.returncode == 0 else "killed(%d)" % p.returncode
    return st, p.stdout.decode("utf8", "replace"), p.stderr.decode("utf8", "replace")


def run(res):
    ok, what = proof_phase(res, "C01", THEOREMS)
    found = 0
    # 1. number scanner: model vs implementation
    r = bulk_compare(["numlit", res.tier, res.seed], "C01", eq=_eq)
    for (c, i, m) in r["mismatches"][:5]:
        lit = dec(c.split("\t")[1])
        if i.startswith("PANIC"):
            found += 1
            res.violation("number literal %r panics: %s" % (lit, i), {"input": "<v a=\"{{ %s" % lit})
        else:
            res.violation("number scanner differs from the Coq model on %r: impl=%s model=%s" % (lit, i, m),
                          {"literal_and_tail": lit, "impl": i, "model": m}, no_input=True)
    # 1b. the expression / value parser: model (whose termination is proved) vs implementation
    import valparse
    rv = valparse.run(res.tier, res.seed, "C01")
    res.notes["value_parser_cases"] = rv["n"]
    for (c, i, m) in rv["mismatches"][:3]:
        d = valparse.describe(c)
        res.violation("the parser reads the %s value %r as %s, the Coq model of the expression / value parser says %s" % (
            d["context"], d["source"][:200], i[:300], m[:300]), dict(d, impl=i, model=m), no_input=True)
    # 2. every API on every input, isolated
    for release in ([False, True] if res.tier == "thorough" else [False]):
        exe = harness_build(release)
        start = 0
        n_ok = 0
        total = None
        slow = []
        for attempt in range(6):
            st, so, se = run_isolated(exe, ["total", res.tier, str(res.seed), str(start)], 600 if res.tier == "thorough" else 60)
            lines = so.split("\n")
            for l in lines:
                if l.startswith("OK "):
                    n_ok += 1
                    ms = int(l.rsplit("ms=", 1)[1])
                    if ms > 5000:
                        slow.append(l)
                elif l.startswith("PANIC "):
                    found += 1
                    f = l.split(" ", 4)
                    if found <= 6:
                        res.violation("%s input panics: %s" % (f[2], l.split("::", 1)[1][:200]),
                                      {"kind": f[2], "input": dec(f[3]), "profile": "release" if release else "debug"})
                elif l.startswith("DONE "):
                    total = int(l.split()[1])
            if st == "ok" and total is not None:
                break
            # the process died or hung: the last announced case is the culprit
            last = [l for l in se.split("\n") if l.startswith("CASE ")]
            if not last:
                raise Infra("isolated run failed before the first case: %s %s" % (st, se[-500:]))
            f = last[-1].split(" ", 3)
            found += 1
            res.violation("%s input makes the process %s (%s)" % (f[2], "hang (timeout)" if st == "timeout" else "abort", st),
                          {"kind": f[2], "input": dec(f[3]), "status": st, "profile": "release" if release else "debug"})
            start = int(f[1]) + 1
        for l in slow[:3]:
            found += 1
            res.violation("input takes more than 5 s: " + l, {"line": l})
        res.notes["isolated_cases_%s" % ("release" if release else "debug")] = n_ok
    # 3. growth exponents
    st, so, se = run_isolated(harness_build(False), ["scale", res.tier, str(res.seed)], 1200)
    fam = {}
    for l in so.split("\n"):
        if l.startswith("SCALE "):
            f = dict(x.split("=") for x in l.split()[2:])
            fam.setdefault(l.split()[1], []).append((int(f["bytes"]), float(f["ms"]), f["ok"] == "true"))
    if st != "ok":
        found += 1
        res.violation("size-scaled family makes the process %s: last output %s" % (st, so.split("\n")[-2:]), {"status": st, "stdout_tail": so[-500:]})
    exps = {}
    for name, pts in fam.items():
        worst = 0.0
        for (b1, t1, _), (b2, t2, _) in zip(pts, pts[1:]):
            if b2 > b1 * 2 and t1 >= 5.0:
                worst = max(worst, math.log(t2 / t1) / math.log(b2 / b1))
        exps[name] = round(worst, 2)
        if worst > 2.5:
            found += 1
            res.violation("time grows faster than a small polynomial on family %s: exponent %.2f (%s)" % (name, worst, pts),
                          {"family": name, "points": pts})
    # 3b. depth-scaled expression families (nesting up to the property's bound of 64): the emitted code stays within a constant
    # factor of the input in every recursive position of the expression grammar
    dfam = {}
    for l in so.split("\n"):
        if l.startswith("DEPTH "):
            f = dict(x.split("=") for x in l.split()[2:])
            dfam.setdefault(l.split()[1], []).append((int(f["k"]), int(f["bytes"]), int(f["out"]), float(f["ms"]), f["ok"] == "true"))
    worst_ratio = 0.0
    for name, pts in sorted(dfam.items()):
        pts.sort()
        bad = None
        for (k1, b1, o1, t1, _), (k2, b2, o2, t2, ok2) in zip(pts, pts[1:]):
            if not ok2:
                bad = "panics at nesting %d" % k2
                break
            ratio = (o2 - o1) / max(1, b2 - b1)
            worst_ratio = max(worst_ratio, ratio)
            if o2 - o1 > 400 * (b2 - b1) + 2000:
                bad = "output grows by %d bytes for %d more input bytes between nesting %d and %d (factor %.0f per byte)" % (
                    o2 - o1, b2 - b1, k1, k2, ratio)
                break
            if t2 > 2000:
                bad = "takes %.0f ms at nesting %d" % (t2, k2)
                break
        if bad is None and pts and pts[-1][0] < 62 and st == "ok":
            bad = "stopped at nesting %d (output %d bytes for %d input bytes)" % (pts[-1][0], pts[-1][2], pts[-1][1])
        if bad:
            found += 1
            if found <= 6:
                res.violation("expression family %s: code generation is not bounded by a small polynomial of the input: %s" % (name, bad),
                              {"family": name, "points (nesting, input bytes, output bytes, ms, ok)": pts})
    res.notes["depth_families"] = len(dfam)
    res.notes["depth_worst_marginal_output_bytes_per_input_byte"] = round(worst_ratio, 1)
    # 4. known finding (reported, not failed): thousands of bindings in one value overflow the stack
    kf = [k for k in known_findings()["findings"] if k.get("property") == "C01"]
    for k in kf:
        wfile = os.path.join(CACHE, "kf_c01_witness.wxml")
        open(wfile, "w").write(k["witness"]["unit"] * k["witness"]["repeat"])
        st, so, se = run_isolated(harness_build(False), ["one", "tmpl", wfile], 120)
        os.remove(wfile)
        if st != "ok":
            res.known.append("%s: %s (%s)" % (k["id"], k["what"], st))
    if not ok:
        res.violation(what, {"obligation": "Properties/C01.v"}, no_input=(found == 0))
    res.cov["evaluations"] = r["n"] + sum(v for k, v in res.notes.items() if k.startswith("isolated_cases"))
    res.cov["distinct_nontrivial"] = r["n"]
    res.cov["rule"] = ("number literals (fixed list, every letter after 0x, random digit/letter strings x 8 terminators); isolated runs of "
                       "all template APIs (dev mode, all emitters, stringify plain+mangled, source map, dependencies) and all stylesheet "
                       "option sets on generated templates, 3 mutations each, White_Space x tag positions, nesting 8/32/64, malformed CSS; "
                       "9 size-scaled families up to ~1 MB (thorough: 200k nodes); 19 depth-scaled expression families x 4 binding contexts up to "
                       "nesting 62 (output bytes per input byte bounded); distinct_nontrivial = literal cases")
    res.cov["samples"] = [{"literal": dec(c.split("\t")[1]), "impl": i} for (c, i) in r["samples"][:5]]
    res.notes.update({"growth_exponents": exps, "numlit_cases": r["n"]})
