"""C06 — incremental update is sound: marked changes are never missed."""
import json
from vcheck import *
import behave

MANIFEST = {
    "id": "C06",
    "text": "Coq: the path analysis of every expression form is part of the executable generator model (exact guard text, tied by "
            "the C03 text correspondence); theorems on the update-path-tree semantics (Z descent, coverage) and guard soundness for "
            "the access-chain fragment. Tie / search: metamorphic execution under node of generated templates: create(D0); "
            "update(D1,U1); ... must equal create(Di) after EVERY step, with U exact, coarsened and `true`; plus, for a family of "
            "small templates, ALL subsets of changed leaf paths (exhaustive).",
    "note": "The TypeScript runtime is represented by jsrt (reference protocol runtime: positional list diff for key-less lists, "
            "conservative trees for keyed lists; no components / dynamic slots). Functions in data are pure.",
    "technique": "Coq proof (update-path-tree semantics, guard soundness on the access-chain fragment) + exhaustive/ random metamorphic execution under node",
    "jsrt": True,
}

THEOREMS = []


def check_results(res, results, label):
    n_steps = 0
    n_nontrivial = set()
    found = 0
    for r in results:
        j = r["job"]
        run = r["run"]
        if j.get("max_level", 0) >= 3:
            continue
        if run.get("error"):
            # a creation-time exception in generated code for a well-formed template
            fresh_err = any(f.get("error") for f in r["fresh"])
            first = run["error"]
            if "list too long" in first:
                continue
            found += 1
            if found <= 5:
                res.violation("%s: generated code throws during create/update: %s" % (label, first[:300]),
                              {"src": j["src"], "datas": j["datas"], "trees": j["trees"], "error": first, "fresh_error": fresh_err})
            continue
        for k, fr in enumerate(r["fresh"]):
            n_steps += 1
            if fr.get("error"):
                continue
            got = behave.canon(run["trees"][k + 1])
            want = behave.canon(fr["trees"][0])
            if behave.canon(run["trees"][k]) != got:
                n_nontrivial.add((str(j["id"]), k))
            if got != want:
                found += 1
                if found <= 5:
                    res.violation(
                        "%s: after update #%d the tree differs from a fresh creation with the same data (stale value). "
                        "template=%s U=%s" % (label, k + 1, j["src"][:300], json.dumps(j["trees"][k])[:200]),
                        {"src": j["src"], "inc": j.get("inc"), "datas": j["datas"][:k + 2], "trees": j["trees"][:k + 1],
                         "after_update": run["trees"][k + 1], "fresh": fr["trees"][0]})
                break
    return n_steps, len(n_nontrivial), found


def run(res):
    ok, what = (True, "")
    if THEOREMS:
        ok, what = proof_phase(res, "C06", THEOREMS)
    import exprtext
    rt = exprtext.run(res.tier, res.seed, "C06")
    n_guard = 0
    for (c, i, m) in rt["mismatches"]:
        if c.startswith("attrgen\t") and "guard" in exprtext.classify(c, i, m):
            n_guard += 1
            if n_guard <= 3:
                res.violation("update guard text differs from the Coq model of the path analysis: impl=%s model guard=%s" % (
                    dec(i.split("|")[0])[:300], dec(m.split("|")[4])[:200]), {"case": c.split("\t"), "impl": i, "model": m}, no_input=True)
    results = behave.get_results(res.tier, res.seed, "behave")
    subsets = behave.get_results(res.tier, res.seed, "behave_subsets")
    matrix = behave.get_results(res.tier, res.seed, "behave_matrix")
    n1, nt1, f1 = check_results(res, results, "random history")
    n2, nt2, f2 = check_results(res, subsets, "exhaustive leaf subsets")
    n3, nt3, f3 = check_results(res, matrix, "expression shape x binding context matrix")
    if not ok:
        res.violation(what, {"obligation": "Properties/C06.v"}, no_input=(f1 + f2 + f3 == 0))
    if f1 + f2 + f3 > 0:
        for v in res.violations:
            v["no_input"] = False
    res.notes["guard_text_cases"] = rt["n"]
    res.notes["matrix_steps"] = n3
    res.cov["evaluations"] = n1 + n2 + n3 + rt["n"]
    res.cov["distinct_nontrivial"] = nt1 + nt2 + nt3
    res.cov["rule"] = ("each evaluation = one update step compared with a fresh creation; random: generated templates (all element "
                       "kinds) x histories of 1-6 steps x U in {exact, coarsened to 1 or 2 segments, true}; exhaustive: 9 small "
                       "templates x all 63 non-empty subsets of 6 leaf paths x 2-3 variants; matrix: 27 expression shapes (temporaries, "
                       "non-l-value lists) x every binding context (attribute families, text, if, for, template data, slot) x 2 data "
                       "configurations x 18 single-path steps with exact U; non-trivial = the update changed the tree")
    res.cov["samples"] = [{"src": r["job"]["src"][:200], "U": r["job"]["trees"][:1]} for r in results[:3]] + \
                         [{"src": r["job"]["src"][:120], "U": r["job"]["trees"][:1]} for r in subsets[:2]]
    res.notes.update({"random_steps": n1, "subset_steps": n2, "feature_histogram": behave.feature_histogram(results)})
