"""C06 — incremental update is sound: marked changes are never missed."""
import json
from vcheck import *
import behave

MANIFEST = {
    "id": "C06",
    "text": "Coq: the path analysis of every expression form is part of the executable generator model (exact guard text, tied by "
            "the text correspondence); Model/Upt.v gives update-path trees, coverage and the denotation of the analysed paths; "
            "C06_guard_sound: for every binding in the fragment (fields, member/index access, literals, unary/binary operators, "
            "??, conditionals; outside for/slot scopes), if U covers diff(D0,D1) and the emitted guard is false then the value is "
            "unchanged. The denotation is tied to the emitted guard TEXT by evaluating that text under node (guardden cases). "
            "Tie / search for everything else (tag protocol, lists, templates, slots, other expression forms): metamorphic execution under node of generated templates: create(D0); "
            "update(D1,U1); ... must equal create(Di) after EVERY step, with U exact, coarsened and `true`; plus, for a family of "
            "small templates, ALL subsets of changed leaf paths (exhaustive).",
    "note": "The TypeScript runtime is represented by jsrt/rt.js (reference protocol runtime written from proc_gen_wrapper.ts; no "
            "components / dynamic slots) EXCEPT the list manager: glass-easel/src/tmpl/range_list_diff.ts itself is executed, "
            "translated to JavaScript on every run by the type-erasing translator lib/tsstrip.py (trusted: erases imports, field "
            "declarations, annotations, casts, non-null assertions, one const enum; checked by node --check), behind an adapter "
            "for the child-list operations of element.ts, and the template-instance class of glass-easel/src/tmpl/index.ts, which builds "
            "the update path trees from data changes (replace / splice) and drives jsrt; steps whose runtime-built tree does not "
            "cover the data difference (splices that shift items read by index) are outside the premise and cut the history. "
            "Functions in data are pure.",
    "technique": "Coq proof (guard soundness of the path analysis on the access/operator/conditional fragment, update-path-tree coverage) + model/implementation text and denotation correspondence + exhaustive / matrix / random metamorphic execution under node",
    "jsrt": True,
}

THEOREMS = ["C06_guard_sound", "C06_guard_sound_literals", "C06_path_relates_values", "C06_covers_descends"]


def check_results(res, results, label):
    n_steps = 0
    n_nontrivial = set()
    found = 0
    for r in results:
        j = r["job"]
        run = r["run"]
        if j.get("max_level", 0) >= 3:
            continue
        if run.get("error"):
            # a creation-time exception in generated code for a well-formed template
            fresh_err = any(f.get("error") for f in r["fresh"])
            first = run["error"]
            if "list too long" in first:
                continue
            # the step that threw is the first one without a tree; when a fresh creation with the same data throws as well,
            # the exception comes from the template's own expressions on that data, not from the update
            idx = len(run.get("trees", []))
            if idx >= 1 and idx - 1 < len(r["fresh"]) and r["fresh"][idx - 1].get("error"):
                continue
            found += 1
            if found <= 5:
                res.violation("%s: generated code throws during create/update: %s" % (label, first[:300]),
                              {"src": j["src"], "datas": j["datas"], "trees": j["trees"], "error": first, "fresh_error": fresh_err})
            continue
        how = run.get("how")
        for k, fr in enumerate(r["fresh"]):
            # histories of data changes: the comparison is owed only while the trees the runtime built cover the differences
            # (a splice marks the inserted positions, not the shifted ones: plain index / length bindings are then outside
            # the premise of the property)
            if how is not None and k < len(how) and how[k] == "tree-not-covering":
                break
            n_steps += 1
            if fr.get("error"):
                continue
            got = behave.canon(run["trees"][k + 1])
            want = behave.canon(fr["trees"][0])
            if behave.canon(run["trees"][k]) != got:
                n_nontrivial.add((str(j["id"]), k))
            if got != want:
                found += 1
                if found <= 5:
                    res.violation(
                        "%s: after update #%d the tree differs from a fresh creation with the same data (stale value). "
                        "template=%s U=%s" % (label, k + 1, j["src"][:300], json.dumps(j["trees"][k])[:200]),
                        {"src": j["src"], "inc": j.get("inc"), "datas": j["datas"][:k + 2], "trees": j["trees"][:k + 1],
                         "after_update": run["trees"][k + 1], "fresh": fr["trees"][0]})
                break
    return n_steps, len(n_nontrivial), found


def guard_denotation(res):
    """the Coq denotation of the guard (Model/Upt.v, what the soundness theorem speaks about) against the guard TEXT
    evaluated by node, on expressions of the theorem's fragment x update-path trees x data"""
    p = harness_run(["guardden", res.tier, res.seed], timeout=3000)
    jobs = [json.loads(l) for l in p.stdout.decode("utf8").split("\n") if l]
    model = modelrun(["guard_den\t%s\t%s\t%s\t%s" % (j["esc"], j["sexp"], j["u_sexp"], j["data_sexp"]) for j in jobs])
    njobs = []
    idx = []
    for k, (j, m) in enumerate(zip(jobs, model)):
        if m.startswith(("ERR", "EXC")):
            raise Infra("guard_den model failed: %s on %s" % (m, j["text"]))
        if m == "SKIP":
            continue
        g, hoisted, guard = m.split("|")
        hoisted, guard = dec(hoisted), dec(guard)
        prog = ("(() => { const U = %s; const Z = function(a,b){if(a===true)return true;if(a)return a[b]};"
                "const Q = {a:function(a){for(var i=0;i<a.length;i++)if(a[i])return a},b:function(b){var a=Object.values(b);for(var i=0;i<a.length;i++)if(a[i])return b},c:function(a){var r={};for(var k in a)r[k]=a[k];return r}};"
                "%s; return !!(%s) })()") % (json.dumps(j["u"]), hoisted, guard)
        njobs.append({"op": "eval", "id": k, "expr": prog, "data": j["data"]})
        idx.append(k)
    out = node_jobs(njobs, shards=12)
    found = n = n_true = 0
    for k, o in zip(idx, out):
        j, m = jobs[k], model[k]
        if o.get("skip"):
            continue
        n += 1
        g = m.split("|")[0] == "G1"
        n_true += g
        # the text the denotation was computed for must be the text the implementation emits
        guard = dec(m.split("|")[2])
        if ("C||K||" + guard + ")") not in j["impl_body"] and ("C||K||" + guard + "?") not in j["impl_body"]:
            found += 1
            if found <= 3:
                res.violation("guard text of the model is not the text the implementation emits for {{ %s }}: model %s, implementation %s" % (
                    j["text"], guard[:200], j["impl_body"][:300]), {"expr": j["text"]}, no_input=True)
            continue
        if o.get("error") or o.get("value") not in (True, False):
            raise Infra("guard program failed under node: %s (%s)" % (o, j["text"]))
        if o["value"] != g:
            found += 1
            if found <= 3:
                res.violation("denotation of the guard differs from the guard text evaluated by node for {{ %s }} with U=%s: model %s, node %s" % (
                    j["text"], json.dumps(j["u"]), g, o["value"]), {"expr": j["text"], "U": j["u"], "data": j["data"], "guard": guard})
    return n, n_true, found


def run(res):
    ok, what = (True, "")
    if THEOREMS:
        ok, what = proof_phase(res, "C06", THEOREMS)
    import exprtext
    rt = exprtext.run(res.tier, res.seed, "C06")
    n_guard = 0
    for (c, i, m) in rt["mismatches"]:
        if c.startswith("attrgen\t") and "guard" in exprtext.classify(c, i, m):
            n_guard += 1
            if n_guard <= 3:
                res.violation("update guard text differs from the Coq model of the path analysis: impl=%s model guard=%s" % (
                    dec(i.split("|")[0])[:300], dec(m.split("|")[4])[:200]), {"case": c.split("\t"), "impl": i, "model": m}, no_input=True)
    # the list manager of the real runtime is translated from /repo's TypeScript on every run (lib/tsstrip.py)
    rld = real_list_manager()
    res.notes["range_list_diff"] = ("glass-easel/src/tmpl/range_list_diff.ts translated by lib/tsstrip.py -> %s" % os.path.basename(rld)) if rld \
        else "NOT translated"
    if not rld:
        res.violation("the type-erasing translator cannot process glass-easel/src/tmpl/range_list_diff.ts (%s): the list diff of "
                      "the real runtime is not under execution" % RLD_STATE["error"],
                      {"obligation": "translator lib/tsstrip.py on range_list_diff.ts", "error": RLD_STATE["error"]}, no_input=True)
    idx = real_template_instance()
    res.notes["template_instance"] = ("glass-easel/src/tmpl/index.ts (class GlassEaselTemplateInstance) translated -> %s" % os.path.basename(idx)) if idx \
        else "NOT translated"
    if not idx:
        res.violation("the type-erasing translator cannot process glass-easel/src/tmpl/index.ts (%s): the update path trees of the "
                      "real runtime are not under execution" % IDX_STATE["error"],
                      {"obligation": "translator lib/tsstrip.py on tmpl/index.ts", "error": IDX_STATE["error"]}, no_input=True)
    results = behave.get_results(res.tier, res.seed, "behave")
    subsets = behave.get_results(res.tier, res.seed, "behave_subsets")
    matrix = behave.get_results(res.tier, res.seed, "behave_matrix")
    nd, nd_true, fd = guard_denotation(res)
    res.notes.update({"guard_denotation_cases": nd, "guard_denotation_true": nd_true})
    n1, nt1, f1 = check_results(res, results, "random history")
    n2, nt2, f2 = check_results(res, subsets, "exhaustive leaf subsets")
    n3, nt3, f3 = check_results(res, matrix, "expression shape x binding context matrix")
    if idx:
        chg = behave.get_results(res.tier, res.seed, "behave_changes")
        n4, nt4, f4 = check_results(res, chg, "data changes (replace / splice) through the real template instance")
        how = {}
        for r in chg:
            for h in r["run"].get("how", []):
                how[h] = how.get(h, 0) + 1
        res.notes["change_histories"] = {"steps": n4, "nontrivial": nt4, "updates_by": how}
        n3, nt3, f3 = n3 + n4, nt3 + nt4, f3 + f4
    if not ok:
        res.violation(what, {"obligation": "Properties/C06.v"}, no_input=(f1 + f2 + f3 + fd == 0))
    if f1 + f2 + f3 > 0:
        for v in res.violations:
            v["no_input"] = False
    res.notes["guard_text_cases"] = rt["n"]
    res.notes["matrix_steps"] = n3
    res.cov["evaluations"] = n1 + n2 + n3 + rt["n"] + nd
    res.cov["distinct_nontrivial"] = nt1 + nt2 + nt3
    res.cov["rule"] = ("each evaluation = one update step compared with a fresh creation; random: generated templates (all element "
                       "kinds) x histories of 1-6 steps x U in {exact, coarsened to 1 or 2 segments, true}; exhaustive: 9 small "
                       "templates x all 63 non-empty subsets of 6 leaf paths x 2-3 variants; matrix: 27 expression shapes (temporaries, "
                       "non-l-value lists) x every binding context (attribute families, text, if, for, template data, slot) x 2 data "
                       "configurations x 18 single-path steps with exact U; non-trivial = the update changed the tree")
    res.cov["samples"] = [{"src": r["job"]["src"][:200], "U": r["job"]["trees"][:1]} for r in results[:3]] + \
                         [{"src": r["job"]["src"][:120], "U": r["job"]["trees"][:1]} for r in subsets[:2]]
    res.notes.update({"random_steps": n1, "subset_steps": n2, "feature_histogram": behave.feature_histogram(results)})
