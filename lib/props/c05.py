"""C05 — names in expressions resolve lexically to the innermost enclosing scope."""
import json
from vcheck import *

MANIFEST = {
    "id": "C05",
    "text": "Coq: model of convert_scopes and of the scope stack discipline of the tree analysis, with theorems: the innermost scope "
            "of a name wins, index shadows item, the resolved index names that scope, conversion commutes with every compositional "
            "semantics (same resolution wherever the identifier sits, incl. array holes / spreads / call arguments / object values), "
            "scopes never leak past a node, a wx:for list does not see its own variables. Tie: the model's analysis of the named "
            "template equals the implementation's scope indices for every binding of generated templates; behaviour: nested "
            "for / wxs scopes with colliding names and data fields named like the scope variables are executed under node and "
            "compared with a reference program that resolves names lexically.",
    "note": "Slot-value scopes at run time depend on jsrt's static stand-in for dynamic slots. The named (pre-analysis) template is "
            "recovered from the implementation's AST by slicing the source text at each scope reference's location.",
    "technique": "Coq proof (lookup lemmas, substitution theorem, mutual induction over the template tree) + analysis correspondence + node execution against a lexical reference",
    "jsrt": True,
}

THEOREMS = ["C05_lookup_innermost", "C05_lookup_other", "C05_for_index_shadows_item", "C05_lookup_scope_sound",
            "C05_convert_scopes_correct", "C05_analyse_no_leak", "C05_for_list_does_not_see_its_variables",
            "C05_hole_iterator_refuted"]


def texts_of(tree, out):
    for n in tree:
        if n["k"] == "text":
            out.append(n["text"])
        for c in n.get("ch", []):
            texts_of([c], out)
    return out


def run(res):
    ok, what = proof_phase(res, "C05", THEOREMS)
    found = 0
    r = bulk_compare(["scopes", res.tier, res.seed], "C05")
    for (c, i, m) in r["mismatches"]:
        if "DIFF" not in m:
            continue   # only the advertised fields differ: C07's business
        found += 1
        if found <= 5:
            res.violation("scope resolution differs from the Coq model (%s)" % m.split("|")[0],
                          {"template_dump": c[:4000], "impl": i, "model": m}, no_input=True)
    found_a = found
    found = 0
    import scopeval
    found, n_eval, nontrivial, depth_hist, jobs_in = scopeval.check(res)
    if not ok:
        res.violation(what, {"obligation": "Properties/C05.v"}, no_input=(found == 0))
    if found > 0:
        # a concrete failing input exists: the model-correspondence alarms are not "no input found"
        for v in res.violations:
            v["no_input"] = False
    res.cov["evaluations"] = r["n"] + n_eval
    res.cov["distinct_nontrivial"] = nontrivial
    res.cov["rule"] = ("analysis: generated templates re-analysed by the model; behaviour: 1-3 nested wx:for (default / renamed / "
                       "colliding item and index names, optional wxs module with a colliding name), list expressions over outer "
                       "scopes, a body expression over all visible names, a sibling after the loops; 3 data environments whose "
                       "fields are named like the scope variables; non-trivial = at least one loop iteration rendered")
    res.cov["samples"] = [{"src": j["src"][:250]} for j in jobs_in[:4]]
    res.notes.update({"analysis_cases": r["n"], "behaviour_evaluations": n_eval, "depth_histogram": {str(a): b for a, b in depth_hist.items()}})


def dec_list(v):
    if isinstance(v, dict) and "$a" in v:
        return v["$a"]
    return v
