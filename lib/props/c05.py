"""C05 — names in expressions resolve lexically to the innermost enclosing scope."""
import json
from vcheck import *

MANIFEST = {
    "id": "C05",
    "text": "Coq: model of convert_scopes and of the scope stack discipline of the tree analysis, with theorems: the innermost scope "
            "of a name wins, index shadows item, the resolved index names that scope, conversion commutes with every compositional "
            "semantics (same resolution wherever the identifier sits, incl. array holes / spreads / call arguments / object values), "
            "scopes never leak past a node, a wx:for list does not see its own variables. Tie: the model's analysis of the named "
            "template equals the implementation's scope indices for every binding of generated templates; behaviour: nested "
            "for / wxs scopes with colliding names and data fields named like the scope variables are executed under node and "
            "compared with a reference program that resolves names lexically.",
    "note": "Slot-value scopes at run time depend on jsrt's static stand-in for dynamic slots. The named (pre-analysis) template is "
            "recovered from the implementation's AST by slicing the source text at each scope reference's location.",
    "technique": "Coq proof (lookup lemmas, substitution theorem, mutual induction over the template tree) + analysis correspondence + node execution against a lexical reference",
    "jsrt": True,
}

THEOREMS = ["C05_lookup_innermost", "C05_lookup_other", "C05_for_index_shadows_item", "C05_lookup_scope_sound",
            "C05_convert_scopes_correct", "C05_analyse_no_leak", "C05_for_list_does_not_see_its_variables",
            "C05_hole_iterator_refuted"]


def texts_of(tree, out):
    for n in tree:
        if n["k"] == "text":
            out.append(n["text"])
        for c in n.get("ch", []):
            texts_of([c], out)
    return out


def run(res):
    ok, what = proof_phase(res, "C05", THEOREMS)
    found = 0
    r = bulk_compare(["scopes", res.tier, res.seed], "C05")
    for (c, i, m) in r["mismatches"]:
        if "DIFF" not in m:
            continue   # only the advertised fields differ: C07's business
        found += 1
        if found <= 5:
            res.violation("scope resolution differs from the Coq model (%s)" % m.split("|")[0],
                          {"template_dump": c[:4000], "impl": i, "model": m}, no_input=True)
    found_a = found
    found = 0
    p = harness_run(["scopeval", res.tier, res.seed])
    jobs_in = [json.loads(l) for l in p.stdout.decode("utf8").split("\n") if l]
    jobs = []
    for j in jobs_in:
        jobs.append({"op": "run", "id": "g", "bundle": j["bundle"], "path": "p", "slotValues": j.get("slotValues"), "steps": [{"create": d} for d in j["datas"]]})
        for d in j["datas"]:
            jobs.append({"op": "eval", "id": "r", "expr": j["ref"], "data": d})
    out = node_jobs(jobs, shards=12)
    k = 0
    n_eval = 0
    nontrivial = 0
    depth_hist = {}
    for j in jobs_in:
        g = out[k]
        refs = out[k + 1:k + 1 + len(j["datas"])]
        k += 1 + len(j["datas"])
        depth_hist[j["depth"]] = depth_hist.get(j["depth"], 0) + 1
        if j["max_level"] >= 3:
            found += 1
            res.violation("well-formed scope template rejected by the parser", {"src": j["src"]})
            continue
        for di, (d, rf) in enumerate(zip(j["datas"], refs)):
            n_eval += 1
            if rf.get("skip") or rf.get("error"):
                continue
            if g.get("error"):
                if "list too long" in g["error"]:
                    continue
                found += 1
                if found <= 6:
                    res.violation("generated code throws: %s" % g["error"][:200], {"src": j["src"], "data": d})
                break
            got = texts_of(g["trees"][di], [])
            want = dec_list(rf["value"])
            if len(want) > 2:
                nontrivial += 1
            if got != want:
                found += 1
                if found <= 6:
                    res.violation("names resolve differently from lexical scoping: template %s renders %s, lexical reference gives %s" % (
                        j["src"][:300], json.dumps(got)[:200], json.dumps(want)[:200]),
                        {"src": j["src"], "data": d, "reference_js": j["ref"], "rendered": got, "expected": want})
    if not ok:
        res.violation(what, {"obligation": "Properties/C05.v"}, no_input=(found == 0))
    if found > 0:
        # a concrete failing input exists: the model-correspondence alarms are not "no input found"
        for v in res.violations:
            v["no_input"] = False
    res.cov["evaluations"] = r["n"] + n_eval
    res.cov["distinct_nontrivial"] = nontrivial
    res.cov["rule"] = ("analysis: generated templates re-analysed by the model; behaviour: 1-3 nested wx:for (default / renamed / "
                       "colliding item and index names, optional wxs module with a colliding name), list expressions over outer "
                       "scopes, a body expression over all visible names, a sibling after the loops; 3 data environments whose "
                       "fields are named like the scope variables; non-trivial = at least one loop iteration rendered")
    res.cov["samples"] = [{"src": j["src"][:250]} for j in jobs_in[:4]]
    res.notes.update({"analysis_cases": r["n"], "behaviour_evaluations": n_eval, "depth_histogram": {str(a): b for a, b in depth_hist.items()}})


def dec_list(v):
    if isinstance(v, dict) and "$a" in v:
        return v["$a"]
    return v
