"""C17 — :host conversion partitions rules without loss."""
from props.csscommon import *

MANIFEST = {
    "id": "C17",
    "text": "Coq (for every body, position, option set, prior state): C17_host_pure_rule (a `:host{...}` rule is handed to "
            "host_emit as a whole, siblings untouched), C17_host_emit_normal_unchanged (host_emit never writes to the normal "
            "output — induction over the value walker in low-priority mode), C17_host_combined_dropped_with_warning, "
            "C17_host_off_identity, and C17_host_classification: for EVERY prelude (any tokens, any length) the two scans of the "
            "code classify the rule exactly as the specification does (host_kind_of: `:host` alone in any letter case => "
            "converted; `:host` / `:host(` anywhere else among the top-level tokens => dropped with one warning; otherwise "
            "the ordinary selector walker); with C08_tokens_preserved: conversion off => low output empty and every rule stays in "
            "order in the normal output. Each run: both re-tokenised outputs and the warnings of the real crate are "
            "compared with the specification's partition (CssSpec.rules_spec: normal = non-host rules in order, low = each "
            "pure host rule as [wx-host=..](,[is=..]) wrapped in the token chain of its enclosing at-rules, balanced "
            "braces) for sheets with :host at arbitrary at-rule depth.",
    "note": "NOT proved as one theorem: the multiset/partition statement over whole sheets (it is the executable "
            "specification checked on every generated sheet). No known class is left for this property (D14, D26, `:HOST` and `:host` later in the selector were repaired in /repo)",
    "technique": "Coq lemmas about the host branch (symbolic, all inputs) + executable-spec conformance of both outputs",
}

THEOREMS = ["C17_host_off_identity", "C17_host_pure_rule", "C17_host_emit_normal_unchanged",
            "C17_host_combined_dropped_with_warning", "C17_host_spaced_not_converted", "C17_host_comment_still_host", "C17_host_classification",
            "C17_host_rule_low_identifiers", "C17_other_rules_leave_low_output", "C17_low_exact_sheet", "C17_low_shape_exact_sheet", "C17_host_off_nothing_moved", "C17_rule_feeds_exactly_one_stream"]


def run(res):
    css_check(res, "C17", THEOREMS, ["c17_host_rules_moved", "c17_cases", "wf_clean"],
              "generated sheets with pure / combined / functional / late :host rules interleaved with ordinary rules at "
              "at-rule depth 0..4 x {convert_host, class_prefix, host_is}; non-trivial = host rules found in the "
              "low-priority output and compared with the expected partition")
