"""behavioural scope resolution shared by C05 and C03: nested wx:for / wxs scopes with colliding names against a lexical
reference evaluated under node"""
import json
from vcheck import *


def dec_list(v):
    if isinstance(v, dict) and "$a" in v:
        return v["$a"]
    return v


def texts_of(tree, out):
    for n in tree:
        if n["k"] == "text":
            out.append(n["text"])
        for c in n.get("ch", []):
            texts_of([c], out)
    return out


def q_elems(tree, out):
    for n in tree:
        if n.get("k") == "elem" and n.get("tag") == "q":
            out.append(n)
        for c in n.get("ch", []):
            q_elems([c], out)
    return out


def check(res):
    """returns (found, n_eval, nontrivial, depth_hist, jobs_in)"""
    found = 0
    p = harness_run(["scopeval", res.tier, res.seed])
    jobs_in = [json.loads(l) for l in p.stdout.decode("utf8").split("\n") if l]
    jobs = []
    for j in jobs_in:
        jobs.append({"op": "run", "id": "g", "bundle": j["bundle"], "path": "p", "slotValues": j.get("slotValues"), "steps": [{"create": d} for d in j["datas"]]})
        for d in j["datas"]:
            jobs.append({"op": "eval", "id": "r", "expr": j["ref"], "data": d})
    out = node_jobs(jobs, shards=12)
    k = 0
    n_eval = 0
    nontrivial = 0
    depth_hist = {}
    for j in jobs_in:
        g = out[k]
        refs = out[k + 1:k + 1 + len(j["datas"])]
        k += 1 + len(j["datas"])
        depth_hist[j["depth"]] = depth_hist.get(j["depth"], 0) + 1
        if j["max_level"] >= 3:
            found += 1
            res.violation("well-formed scope template rejected by the parser", {"src": j["src"]})
            continue
        for di, (d, rf) in enumerate(zip(j["datas"], refs)):
            n_eval += 1
            if rf.get("skip") or rf.get("error"):
                continue
            if g.get("error"):
                if "list too long" in g["error"]:
                    continue
                found += 1
                if found <= 6:
                    res.violation("generated code throws: %s" % g["error"][:200], {"src": j["src"], "data": d})
                break
            # the same expression sits in every attribute family of each <q>: all raw-valued positions must agree, and so
            # must all string-valued ones
            for qn in q_elems(g["trees"][di], []):
                at = dict((k, r.get("v")) for k, r in qn.get("attrs", []))
                raw = [json.dumps(at.get(k), sort_keys=True) for k in ("m:m", "d:d", "r:p", "d:h")]
                strs = [json.dumps(at.get(k), sort_keys=True) for k in ("i:", "c:", "y:")]
                if len(set(raw)) > 1 or len(set(strs)) > 1:
                    found += 1
                    if found <= 6:
                        res.violation("one expression written in several attribute families of one element is delivered with different "
                                      "values (names resolved differently per position): mark/data:/property/data- = %s, id/class/style = %s; "
                                      "template %s" % (raw, strs, j["src"][:300]), {"src": j["src"], "data": d, "attributes": at})
                    break
            got = texts_of(g["trees"][di], [])
            want = dec_list(rf["value"])
            if len(want) > 2:
                nontrivial += 1
            if got != want:
                found += 1
                if found <= 6:
                    res.violation("names resolve differently from lexical scoping: template %s renders %s, lexical reference gives %s" % (
                        j["src"][:300], json.dumps(got)[:200], json.dumps(want)[:200]),
                        {"src": j["src"], "data": d, "reference_js": j["ref"], "rendered": got, "expected": want})
    return found, n_eval, nontrivial, depth_hist, jobs_in
