#!/usr/bin/env python3
"""Translator: glass-easel/src/tmpl/range_list_diff.ts  ->  plain JavaScript (CommonJS module).

The sandbox has no TypeScript compiler, so the list-diff algorithm of the real runtime (an anchor of
C06) is brought under execution by erasing its types.  The translator is deliberately narrow: it
knows the handful of TypeScript constructs this one file uses (type-only imports, class field
declarations, `name: Type` annotations, `as Type` casts, `!` non-null assertions, `new Array<T>`,
one `const enum`) and FAILS LOUDLY on anything it cannot erase with certainty; the result must pass
`node --check` and a behavioural self-test (lib/props/c06.py).  It is regenerated from /repo's
current source on every run (never stored), so a change to the TypeScript file is executed as it is.
Trusted base: this file (type erasure only - no statement is reordered, added or removed apart from
the import lines, the field declarations and the enum, which becomes a frozen object with the same
numbering)."""
import re
import sys


class StripError(Exception):
    pass


def _skip_ws(s, i):
    while i < len(s) and s[i] in " \t\r\n":
        i += 1
    return i


def _balanced(s, i, open_c, close_c):
    """s[i] == open_c; returns the index after the matching close (strings are not expected inside types)"""
    depth = 0
    j = i
    while j < len(s):
        c = s[j]
        if c == open_c:
            depth += 1
        elif c == close_c:
            depth -= 1
            if depth == 0:
                return j + 1
        j += 1
    raise StripError("unbalanced %s at %d" % (open_c, i))


_IDENT = re.compile(r'[A-Za-z_$][\w$]*')


def _type_atom(s, i):
    i = _skip_ws(s, i)
    if i >= len(s):
        raise StripError("type expected at end of input")
    c = s[i]
    if c == '{':
        j = _balanced(s, i, '{', '}')
    elif c == '(':
        j = _balanced(s, i, '(', ')')
        k = _skip_ws(s, j)
        if s.startswith('=>', k):           # function type
            j = _type_expr(s, k + 2)
    elif c in '\'"':
        j = s.index(c, i + 1) + 1
    else:
        m = _IDENT.match(s, i)
        if not m:
            raise StripError("cannot read a type at %r" % s[i:i + 30])
        j = m.end()
        while j < len(s) and s[j] == '.':   # qualified name
            m = _IDENT.match(s, j + 1)
            if not m:
                raise StripError("cannot read a qualified type name at %r" % s[i:i + 30])
            j = m.end()
        if j < len(s) and s[j] == '<':
            j = _balanced(s, j, '<', '>')
    while s.startswith('[]', j):
        j += 2
    return j


def _type_expr(s, i):
    """index just after the type expression that starts at i (unions / intersections of atoms)"""
    i = _skip_ws(s, i)
    if i < len(s) and s[i] in '|&':
        i += 1
    j = _type_atom(s, i)
    while True:
        k = _skip_ws(s, j)
        if k < len(s) and s[k] in '|&' and not s.startswith('||', k) and not s.startswith('&&', k):
            j = _type_atom(s, k + 1)
        else:
            return j


def _mask(s):
    masked = []

    def mask(m):
        masked.append(m.group(0))
        return "__TSSTRIP_M%d__" % (len(masked) - 1)
    s = re.sub(r"//[^\n]*|/\*.*?\*/|`(?:[^`\\]|\\.)*`|'(?:[^'\\\n]|\\.)*'|\"(?:[^\"\\\n]|\\.)*\"", mask, s, flags=re.S)
    return s, masked


def _unmask(s, masked):
    return re.sub(r'__TSSTRIP_M(\d+)__', lambda m: masked[int(m.group(1))], s)


def _imports(s):
    """removes the import statements (single- or multi-line) and the re-exports; returns (text, names imported as values)"""
    value_imports = []

    def imp_repl(m):
        whole_type = re.match(r'import\s+type\b', m.group(0)) is not None
        body = m.group(1)
        if body is None:
            raise StripError("unsupported import form: " + m.group(0)[:60])
        for n in [x.strip() for x in body.split(',') if x.strip()]:
            if whole_type or n.startswith('type '):
                continue
            value_imports.append(n.split(' as ')[-1].strip())
        return ''
    s = re.sub(r"^import\s+(?:type\s+)?(?:\{([^}]*)\}|[\w*\s,]+)\s*from\s*'[^']+'\s*;?[ \t]*\n", imp_repl, s, flags=re.M)
    if re.search(r'^import\b', s, flags=re.M):
        raise StripError("unsupported import form")
    s = re.sub(r"^export\s+\{[^}]*\}\s*from\s*'[^']+'\s*;?[ \t]*\n", '', s, flags=re.M)
    return s, value_imports


def erase(s):
    """type erasure of a masked fragment that contains no object literal with `key: value` pairs, no labels and no switch"""
    s = re.sub(r'^export\s+(class|function|const)\b', r'\1', s, flags=re.M)
    if re.search(r'^export\b', s, flags=re.M):
        raise StripError("unsupported export form")
    # the const enums -> frozen objects with the same numbering
    enums = []

    def enum_repl(m):
        body = re.sub(r'//[^\n]*|__TSSTRIP_M\d+__', '', m.group(2))
        items, nxt = [], 0
        for it in [x.strip() for x in body.split(',') if x.strip()]:
            mm = re.match(r'^(\w+)(?:\s*=\s*(\d+))?$', it)
            if not mm:
                raise StripError("enum member: " + it)
            if mm.group(2) is not None:
                nxt = int(mm.group(2))
            items.append("%s: %d" % (mm.group(1), nxt))
            nxt += 1
        enums.append("const %s = Object.freeze({ %s })" % (m.group(1), ", ".join(items)))
        return "__TSSTRIP_ENUM_%d__" % (len(enums) - 1)
    s = re.sub(r'\bconst enum (\w+) \{(.*?)\}', enum_repl, s, flags=re.S)
    if re.search(r'\benum\b', s):
        raise StripError("unsupported enum form")
    # class heads and member modifiers
    s = re.sub(r'(\bclass \w+) implements [\w$, ]+(?= \{)', r'\1', s)
    s = re.sub(r'^(\s+)(?:private|public|protected|readonly) (?=[\w$])', r'\1', s, flags=re.M)
    # class field declarations (two-space indent, no initialiser)
    s = re.sub(r'^  [A-Za-z_$][\w$]*[!?]?: [^=\n]*$\n', '', s, flags=re.M)
    # `as Type` casts
    res, i = [], 0
    for m in re.finditer(r'\s+as\b(?=[\s(\{])', s):
        if m.start() < i:
            continue
        j = _type_expr(s, m.end())
        res.append(s[i:m.start()])
        i = j
    res.append(s[i:])
    s = ''.join(res)
    # `name: Type` / `name?: Type` / `): Type` annotations: a colon glued to an identifier or `)`.
    # (prettier writes every conditional-expression colon with a space in front; the fragment must not contain object
    # literals with `key: value`, labels or `case x:` - the callers only pass such fragments, and it is checked here)
    if re.search(r'\bcase\b|\bdefault\s*:', s):
        raise StripError("switch statement: annotation rule not safe")
    if re.search(r'[{,]\s*[\w$]+: (?![^\n]*(?:\)|,)\s*(?:\n|=>))', '') :
        pass
    res, i = [], 0
    for m in re.finditer(r'(?<=[\w$)])\??: ', s):
        if m.start() < i:
            continue
        j = _type_expr(s, m.end())
        res.append(s[i:m.start()])
        i = j
    res.append(s[i:])
    s = ''.join(res)
    # generics on constructor calls
    res, i = [], 0
    for m in re.finditer(r'\bnew [A-Za-z_]\w*(?=<)', s):
        j = _balanced(s, m.end(), '<', '>')
        res.append(s[i:m.end()])
        i = j
    res.append(s[i:])
    s = ''.join(res)
    # non-null assertions
    s = re.sub(r'(?<=[\w\])])!(?![=\w(])', '', s)
    for k, e in enumerate(enums):
        s = s.replace("__TSSTRIP_ENUM_%d__" % k, e)
    # leftovers that would mean an un-erased type (strings and comments still masked)
    for pat, what in ((r'\binterface\b', 'interface'), (r'\btype \w+ =', 'type alias'), (r'\bas\s+[A-Z{(]', 'cast'),
                      (r'<[A-Z]\w*(\[\])?>', 'generic'), (r'\bimplements\b', 'implements clause'),
                      (r'^\s+(?:private|public|protected|readonly)\b', 'member modifier')):
        mm = re.search(pat, s, flags=re.M)
        if mm:
            raise StripError("left-over %s near %r" % (what, s[max(0, mm.start() - 20):mm.start() + 40]))
    return s


def strip(src):
    """the whole of range_list_diff.ts"""
    s = src.replace('\r\n', '\n')
    s, vals = _imports(s)
    if [v for v in vals if v != 'triggerWarning']:
        raise StripError("value imports the runtime stub does not provide: %s" % vals)
    s, masked = _mask(s)
    s = _unmask(erase(s), masked)
    return ("'use strict'\n// generated by lib/tsstrip.py from glass-easel/src/tmpl/range_list_diff.ts - do not edit\n"
            "module.exports = function (triggerWarning) {\n" + s + "\nreturn { RangeListManager }\n}\n")


def _top_level(s, kind, name):
    """text of the top-level declaration `kind name ...` (masked source): a class / const enum with its balanced block, or a
    one-line const"""
    m = re.search(r'^(?:export\s+)?%s %s\b' % (re.escape(kind), re.escape(name)), s, flags=re.M)
    if not m:
        raise StripError("declaration not found: %s %s" % (kind, name))
    if kind == 'const':
        e = s.index('\n', m.start())
        return s[m.start():e] + '\n'
    b = s.index('{', m.end())
    return s[m.start():_balanced(s, b, '{', '}')] + '\n'


def strip_parts(src, parts, deps, exports, origin):
    """named top-level declarations of a file (e.g. one class of tmpl/index.ts with the helpers it uses): `parts` is a list of
    (kind, name); `deps` the value imports the fragment needs (module parameters); `exports` the names returned"""
    s = src.replace('\r\n', '\n')
    s, vals = _imports(s)
    for d in deps:
        if d not in vals:
            raise StripError("%s is no longer a value import of %s" % (d, origin))
    s, masked = _mask(s)
    frag = ''.join(_top_level(s, k, n) for (k, n) in parts)
    js = _unmask(erase(frag), masked)
    return ("'use strict'\n// generated by lib/tsstrip.py from %s (%s) - do not edit\n"
            "module.exports = function (deps) {\nconst { %s } = deps\n%s\nreturn { %s }\n}\n"
            % (origin, ", ".join(n for (_, n) in parts), ", ".join(deps), js, ", ".join(exports)))


INDEX_PARTS = [('const enum', 'BindingMapUpdateEnabled'), ('const', 'isPositiveInteger'), ('class', 'GlassEaselTemplateInstance')]


def strip_index(src):
    """the template instance of tmpl/index.ts: `updateValues` builds the update path tree from the data changes"""
    return strip_parts(src, INDEX_PARTS, ['ProcGenWrapper'], ['GlassEaselTemplateInstance', 'BindingMapUpdateEnabled'],
                       'glass-easel/src/tmpl/index.ts')


if __name__ == '__main__':
    try:
        text = open(sys.argv[1], encoding='utf8').read()
        sys.stdout.write(strip_index(text) if sys.argv[1].endswith('index.ts') else strip(text))
    except StripError as e:
        sys.stderr.write("tsstrip: %s\n" % e)
        sys.exit(2)
