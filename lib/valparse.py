"""Correspondence of the expression / value parser with Model/ExprParse.v (S-expression dumps; floats by value)."""
import re
from vcheck import bulk_compare, dec

_FLOAT = re.compile(r'\(float "([^"]*)"\)')


def _fl(m):
    t = m.group(1)
    try:
        if t.startswith("D"):
            v = float(t[1:])
        elif t.startswith("P"):
            a, b = t[1:].split(",")
            try:
                v = float(int(a) * (2 ** int(b)))
            except OverflowError:
                v = float("inf")
        else:
            v = float(t)
    except ValueError:
        return "(float ?%s)" % t
    return "(float %r)" % v


def canon(x):
    return _FLOAT.sub(_fl, x)


_M_EMPTY = '"the expression is empty"'
_M_END = '"missing expression end"'
_M_GARBAGE = '"unexpected character inside expression"'
_M_TAG = ('"missing end tag"', '"incomplete tag"', '"invalid end tag"', '"unexpected character"')


def _diag_eq(kinds, cls):
    ks = [k for k in kinds.split(",") if k]
    has_empty = _M_EMPTY in ks
    has_end = _M_END in ks
    inner = [k for k in ks if k not in _M_TAG and k not in (_M_EMPTY, _M_END)]
    if cls == "ok":
        return not has_empty and not has_end
    if cls == "empty":
        return has_empty
    if cls == "garbage":
        return _M_GARBAGE in ks and not has_empty and not has_end
    if cls == "missingend:1":
        return has_end and len(inner) >= 1      # the expression parser's own diagnostic plus MissingExpressionEnd
    if cls == "missingend:0":
        # the input ended inside the expression: nothing but MissingExpressionEnd (and the remarks that do not make the
        # parser fail: a bad escape in a string literal, a duplicated object key)
        return has_end and all(k in ('"illegal escape sequence"', '"duplicated name"') for k in inner)
    if cls == "inner:1":
        return len(inner) >= 1 and not has_empty and not has_end
    return False        # inner:0 is excluded by the theorem failed_binding_is_diagnosed


def eq(impl, model):
    if model in ("ok", "empty", "garbage") or model.startswith(("missingend:", "inner:")):
        return _diag_eq(impl, model)
    return canon(impl) == canon(model)


def run(tier, seed, tag):
    return bulk_compare(["valparse", tier, seed], tag, eq=eq)


def describe(c):
    f = c.split("\t")
    return {"context": f[1], "source": dec(f[3])}
