"""Correspondence of the expression / value parser with Model/ExprParse.v (S-expression dumps; floats by value)."""
import re
from vcheck import bulk_compare, dec

_FLOAT = re.compile(r'\(float "([^"]*)"\)')


def _fl(m):
    t = m.group(1)
    try:
        if t.startswith("D"):
            v = float(t[1:])
        elif t.startswith("P"):
            a, b = t[1:].split(",")
            try:
                v = float(int(a) * (2 ** int(b)))
            except OverflowError:
                v = float("inf")
        else:
            v = float(t)
    except ValueError:
        return "(float ?%s)" % t
    return "(float %r)" % v


def canon(x):
    return _FLOAT.sub(_fl, x)


def eq(impl, model):
    return canon(impl) == canon(model)


def run(tier, seed, tag):
    return bulk_compare(["valparse", tier, seed], tag, eq=eq)


def describe(c):
    f = c.split("\t")
    return {"context": f[1], "source": dec(f[3])}
