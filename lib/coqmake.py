#!/usr/bin/env python3
import sys, os
sys.path.insert(0, os.path.dirname(os.path.abspath(__file__)))
import vcheck
ok, log = vcheck.coq_build()
print(log[-int(sys.argv[1]) if len(sys.argv) > 1 else -2500:])
sys.exit(0 if ok else 1)
