#!/usr/bin/env python3
"""lib/coqmake.py [target.vo ...] : build (all or the given targets)"""
import sys, os
sys.path.insert(0, os.path.dirname(os.path.abspath(__file__)))
import vcheck
ok, log = vcheck.coq_build(sys.argv[1:] or None)
print(log[-3000:])
sys.exit(0 if ok else 1)
