"""Shared behavioural run: generated templates x data histories executed under node (jsrt).
Results are cached per (tier, seed, hash of /repo sources + harness + jsrt)."""
import hashlib
import json, zlib
import os
import pickle
from vcheck import *


def _src_hash():
    h = hashlib.sha256()
    roots = [os.path.join(REPO, "glass-easel-template-compiler", "src"), os.path.join(HARNESS, "src"),
             os.path.join(VERIF, "jsrt"), os.path.join(VERIF, "lib", "behave.py"), os.path.join(VERIF, "lib", "tsstrip.py"),
             os.path.join(REPO, "glass-easel", "src", "tmpl", "range_list_diff.ts"),
             os.path.join(REPO, "glass-easel", "src", "tmpl", "index.ts")]
    for r in roots:
        if os.path.isfile(r):
            h.update(open(r, "rb").read())
            continue
        for root, _, files in sorted(os.walk(r)):
            for f in sorted(files):
                p = os.path.join(root, f)
                h.update(p.encode())
                h.update(open(p, "rb").read())
    return h.hexdigest()[:20]


def canon(tree):
    return json.dumps(tree, sort_keys=True)


def get_results(tier, seed, kind="behave"):
    """returns list of dict(job=..., run=<node result of the history>, fresh=[node results of create(Di)])"""
    rld = real_list_manager()
    idx = real_template_instance()
    key = "%s_%s_%s_%s_%s_%s" % (kind, tier, seed, _src_hash(), os.path.basename(rld)[4:12] if rld else "norld",
                                 os.path.basename(idx)[4:12] if idx else "noidx")
    d = os.path.join(CACHE, "behave")
    os.makedirs(d, exist_ok=True)
    path = os.path.join(d, key + ".pkl")
    if os.path.exists(path):
        try:
            return pickle.load(open(path, "rb"))
        except Exception:
            pass
    p = harness_run([kind, tier, seed], timeout=3000)
    jobs_in = [json.loads(l) for l in p.stdout.decode("utf8").split("\n") if l]
    jobs = []
    index = []
    for j in jobs_in:
        steps = [{"create": j["datas"][0]}]
        if "changes" in j:
            # histories given as data changes: the real runtime's template instance builds the trees (or takes the
            # binding-map shortcut) and drives the reference runtime
            for d1, ch in zip(j["datas"][1:], j["changes"]):
                steps.append({"changes": ch, "data": d1})
            j["trees"] = j["changes"]
        else:
            for d1, u in zip(j["datas"][1:], j["trees"]):
                steps.append({"update": d1, "U": u})
        base = {"op": "run", "bundle": j["bundle"], "path": j["path"], "slotValues": j.get("slotValues")}
        if "mode" in j:
            base["mode"] = j["mode"]
        index.append(len(jobs))
        # one history in three hands the trees over in the form the runtime builds for array splices (index marks inherited
        # from a prototype array)
        jobs.append(dict(base, id="h", steps=steps, log=True, arrayTrees=(zlib.crc32(j["src"].encode("utf8")) % 3 == 0)))
        for d1 in j["datas"][1:]:
            jobs.append(dict({k: v for k, v in base.items() if k != "mode"}, id="f", steps=[{"create": d1}], log=False))
    out = node_jobs(jobs, shards=12)
    res = []
    for j, k in zip(jobs_in, index):
        n = len(j["datas"]) - 1
        res.append({"job": j, "run": out[k], "fresh": out[k + 1:k + 1 + n]})
    # keep the cache small: drop old entries of the same kind/tier
    for f in os.listdir(d):
        if f.startswith("%s_%s_" % (kind, tier)) and f != key + ".pkl":
            os.remove(os.path.join(d, f))
    pickle.dump(res, open(path, "wb"))
    return res


def feature_histogram(results):
    h = {}
    for r in results:
        for f in r["job"].get("features", []):
            h[f] = h.get(f, 0) + 1
    return h
