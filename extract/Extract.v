(* Extraction of the executable models. Only ExtrOcamlBasic directives are used
   (bool, option, list, prod, unit, sumbool map to OCaml's); N / Z / positive stay
   the extracted inductive datatypes. *)
From Coq Require Extraction ExtrOcamlBasic.
From GE Require Import Model.Str Model.Path.
Extraction Language OCaml.
Separate Extraction
  Str.str_eqb
  Path.normalize Path.resolve Path.dep_of.
