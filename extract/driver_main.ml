open Driver_base
let () =
  let buf = Buffer.create (1 lsl 20) in
  (try
     while true do
       let line = input_line stdin in
       let fields = S.split_on_char '\t' line in
       let r =
         (match fields with
          | cmd :: args ->
              (match Hashtbl.find_opt handlers cmd with
               | Some f -> (try f args with e -> "EXC " ^ Printexc.to_string e)
               | None -> "ERR unknown command " ^ cmd)
          | [] -> "ERR empty") in
       Buffer.add_string buf r; Buffer.add_char buf '\n';
       if Buffer.length buf > (1 lsl 20) then (print_string (Buffer.contents buf); Buffer.clear buf)
     done
   with End_of_file -> ());
  print_string (Buffer.contents buf)
