open Driver_base
let rec dec_of_n (n : BinNums.coq_N) : string =
  (* arbitrary-size N -> decimal string *)
  let ten = n_of_int 10 in
  let rec go n acc =
    match n with
    | BinNums.N0 -> if acc = "" then "0" else acc
    | _ -> let q = BinNat.N.div n ten and r = BinNat.N.modulo n ten in
           go q (string_of_int (int_of_n r) ^ acc) in
  go n ""
let dec_of_z (z : BinNums.coq_Z) : string =
  match z with
  | BinNums.Z0 -> "0"
  | BinNums.Zpos p -> dec_of_n (BinNums.Npos p)
  | BinNums.Zneg p -> "-" ^ dec_of_n (BinNums.Npos p)
let () =
  register "numlit" (function
    | [s; len] ->
        let (r, n) = NumLit.parse_number_fixed (dec_str s) in
        (* when the scanner stops before the end of the generated literal, the remaining characters
           decide whether the binding parses: only the scanner is modelled here *)
        let partial = int_of_n n <> int_of_string len in
        (match r with
         | NumLit.NInt z -> if partial then "PREFIX" else "I" ^ dec_of_z z
         | NumLit.NFloatPow2 (m, d, _) -> if partial then "PREFIX" else "P" ^ dec_of_n m ^ "," ^ dec_of_n d
         | NumLit.NFloatDec t -> if partial then "PREFIX" else "D" ^ enc_str t
         | NumLit.NErr | NumLit.NEnd -> "E"
         | NumLit.NPanic k -> "PANIC" ^ string_of_int (int_of_n k))
    | _ -> "ERR args")
