open Driver_base
open H_tmpl

(* values: u | n | (b 0|1) | (num "123") | (s "..") | (arr v...) | (obj ("k" v)...) | (fn "name") *)
exception Outside
let rec val_of (s : sexp) : Val.coq_val =
  match s with
  | A "u" -> Val.VUndef
  | A "n" -> Val.VNull
  | Ls [A "b"; A x] -> Val.VBool (x = "1")
  | Ls [A "num"; Q t] ->
      let str = enc_to_ocaml t in
      (try Val.VNum (z_of_dec_string str) with _ -> raise Outside)
  | Ls [A "s"; Q x] -> Val.VStr x
  | Ls (A "arr" :: l) -> Val.VArr (L.map val_of l)
  | Ls (A "obj" :: l) -> Val.VObj (L.map (function Ls [Q k; v] -> (k, val_of v) | _ -> failwith "bad obj") l)
  | Ls [A "fn"; Q n] -> Val.VFn n
  | A "nonint" -> raise Outside
  | _ -> failwith "bad value sexp"
and enc_to_ocaml (l : BinNums.coq_N list) : string =
  S.concat "" (L.map (fun c -> S.make 1 (Char.chr (int_of_n c))) l)

let json_str (l : BinNums.coq_N list) : string =
  let b = Buffer.create 16 in
  Buffer.add_char b '"';
  L.iter (fun c ->
    let i = int_of_n c in
    if i = 34 then Buffer.add_string b "\\\""
    else if i = 92 then Buffer.add_string b "\\\\"
    else if i >= 32 && i < 127 then Buffer.add_char b (Char.chr i)
    else if i < 0x10000 then Buffer.add_string b (Printf.sprintf "\\u%04x" i)
    else begin
      let v = i - 0x10000 in
      Buffer.add_string b (Printf.sprintf "\\u%04x\\u%04x" (0xd800 + (v lsr 10)) (0xdc00 + (v land 0x3ff)))
    end) l;
  Buffer.add_char b '"';
  Buffer.contents b

let rec z_str (z : BinNums.coq_Z) : string =
  enc_to_ocaml (Val.z_to_js_str z)

(* marker encoding of jsrt/rt.js *)
let rec val_json (v : Val.coq_val) : string =
  match v with
  | Val.VUndef -> "{\"$u\":1}"
  | Val.VNull -> "null"
  | Val.VBool b -> if b then "true" else "false"
  | Val.VNum z -> z_str z
  | Val.VStr s -> json_str s
  | Val.VArr l -> "{\"$a\":[" ^ S.concat "," (L.map val_json l) ^ "]}"
  | Val.VObj l -> "{\"$o\":{" ^ S.concat "," (L.map (fun (k, x) -> json_str k ^ ":" ^ val_json x) l) ^ "}}"
  | Val.VFn n -> "{\"$fn\":" ^ json_str n ^ "}"

let attr_json (a : Render.rattr) : string =
  match a with
  | Render.RAttr (key, v, flags) ->
      let extra =
        (match flags with
         | [c; m; cap; dynf] ->
             Printf.sprintf ",\"final\":%b,\"mutated\":%b,\"capture\":%b,\"isDynamic\":%b" c m cap dynf
         | _ -> "") in
      "[" ^ json_str key ^ ",{\"v\":" ^ val_json v ^ extra ^ "}]"

let rec node_json (n : Render.rnode) : string =
  match n with
  | Render.RText s -> "{\"k\":\"text\",\"text\":" ^ json_str s ^ "}"
  | Render.RElem (tag, generics, attrs, slot, svn, ch) ->
      "{\"k\":\"elem\",\"tag\":" ^ json_str tag
      ^ ",\"generics\":{" ^ S.concat "," (L.map (fun (k, v) -> json_str k ^ ":" ^ json_str v) generics) ^ "}"
      ^ (match slot with Some v -> ",\"slot\":" ^ val_json v | None -> "")
      ^ (match svn with [] -> "" | l -> ",\"svn\":[" ^ S.concat "," (L.map json_str l) ^ "]")
      ^ ",\"attrs\":[" ^ S.concat "," (L.map attr_json attrs) ^ "]"
      ^ ",\"ch\":[" ^ S.concat "," (L.map node_json ch) ^ "]}"
  | Render.RIf (key, ch) -> "{\"k\":\"if\",\"key\":" ^ val_json key ^ ",\"ch\":[" ^ S.concat "," (L.map node_json ch) ^ "]}"
  | Render.RFor items ->
      "{\"k\":\"for\",\"ch\":[" ^ S.concat "," (L.map (fun c -> "{\"k\":\"for-item\",\"ch\":[" ^ S.concat "," (L.map node_json c) ^ "]}") items) ^ "]}"
  | Render.RSlot (name, attrs, slot) ->
      "{\"k\":\"slot\",\"name\":" ^ json_str name
      ^ (match slot with Some v -> ",\"slot\":" ^ val_json v | None -> "")
      ^ ",\"attrs\":[" ^ S.concat "," (L.map attr_json attrs) ^ "]}"
  | Render.RVirtual (slot, ch) ->
      "{\"k\":\"virtual\"" ^ (match slot with Some v -> ",\"slot\":" ^ val_json v | None -> "")
      ^ ",\"ch\":[" ^ S.concat "," (L.map node_json ch) ^ "]}"

let () =
  (* render <template sexp (post-analysis)> <data sexp> <slot values sexp> *)
  register "render" (function
    | [tx; dx; sx] ->
        (try
           let t = template_of false (parse_sexp tx) in
           let d = val_of (parse_sexp dx) in
           let sv = val_of (parse_sexp sx) in
           (match Render.render_template t d sv with
            | Some l -> "[" ^ S.concat "," (L.map node_json l) ^ "]"
            | None -> "SKIP")
         with Outside -> "SKIP")
    | _ -> "ERR args")
