(* handlers for the stylesheet-compiler model: css, css_num, css_urlenc *)
open Driver_base

let str_of = function Q s -> s | A s -> dec_str s | Ls _ -> failwith "string expected"
let int_of = function A s -> int_of_string s | _ -> failwith "int expected"
let opt_str = function A "_" -> None | x -> Some (str_of x)

let pos_of l c : CssTok.pos = { CssTok.p_line = n_of_int (int_of l); CssTok.p_col = n_of_int (int_of c) }

let num_of sign iv bits : CssTok.cnum =
  { CssTok.n_sign = (int_of sign = 1);
    CssTok.n_int = (match iv with A "_" -> None | x -> Some (z_of_int (int_of x)));
    CssTok.n_bits = n_of_int (int_of bits) }

let rec node_of (s : sexp) : CssTok.node =
  match s with
  | Ls (A k :: l :: c :: rest) ->
      let p = pos_of l c in
      let leaf t = CssTok.Leaf (t, p) in
      (match k, rest with
       | "i", [x] -> leaf (CssTok.TIdent (str_of x))
       | "at", [x] -> leaf (CssTok.TAt (str_of x))
       | "h", [x] -> leaf (CssTok.THash (str_of x))
       | "idh", [x] -> leaf (CssTok.TIdHash (str_of x))
       | "s", [x] -> leaf (CssTok.TStr (str_of x))
       | "u", [x] -> leaf (CssTok.TUrl (str_of x))
       | "d", [x] -> leaf (CssTok.TDelim (n_of_int (int_of x)))
       | "n", [sg; iv; b] -> leaf (CssTok.TNum (num_of sg iv b))
       | "pc", [sg; iv; b] -> leaf (CssTok.TPct (num_of sg iv b))
       | "dim", [sg; iv; b; u] -> leaf (CssTok.TDim (num_of sg iv b, str_of u))
       | "w", [x] -> leaf (CssTok.TWs (str_of x))
       | "c", [x] -> leaf (CssTok.TComment (str_of x))
       | "col", [] -> leaf CssTok.TColon
       | "semi", [] -> leaf CssTok.TSemi
       | "com", [] -> leaf CssTok.TComma
       | "inc", [] -> leaf CssTok.TInclude
       | "dash", [] -> leaf CssTok.TDash
       | "pre", [] -> leaf CssTok.TPrefix
       | "suf", [] -> leaf CssTok.TSuffix
       | "sub", [] -> leaf CssTok.TSubstr
       | "cdo", [] -> leaf CssTok.TCDO
       | "cdc", [] -> leaf CssTok.TCDC
       | "bu", [x] -> leaf (CssTok.TBadUrl (str_of x))
       | "bs", [x] -> leaf (CssTok.TBadStr (str_of x))
       | "cp", [] -> leaf CssTok.TCloseParen
       | "cs", [] -> leaf CssTok.TCloseSquare
       | "cc", [] -> leaf CssTok.TCloseCurly
       | "F", name :: el :: ec :: body ->
           CssTok.Block (CssTok.TFunc (str_of name), p, L.map node_of body, pos_of el ec)
       | "P", el :: ec :: body -> CssTok.Block (CssTok.TParen, p, L.map node_of body, pos_of el ec)
       | "S", el :: ec :: body -> CssTok.Block (CssTok.TSquare, p, L.map node_of body, pos_of el ec)
       | "C", el :: ec :: body -> CssTok.Block (CssTok.TCurly, p, L.map node_of body, pos_of el ec)
       | _ -> failwith ("bad node " ^ k))
  | _ -> failwith "bad node"

let tree_of (s : sexp) : CssTok.node list * CssTok.pos =
  match s with
  | Ls (A "tree" :: el :: ec :: body) -> (L.map node_of body, pos_of el ec)
  | _ -> failwith "bad tree"

let opts_of (s : sexp) : Css.opts =
  match s with
  | Ls [A "opts"; pre; sign; ratio; imp; host; his] ->
      { Css.class_prefix = opt_str pre; Css.class_prefix_sign = opt_str sign;
        Css.rpx_ratio = n_of_int (int_of ratio); Css.import_sign = opt_str imp;
        Css.convert_host = (int_of host = 1); Css.host_is = opt_str his }
  | _ -> failwith "bad opts"

let tok_s (t : CssTok.tok) : string =
  match t with
  | CssTok.TIdent s -> "(i " ^ quote_str s ^ ")"
  | CssTok.TAt s -> "(at " ^ quote_str s ^ ")"
  | CssTok.THash s -> "(h " ^ quote_str s ^ ")"
  | CssTok.TIdHash s -> "(idh " ^ quote_str s ^ ")"
  | CssTok.TStr s -> "(s " ^ quote_str s ^ ")"
  | CssTok.TUrl s -> "(u " ^ quote_str s ^ ")"
  | CssTok.TDelim c -> "(d " ^ string_of_int (int_of_n c) ^ ")"
  | CssTok.TNum n -> "(n " ^ quote_str (CssTok.num_text n) ^ ")"
  | CssTok.TPct n -> "(pc " ^ quote_str (CssTok.pct_text n) ^ ")"
  | CssTok.TDim (n, u) -> "(dim " ^ quote_str (CssTok.num_text n) ^ " " ^ quote_str u ^ ")"
  | CssTok.TWs _ -> "w"
  | CssTok.TComment s -> "(c " ^ quote_str s ^ ")"
  | CssTok.TColon -> "col"
  | CssTok.TSemi -> "semi"
  | CssTok.TComma -> "com"
  | CssTok.TInclude -> "inc"
  | CssTok.TDash -> "dash"
  | CssTok.TPrefix -> "pre"
  | CssTok.TSuffix -> "suf"
  | CssTok.TSubstr -> "sub"
  | CssTok.TCDO -> "cdo"
  | CssTok.TCDC -> "cdc"
  | CssTok.TFunc s -> "(F " ^ quote_str s ^ ")"
  | CssTok.TParen -> "P"
  | CssTok.TSquare -> "S"
  | CssTok.TCurly -> "C"
  | CssTok.TBadUrl s -> "(bu " ^ quote_str s ^ ")"
  | CssTok.TBadStr s -> "(bs " ^ quote_str s ^ ")"
  | CssTok.TCloseParen -> "cp"
  | CssTok.TCloseSquare -> "cs"
  | CssTok.TCloseCurly -> "cc"

let toks_s (l : CssTok.tok list) : string = "(" ^ S.concat " " (L.map tok_s l) ^ ")"

let entry_s (e : CssOut.entry) : string =
  let base = Printf.sprintf "0 %d %d %d" (int_of_n e.CssOut.e_dst_col)
      (int_of_n e.CssOut.e_src.CssTok.p_line) (int_of_n e.CssOut.e_src.CssTok.p_col) in
  match e.CssOut.e_name with
  | None -> "(" ^ base ^ ")"
  | Some n -> "(" ^ base ^ " " ^ quote_str n ^ ")"

let map_s (l : CssOut.entry list) : string = "(" ^ S.concat " " (L.map entry_s l) ^ ")"

let warn_s (w : Css.warning) : string =
  let l = int_of_n w.Css.w_pos.CssTok.p_line and c = int_of_n w.Css.w_pos.CssTok.p_col in
  Printf.sprintf "(%d %d %d %d %d)" (int_of_n w.Css.w_kind) l c l c

let out_sections (o : CssOut.ostate) : string list =
  [ toks_s (CssOut.o_tokens o); quote_str (CssOut.o_text o); map_s (CssOut.o_map o) ]

let () =
  register "css" (function
    | opts :: tree :: _ ->
        let o = opts_of (parse_sexp opts) in
        let (nodes, endp) = tree_of (parse_sexp tree) in
        let st = Css.transform o nodes endp in
        S.concat "\t"
          (out_sections st.Css.w_normal @ out_sections st.Css.w_low @
           [ "(" ^ S.concat " " (L.map warn_s (L.rev st.Css.w_warns)) ^ ")";
             (if st.Css.w_oof then "OUT-OF-FUEL" else "ok") ])
    | _ -> "ERR args");
  (* css_num kind sign int bits -> printed text *)
  register "css_num" (function
    | [kind; sg; iv; bits] ->
        let n = num_of (A sg) (A iv) (A bits) in
        enc_str (match kind with
                 | "pc" -> CssTok.pct_text n
                 | _ -> CssTok.num_text n)
    | _ -> "ERR args");
  (* css_rpx value_bits ratio_bits -> new bits ; new int *)
  register "css_rpx" (function
    | [v; r] ->
        let nv = CssNum.rpx_new_value (n_of_int (int_of_string v)) (n_of_int (int_of_string r)) in
        string_of_int (int_of_n nv) ^ ";" ^
        (match CssNum.rpx_new_int nv with None -> "_" | Some z -> string_of_int (int_of_z z))
    | _ -> "ERR args");
  register "css_urlenc" (function
    | [s] ->
        let e = CssUrlEnc.url_encode (dec_str s) in
        enc_str e ^ ";" ^ (match CssUrlEnc.url_decode e with None -> "?" | Some d -> enc_str d)
    | _ -> "ERR args")
