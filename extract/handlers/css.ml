(* handlers for the stylesheet-compiler model: css, css_num, css_urlenc *)
open Driver_base

let str_of = function Q s -> s | A s -> dec_str s | Ls _ -> failwith "string expected"
let int_of = function A s -> int_of_string s | _ -> failwith "int expected"
let opt_str = function A "_" -> None | x -> Some (str_of x)

let pos_of l c : CssTok.pos = { CssTok.p_line = n_of_int (int_of l); CssTok.p_col = n_of_int (int_of c) }

let num_of sign iv bits src : CssTok.cnum =
  { CssTok.n_sign = (int_of sign = 1);
    CssTok.n_int = (match iv with A "_" -> None | x -> Some (z_of_int (int_of x)));
    CssTok.n_bits = n_of_int (int_of bits);
    CssTok.n_src = src }

let rec node_of (s : sexp) : CssTok.node =
  match s with
  | Ls (A k :: l :: c :: rest) ->
      let p = pos_of l c in
      let leaf t = CssTok.Leaf (t, p) in
      (match k, rest with
       | "i", [x] -> leaf (CssTok.TIdent (str_of x))
       | "at", [x] -> leaf (CssTok.TAt (str_of x))
       | "h", [x] -> leaf (CssTok.THash (str_of x))
       | "idh", [x] -> leaf (CssTok.TIdHash (str_of x))
       | "s", [x] -> leaf (CssTok.TStr (str_of x))
       | "u", [x] -> leaf (CssTok.TUrl (str_of x))
       | "d", [x] -> leaf (CssTok.TDelim (n_of_int (int_of x)))
       | "n", [sg; iv; b; src] -> leaf (CssTok.TNum (num_of sg iv b (str_of src)))
       | "pc", [sg; iv; b; src] -> leaf (CssTok.TPct (num_of sg iv b (str_of src)))
       | "dim", [sg; iv; b; src; u] -> leaf (CssTok.TDim (num_of sg iv b (str_of src), str_of u))
       | "w", [x] -> leaf (CssTok.TWs (str_of x))
       | "c", [x] -> leaf (CssTok.TComment (str_of x))
       | "col", [] -> leaf CssTok.TColon
       | "semi", [] -> leaf CssTok.TSemi
       | "com", [] -> leaf CssTok.TComma
       | "inc", [] -> leaf CssTok.TInclude
       | "dash", [] -> leaf CssTok.TDash
       | "pre", [] -> leaf CssTok.TPrefix
       | "suf", [] -> leaf CssTok.TSuffix
       | "sub", [] -> leaf CssTok.TSubstr
       | "cdo", [] -> leaf CssTok.TCDO
       | "cdc", [] -> leaf CssTok.TCDC
       | "bu", [x] -> leaf (CssTok.TBadUrl (str_of x))
       | "bs", [x] -> leaf (CssTok.TBadStr (str_of x))
       | "cp", [] -> leaf CssTok.TCloseParen
       | "cs", [] -> leaf CssTok.TCloseSquare
       | "cc", [] -> leaf CssTok.TCloseCurly
       | "F", name :: el :: ec :: cl :: body ->
           CssTok.Block (CssTok.TFunc (str_of name), p, L.map node_of body, pos_of el ec, int_of cl = 1)
       | "P", el :: ec :: cl :: body -> CssTok.Block (CssTok.TParen, p, L.map node_of body, pos_of el ec, int_of cl = 1)
       | "S", el :: ec :: cl :: body -> CssTok.Block (CssTok.TSquare, p, L.map node_of body, pos_of el ec, int_of cl = 1)
       | "C", el :: ec :: cl :: body -> CssTok.Block (CssTok.TCurly, p, L.map node_of body, pos_of el ec, int_of cl = 1)
       | _ -> failwith ("bad node " ^ k))
  | _ -> failwith "bad node"

let tree_of (s : sexp) : CssTok.node list * CssTok.pos =
  match s with
  | Ls (A "tree" :: el :: ec :: body) -> (L.map node_of body, pos_of el ec)
  | _ -> failwith "bad tree"

let opts_of (s : sexp) : Css.opts =
  match s with
  | Ls [A "opts"; pre; sign; ratio; imp; host; his] ->
      { Css.class_prefix = opt_str pre; Css.class_prefix_sign = opt_str sign;
        Css.rpx_ratio = n_of_int (int_of ratio); Css.import_sign = opt_str imp;
        Css.convert_host = (int_of host = 1); Css.host_is = opt_str his }
  | _ -> failwith "bad opts"

let tok_s (t : CssTok.tok) : string =
  match t with
  | CssTok.TIdent s -> "(i " ^ quote_str s ^ ")"
  | CssTok.TAt s -> "(at " ^ quote_str s ^ ")"
  | CssTok.THash s -> "(h " ^ quote_str s ^ ")"
  | CssTok.TIdHash s -> "(idh " ^ quote_str s ^ ")"
  | CssTok.TStr s -> "(s " ^ quote_str s ^ ")"
  | CssTok.TUrl s -> "(u " ^ quote_str s ^ ")"
  | CssTok.TDelim c -> "(d " ^ string_of_int (int_of_n c) ^ ")"
  | CssTok.TNum n -> "(n " ^ quote_str (CssTok.num_text n) ^ ")"
  | CssTok.TPct n -> "(pc " ^ quote_str (CssTok.pct_text n) ^ ")"
  | CssTok.TDim (n, u) ->
      (* cssparser prints the units "E" / "E-..." with the escape \65 (= "e"); units are
         case-insensitive, the canonical form follows the printed spelling *)
      let u' = (match u with
                | c :: rest when int_of_n c = 69 && (rest = [] || int_of_n (L.hd rest) = 45) -> n_of_int 101 :: rest
                | _ -> u) in
      "(dim " ^ quote_str (CssTok.num_text n) ^ " " ^ quote_str u' ^ ")"
  | CssTok.TWs _ -> "w"
  | CssTok.TComment s -> "(c " ^ quote_str s ^ ")"
  | CssTok.TColon -> "col"
  | CssTok.TSemi -> "semi"
  | CssTok.TComma -> "com"
  | CssTok.TInclude -> "inc"
  | CssTok.TDash -> "dash"
  | CssTok.TPrefix -> "pre"
  | CssTok.TSuffix -> "suf"
  | CssTok.TSubstr -> "sub"
  | CssTok.TCDO -> "cdo"
  | CssTok.TCDC -> "cdc"
  | CssTok.TFunc s -> "(F " ^ quote_str s ^ ")"
  | CssTok.TParen -> "P"
  | CssTok.TSquare -> "S"
  | CssTok.TCurly -> "C"
  | CssTok.TBadUrl s -> "(bu " ^ quote_str s ^ ")"
  | CssTok.TBadStr s -> "(bs " ^ quote_str s ^ ")"
  | CssTok.TCloseParen -> "cp"
  | CssTok.TCloseSquare -> "cs"
  | CssTok.TCloseCurly -> "cc"

let toks_s (l : CssTok.tok list) : string = "(" ^ S.concat " " (L.map tok_s l) ^ ")"

let entry_s (e : CssOut.entry) : string =
  let base = Printf.sprintf "0 %d %d %d" (int_of_n e.CssOut.e_dst_col)
      (int_of_n e.CssOut.e_src.CssTok.p_line) (int_of_n e.CssOut.e_src.CssTok.p_col) in
  match e.CssOut.e_name with
  | None -> "(" ^ base ^ ")"
  | Some n -> "(" ^ base ^ " " ^ quote_str n ^ ")"

let map_s (l : CssOut.entry list) : string = "(" ^ S.concat " " (L.map entry_s l) ^ ")"

let warn_s (w : Css.warning) : string =
  let l = int_of_n w.Css.w_pos.CssTok.p_line and c = int_of_n w.Css.w_pos.CssTok.p_col in
  Printf.sprintf "(%d %d %d %d %d)" (int_of_n w.Css.w_kind) l c l c

let out_sections (o : CssOut.ostate) : string list =
  [ toks_s (CssOut.o_tokens o); quote_str (CssOut.o_text o); map_s (CssOut.o_map o) ]

(* consecutive whitespace tokens re-tokenise as one *)
let rec collapse_ws (l : CssTok.tok list) : CssTok.tok list =
  match l with
  | (CssTok.TWs _ as a) :: CssTok.TWs _ :: r -> collapse_ws (a :: r)
  | x :: r -> x :: collapse_ws r
  | [] -> []

(* canonical token list (as printed by the harness) -> tokens; numeric payloads are dummies
   (CssSpec.conforms compares numeric tokens by kind and unit only) *)
let dummy_num (text : BinNums.coq_N list) : CssTok.cnum =
  { CssTok.n_sign = false; CssTok.n_int = None; CssTok.n_bits = n_of_int 0; CssTok.n_src = text }

let tok_of_canon (s : sexp) : CssTok.tok =
  match s with
  | A "w" -> CssTok.TWs [n_of_int 32]
  | A "col" -> CssTok.TColon | A "semi" -> CssTok.TSemi | A "com" -> CssTok.TComma
  | A "inc" -> CssTok.TInclude | A "dash" -> CssTok.TDash | A "pre" -> CssTok.TPrefix
  | A "suf" -> CssTok.TSuffix | A "sub" -> CssTok.TSubstr | A "cdo" -> CssTok.TCDO
  | A "cdc" -> CssTok.TCDC | A "P" -> CssTok.TParen | A "S" -> CssTok.TSquare
  | A "C" -> CssTok.TCurly | A "cp" -> CssTok.TCloseParen | A "cs" -> CssTok.TCloseSquare
  | A "cc" -> CssTok.TCloseCurly
  | Ls [A "i"; x] -> CssTok.TIdent (str_of x)
  | Ls [A "at"; x] -> CssTok.TAt (str_of x)
  | Ls [A "h"; x] -> CssTok.THash (str_of x)
  | Ls [A "idh"; x] -> CssTok.TIdHash (str_of x)
  | Ls [A "s"; x] -> CssTok.TStr (str_of x)
  | Ls [A "u"; x] -> CssTok.TUrl (str_of x)
  | Ls [A "d"; x] -> CssTok.TDelim (n_of_int (int_of x))
  | Ls [A "n"; x] -> CssTok.TNum (dummy_num (str_of x))
  | Ls [A "pc"; x] -> CssTok.TPct (dummy_num (str_of x))
  | Ls [A "dim"; x; u] -> CssTok.TDim (dummy_num (str_of x), str_of u)
  | Ls [A "c"; x] -> CssTok.TComment (str_of x)
  | Ls [A "F"; x] -> CssTok.TFunc (str_of x)
  | Ls [A "bu"; x] -> CssTok.TBadUrl (str_of x)
  | Ls [A "bs"; x] -> CssTok.TBadStr (str_of x)
  | _ -> failwith "bad canonical token"

let toks_of_canon (s : string) : CssTok.tok list =
  match parse_sexp s with
  | Ls l -> L.map tok_of_canon l
  | _ -> failwith "bad canonical token list"

let etok_s (e : CssSpec.etok) : string =
  (match e.CssSpec.e_gap with CssSpec.GFree -> "" | CssSpec.GReq -> "+" | CssSpec.GNo -> "!") ^ tok_s e.CssSpec.e_tok
let etoks_s (l : CssSpec.etok list) : string = "(" ^ S.concat " " (L.map etok_s l) ^ ")"

let b01 b = if b then "1" else "0"

(* numeric tokens of the expected streams with their source spelling (C10) *)
let nums_s (l : CssSpec.etok list) : string =
  "(" ^ S.concat " " (L.filter_map (fun e ->
    match e.CssSpec.e_tok with
    | CssTok.TNum n -> Some ("(n " ^ quote_str n.CssTok.n_src ^ ")")
    | CssTok.TPct n -> Some ("(pc " ^ quote_str n.CssTok.n_src ^ ")")
    | CssTok.TDim (n, u) -> Some ("(dim " ^ quote_str n.CssTok.n_src ^ " " ^ quote_str u ^ ")")
    | _ -> None) l) ^ ")"

let () =
  register "css" (function
    | opts :: tree :: rest ->
        let o = opts_of (parse_sexp opts) in
        let (nodes, endp) = tree_of (parse_sexp tree) in
        let st = Css.transform o nodes endp in
        let sp = CssSpec.expected o nodes in
        let wf = CssSpec.wf_tree o nodes in
        let known = CssSpec.known o nodes in
        let gn = collapse_ws (CssOut.o_tokens st.Css.w_normal) in
        let gl = collapse_ws (CssOut.o_tokens st.Css.w_low) in
        let conf_impl =
          (match rest with
           | _css :: _cat :: implN :: implL :: _ ->
               (try [ b01 (CssSpec.conforms (toks_of_canon implN) sp.CssSpec.so_normal);
                      b01 (CssSpec.conforms (toks_of_canon implL) sp.CssSpec.so_low) ]
                with _ -> ["E"; "E"])
           | _ -> ["-"; "-"]) in
        S.concat "\t"
          ([ toks_s gn; quote_str (CssOut.o_text st.Css.w_normal); map_s (CssOut.o_map st.Css.w_normal);
             toks_s gl; quote_str (CssOut.o_text st.Css.w_low); map_s (CssOut.o_map st.Css.w_low);
             "(" ^ S.concat " " (L.map warn_s (L.rev st.Css.w_warns)) ^ ")";
             (if st.Css.w_oof then "OUT-OF-FUEL" else "ok");
             b01 wf;
             "(" ^ S.concat " " (L.map (fun k -> string_of_int (int_of_n k)) known) ^ ")";
             b01 (CssSpec.conforms gn sp.CssSpec.so_normal);
             b01 (CssSpec.conforms gl sp.CssSpec.so_low) ]
           @ conf_impl @
           [ "(" ^ S.concat " " (L.map (fun k -> string_of_int (int_of_n k)) sp.CssSpec.so_warn) ^ ")";
             "(" ^ S.concat " " (L.map quote_str sp.CssSpec.so_paths) ^ ")";
             etoks_s sp.CssSpec.so_normal; etoks_s sp.CssSpec.so_low;
             nums_s (sp.CssSpec.so_normal @ sp.CssSpec.so_low) ])
    | _ -> "ERR args");
  (* css_num kind sign int bits -> printed text *)
  register "css_num" (function
    | [kind; sg; iv; bits] ->
        let n = num_of (A sg) (A iv) (A bits) [] in
        enc_str (match kind with
                 | "pc" -> CssTok.pct_text n
                 | _ -> CssTok.num_text n)
    | _ -> "ERR args");
  (* css_rpx value_bits ratio_bits -> new bits ; new int *)
  register "css_rpx" (function
    | [v; r] ->
        let nv = CssNum.rpx_new_value (n_of_int (int_of_string v)) (n_of_int (int_of_string r)) in
        string_of_int (int_of_n nv) ^ ";" ^
        (match CssNum.rpx_new_int nv with None -> "_" | Some z -> string_of_int (int_of_z z))
    | _ -> "ERR args");
  register "css_urlenc" (function
    | [s] ->
        let e = CssUrlEnc.url_encode (dec_str s) in
        enc_str e ^ ";" ^ (match CssUrlEnc.url_decode e with None -> "?" | Some d -> enc_str d)
    | _ -> "ERR args")
