open Driver_base
let () =
  (* sort_keys k1;k2;... : the emission order of a group with these (distinct) paths *)
  register "sort_keys" (function
    | [keys] ->
        let ks = if keys = "" then [] else S.split_on_char ';' keys in
        let entries = L.map (fun k -> (dec_str k, ())) ks in
        let sorted = Group.sort_by_key (Group.hm_build entries) in
        S.concat ";" (L.map (fun (k, ()) -> enc_str k) sorted)
    | _ -> "ERR args")
