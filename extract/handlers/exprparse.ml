open Driver_base

let dec_of_n (n : BinNums.coq_N) : string =
  let ten = n_of_int 10 in
  let rec go n acc =
    match n with
    | BinNums.N0 -> if acc = "" then "0" else acc
    | _ -> let q = BinNat.N.div n ten and r = BinNat.N.modulo n ten in
           go q (string_of_int (int_of_n r) ^ acc) in
  go n ""
let dec_of_z (z : BinNums.coq_Z) : string =
  match z with
  | BinNums.Z0 -> "0"
  | BinNums.Zpos p -> dec_of_n (BinNums.Npos p)
  | BinNums.Zneg p -> "-" ^ dec_of_n (BinNums.Npos p)

(* printer of the model's expression AST in the S-expression syntax of the harness (ast.rs) *)
let rec sexp_of_expr (e : Expr.expr) : string =
  match e with
  | Expr.EScope i -> "(scope " ^ string_of_int (int_of_nat i) ^ ")"
  | Expr.EField x -> "(field " ^ quote_str x ^ ")"
  | Expr.EToStr v -> "(tostr " ^ sexp_of_expr v ^ ")"
  | Expr.EUndef -> "undef"
  | Expr.ENull -> "null"
  | Expr.EStr s -> "(str " ^ quote_str s ^ ")"
  | Expr.EInt z -> "(int " ^ dec_of_z z ^ ")"
  | Expr.EFloat t -> "(float " ^ quote_str t ^ ")"
  | Expr.EBool b -> if b then "(bool 1)" else "(bool 0)"
  | Expr.EObj fs -> "(obj" ^ sexp_of_ofields fs ^ ")"
  | Expr.EArr fs -> "(arr" ^ sexp_of_afields fs ^ ")"
  | Expr.EMember (o, k) -> "(member " ^ sexp_of_expr o ^ " " ^ quote_str k ^ ")"
  | Expr.EIndex (o, k) -> "(index " ^ sexp_of_expr o ^ " " ^ sexp_of_expr k ^ ")"
  | Expr.ECall (f, args) -> "(call " ^ sexp_of_expr f ^ sexp_of_exprs args ^ ")"
  | Expr.EUn (op, v) ->
      let n = (match op with
        | Expr.UNot -> "Not" | Expr.UBitNot -> "BitNot" | Expr.UPos -> "Pos" | Expr.UNeg -> "Neg"
        | Expr.UTypeof -> "Typeof" | Expr.UVoid -> "Void") in
      "(un " ^ n ^ " " ^ sexp_of_expr v ^ ")"
  | Expr.EBin (op, l, r) ->
      let n = (match op with
        | Expr.BMul -> "Mul" | Expr.BDiv -> "Div" | Expr.BRem -> "Rem" | Expr.BAdd -> "Add" | Expr.BSub -> "Sub"
        | Expr.BShl -> "Shl" | Expr.BShr -> "Shr" | Expr.BUshr -> "Ushr" | Expr.BLt -> "Lt" | Expr.BGt -> "Gt"
        | Expr.BLe -> "Le" | Expr.BGe -> "Ge" | Expr.BInstanceof -> "Instanceof" | Expr.BEq -> "Eq" | Expr.BNe -> "Ne"
        | Expr.BEqq -> "Eqq" | Expr.BNeq -> "Neq" | Expr.BAnd -> "And" | Expr.BXor -> "Xor" | Expr.BOr -> "Or"
        | Expr.BLAnd -> "LAnd" | Expr.BLOr -> "LOr" | Expr.BNullish -> "Nullish") in
      "(bin " ^ n ^ " " ^ sexp_of_expr l ^ " " ^ sexp_of_expr r ^ ")"
  | Expr.ECond (c, t, f) -> "(cond " ^ sexp_of_expr c ^ " " ^ sexp_of_expr t ^ " " ^ sexp_of_expr f ^ ")"
and sexp_of_exprs (l : Expr.exprs) : string =
  match l with
  | Expr.XNil -> ""
  | Expr.XCons (e, r) -> " " ^ sexp_of_expr e ^ sexp_of_exprs r
and sexp_of_ofields (l : Expr.ofields) : string =
  match l with
  | Expr.ONil -> ""
  | Expr.ONamed (k, v, r) -> " (named " ^ quote_str k ^ " " ^ sexp_of_expr v ^ ")" ^ sexp_of_ofields r
  | Expr.OSpread (v, r) -> " (spread " ^ sexp_of_expr v ^ ")" ^ sexp_of_ofields r
and sexp_of_afields (l : Expr.afields) : string =
  match l with
  | Expr.ANil -> ""
  | Expr.ANormal (v, r) -> " (n " ^ sexp_of_expr v ^ ")" ^ sexp_of_afields r
  | Expr.ASpread (v, r) -> " (s " ^ sexp_of_expr v ^ ")" ^ sexp_of_afields r
  | Expr.AHole r -> " h" ^ sexp_of_afields r

let named_lookup (named : string) : BinNums.coq_N list -> BinNums.coq_N list option =
  let tbl = if named = "" then [] else
    L.map (fun item -> match S.split_on_char '=' item with
                       | [a; b] -> (dec_str a, dec_str b)
                       | _ -> failwith "bad named") (S.split_on_char '+' named) in
  fun e -> (try Some (L.assoc e tbl) with Not_found -> None)

let is_ws_only (l : BinNums.coq_N list) : bool =
  L.for_all (fun c -> let i = int_of_n c in i = 32 || (i >= 9 && i <= 13)) l

let () =
  (* valparse <text|attr> <named table> <input: the value text followed by the rest of the source> *)
  register "valparse" (function
    | ["diag"; _; t] ->
        (match ExprParse.binding_d false (dec_str t) with
         | ((_, _), ExprParse.DOk) -> "ok"
         | ((_, _), ExprParse.DEmpty) -> "empty"
         | ((_, _), ExprParse.DGarbage) -> "garbage"
         | ((_, _), ExprParse.DMissingEnd w) -> if w then "missingend:1" else "missingend:0"
         | ((_, _), ExprParse.DInner w) -> if w then "inner:1" else "inner:0")
    | ["tdata"; _; t] ->
        (match ExprParse.data_attr_value (n_of_int 34) (dec_str t) with
         | Some e -> "(dyn " ^ sexp_of_expr e ^ ")"
         | None -> "(static \"\")")
    | ["unq"; _; t] ->
        (match ExprParse.unquoted_attr_value (dec_str t) with
         | Some e -> "(dyn " ^ sexp_of_expr e ^ ")"
         | None -> "(static \"\")")
    | [ctx; named; t] ->
        let stop = if ctx = "text" then ExprParse.stop_text else ExprParse.stop_quote (n_of_int 34) in
        let (v, _) = ExprParse.parse_value (named_lookup named) stop (dec_str t) in
        (match v with
         | ExprParse.RS s -> if ctx = "text" && is_ws_only s then "NOTEXT" else "(static " ^ quote_str s ^ ")"
         | ExprParse.RD (e, _) -> "(dyn " ^ sexp_of_expr e ^ ")")
    | _ -> "ERR args")
