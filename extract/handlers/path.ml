open Driver_base
let () =
  register "path_resolve" (function
    | [b; r] -> enc_str (Path.resolve (dec_str b) (dec_str r))
    | _ -> "ERR args");
  register "path_normalize" (function
    | [p] -> enc_str (Path.normalize (dec_str p))
    | _ -> "ERR args");
  register "path_dep" (function
    | [kind; b; w] ->
        (match Path.dep_of (kind = "wxs") (dec_str b) (dec_str w) with
         | None -> "?"
         | Some d -> enc_str d ^ ";linked")
    | _ -> "ERR args")
