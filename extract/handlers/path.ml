open Driver_base
let () =
  register "path_resolve" (function
    | [b; r] -> enc_str (Path.resolve (dec_str b) (dec_str r))
    | _ -> "ERR args");
  register "path_normalize" (function
    | [p] -> enc_str (Path.normalize (dec_str p))
    | _ -> "ERR args");
  register "path_dep" (function
    | [kind; b; w] ->
        (match Path.dep_of (kind = "wxs") (dec_str b) (dec_str w) with
         | None -> "?"
         | Some d -> enc_str d ^ ";linked")
    | _ -> "ERR args")

let () =
  (* tmpl_owner <base> <local defs,> <imports,> <registry path:defs,;...> <name> *)
  let names s = if s = "" then [] else L.map dec_str (S.split_on_char '+' s) in
  register "tmpl_owner" (function
    | [base; local; imports; reg; name] ->
        let registry = if reg = "" then [] else
          L.map (fun item -> match S.split_on_char ':' item with
                             | [p; d] -> (dec_str p, names d)
                             | [p] -> (dec_str p, [])
                             | _ -> failwith "bad registry") (S.split_on_char ';' reg) in
        (match Link.template_owner registry (dec_str base) (names local) (names imports) (dec_str name) with
         | Some p -> "S" ^ enc_str p
         | None -> "N")
    | _ -> "ERR args")
