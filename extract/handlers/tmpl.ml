open Driver_base
open H_expr

(* ---- sexp -> Tmpl; scope refs carry their source spelling: (scope i "name") ---- *)
let rec expr_named_of (named : bool) (s : sexp) : Expr.expr =
  (* named = true: turn (scope i "name") back into the data field "name" (the pre-analysis AST) *)
  match s with
  | Ls [A "scope"; A i; Q name] -> if named then Expr.EField name else Expr.EScope (nat_of_int (int_of_string i))
  | Ls [A "tostr"; e] -> Expr.EToStr (expr_named_of named e)
  | Ls (A "obj" :: fs) ->
      Expr.EObj (L.fold_right (fun f acc ->
        match f with
        | Ls [A "named"; Q k; v] -> Expr.ONamed (k, expr_named_of named v, acc)
        | Ls [A "spread"; v] -> Expr.OSpread (expr_named_of named v, acc)
        | _ -> failwith "bad obj field") fs Expr.ONil)
  | Ls (A "arr" :: fs) ->
      Expr.EArr (L.fold_right (fun f acc ->
        match f with
        | Ls [A "n"; v] -> Expr.ANormal (expr_named_of named v, acc)
        | Ls [A "s"; v] -> Expr.ASpread (expr_named_of named v, acc)
        | A "h" -> Expr.AHole acc
        | _ -> failwith "bad arr field") fs Expr.ANil)
  | Ls [A "member"; o; Q k] -> Expr.EMember (expr_named_of named o, k)
  | Ls [A "index"; o; k] -> Expr.EIndex (expr_named_of named o, expr_named_of named k)
  | Ls (A "call" :: f :: args) ->
      Expr.ECall (expr_named_of named f, L.fold_right (fun a acc -> Expr.XCons (expr_named_of named a, acc)) args Expr.XNil)
  | Ls [A "un"; op; v] ->
      (match expr_of (Ls [A "un"; op; A "null"]) with
       | Expr.EUn (o, _) -> Expr.EUn (o, expr_named_of named v)
       | _ -> failwith "un")
  | Ls [A "bin"; op; l; r] ->
      (match expr_of (Ls [A "bin"; op; A "null"; A "null"]) with
       | Expr.EBin (o, _, _) -> Expr.EBin (o, expr_named_of named l, expr_named_of named r)
       | _ -> failwith "bin")
  | Ls [A "cond"; c; t; f] -> Expr.ECond (expr_named_of named c, expr_named_of named t, expr_named_of named f)
  | other -> expr_of other

let value_of named (s : sexp) : Tmpl.value =
  match s with
  | Ls [A "static"; Q x] -> Tmpl.VStatic x
  | Ls [A "dyn"; e] -> Tmpl.VDynamic (expr_named_of named e)
  | _ -> failwith "bad value"
let optvalue_of named (s : sexp) : Tmpl.value option =
  match s with A "none" -> None | v -> Some (value_of named v)
let b01 s = (s = "1")

let vattr_of named (s : sexp) : Tmpl.vattr =
  match s with
  | Ls [A "attr"; Q n; A m; v] -> { Tmpl.va_chan = Tmpl.ChAttr (n, b01 m); Tmpl.va_val = optvalue_of named v }
  | Ls [A "class"; v] -> { Tmpl.va_chan = Tmpl.ChClass; Tmpl.va_val = Some (value_of named v) }
  | Ls [A "style"; v] -> { Tmpl.va_chan = Tmpl.ChStyle; Tmpl.va_val = Some (value_of named v) }
  | Ls [A "change"; Q n; v] -> { Tmpl.va_chan = Tmpl.ChChange n; Tmpl.va_val = optvalue_of named v }
  | Ls [A "id"; v] -> { Tmpl.va_chan = Tmpl.ChId; Tmpl.va_val = Some (value_of named v) }
  | Ls [A "slotattr"; v] -> { Tmpl.va_chan = Tmpl.ChSlotAttr; Tmpl.va_val = Some (value_of named v) }
  | Ls [A "event"; Q n; A c; A m; A cap; v] ->
      { Tmpl.va_chan = Tmpl.ChEvent (n, b01 c, b01 m, b01 cap); Tmpl.va_val = optvalue_of named v }
  | Ls [A "data"; Q n; v] -> { Tmpl.va_chan = Tmpl.ChData n; Tmpl.va_val = optvalue_of named v }
  | Ls [A "mark"; Q n; v] -> { Tmpl.va_chan = Tmpl.ChMark n; Tmpl.va_val = optvalue_of named v }
  | Ls [A "slotvalue"; Q n; v] -> { Tmpl.va_chan = Tmpl.ChSlotValue n; Tmpl.va_val = optvalue_of named v }
  | _ -> failwith "bad vattr"

let refs_of (s : sexp) =
  match s with
  | Ls (A "refs" :: l) -> L.map (function Ls [Q a; Q b] -> (a, b) | _ -> failwith "bad ref") l
  | _ -> failwith "bad refs"

let rec node_of named (s : sexp) : Tmpl.node =
  match s with
  | A "other" -> Tmpl.NOther
  | Ls [A "text"; v] -> Tmpl.NText (value_of named v)
  | Ls [A "elem"; Q tag; Ls (A "statics" :: st); Ls (A "vals" :: vals); refs; ch] ->
      let statics = L.map (function
        | Ls [A "worklet"; Q a; Q b] -> Tmpl.SWorklet (a, b)
        | Ls [A "generic"; Q a; Q b] -> Tmpl.SGeneric (a, b)
        | Ls [A "extra"; Q a; Q b] -> Tmpl.SExtraAttr (a, b)
        | _ -> failwith "bad static") st in
      Tmpl.NElem (tag, statics, L.map (vattr_of named) vals, refs_of refs, nodes_of named ch)
  | Ls [A "pure"; slot; refs; ch] -> Tmpl.NPure (optvalue_of named slot, refs_of refs, nodes_of named ch)
  | Ls [A "for"; lst; Q item; Q index; Q key; ch] -> Tmpl.NFor (value_of named lst, item, index, key, nodes_of named ch)
  | Ls [A "if"; Ls branches; els] ->
      let br = L.fold_right (fun b acc ->
        match b with
        | Ls [c; body] -> Tmpl.BCons (value_of named c, nodes_of named body, acc)
        | _ -> failwith "bad branch") branches Tmpl.BNil in
      (match els with
       | A "noelse" -> Tmpl.NIf (br, false, Tmpl.NNil)
       | Ls [A "else"; body] -> Tmpl.NIf (br, true, nodes_of named body)
       | _ -> failwith "bad else")
  | Ls [A "tmplref"; t; d] -> Tmpl.NTmplRef (value_of named t, value_of named d)
  | Ls [A "include"; Q p] -> Tmpl.NInclude p
  | Ls [A "slot"; name; Ls (A "vals" :: vals); refs] -> Tmpl.NSlot (value_of named name, L.map (vattr_of named) vals, refs_of refs)
  | _ -> failwith "bad node"
and nodes_of named (s : sexp) : Tmpl.nodes =
  match s with
  | Ls l -> L.fold_right (fun n acc -> Tmpl.NCons (node_of named n, acc)) l Tmpl.NNil
  | _ -> failwith "bad nodes"

let template_of named (s : sexp) : Tmpl.template =
  match s with
  | Ls [A "tmpl"; Q path; Ls (A "imports" :: im); Ls (A "includes" :: inc); Ls (A "scripts" :: sc); Ls (A "subs" :: subs); content] ->
      let strs l = L.map (function Q x -> x | _ -> failwith "bad str") l in
      { Tmpl.t_path = path; Tmpl.t_imports = strs im; Tmpl.t_includes = strs inc;
        Tmpl.t_scripts = L.map (function
          | Ls [A "inline"; Q m] -> { Tmpl.sc_module = m; Tmpl.sc_src = None }
          | Ls [A "ref"; Q m; Q src] -> { Tmpl.sc_module = m; Tmpl.sc_src = Some src }
          | _ -> failwith "bad script") sc;
        Tmpl.t_subs = L.map (function Ls [Q n; body] -> (n, nodes_of named body) | _ -> failwith "bad sub") subs;
        Tmpl.t_content = nodes_of named content }
  | _ -> failwith "bad template"

(* every dynamic expression of a template in traversal order, for locating a difference *)
let rec exprs_of_nodes (l : Tmpl.nodes) (acc : Expr.expr list) : Expr.expr list =
  match l with
  | Tmpl.NNil -> acc
  | Tmpl.NCons (n, r) -> exprs_of_nodes r (exprs_of_node n acc)
and exprs_of_value (v : Tmpl.value) acc = match v with Tmpl.VDynamic e -> e :: acc | _ -> acc
and exprs_of_vals vals acc =
  L.fold_left (fun a (va : Tmpl.vattr) -> match va.Tmpl.va_val with Some v -> exprs_of_value v a | None -> a) acc vals
and exprs_of_node (n : Tmpl.node) acc =
  match n with
  | Tmpl.NText v -> exprs_of_value v acc
  | Tmpl.NElem (_, _, vals, _, ch) -> exprs_of_nodes ch (exprs_of_vals vals acc)
  | Tmpl.NPure (slot, _, ch) -> exprs_of_nodes ch (match slot with Some v -> exprs_of_value v acc | None -> acc)
  | Tmpl.NFor (lst, _, _, _, ch) -> exprs_of_nodes ch (exprs_of_value lst acc)
  | Tmpl.NIf (br, _, els) ->
      let rec go b a = match b with Tmpl.BNil -> a | Tmpl.BCons (c, body, r) -> go r (exprs_of_nodes body (exprs_of_value c a)) in
      exprs_of_nodes els (go br acc)
  | Tmpl.NTmplRef (t, d) -> exprs_of_value d (exprs_of_value t acc)
  | Tmpl.NSlot (name, vals, _) -> exprs_of_vals vals (exprs_of_value name acc)
  | _ -> acc

let () =
  (* analyse <template sexp as dumped from the implementation (after its own analysis)> :
     re-runs the model's analysis on the named (pre-analysis) form and compares the results *)
  register "analyse" (function
    | [sx] ->
        let s = parse_sexp sx in
        let impl_t = template_of false s in
        let named_t = template_of true s in
        let ((model_t, b), _log) = Scope.analyse_template named_t in
        let fields = enc_str (TagGen.bmc_init (mk_lit_str "") b) in
        if model_t = impl_t then "OK|" ^ fields
        else begin
          let all t = L.rev (exprs_of_nodes t.Tmpl.t_content (L.fold_left (fun a (_, b) -> exprs_of_nodes b a) [] t.Tmpl.t_subs)) in
          let mi = all model_t and ii = all impl_t in
          let rec first k a b = match a, b with
            | x :: a', y :: b' -> if x = y then first (k + 1) a' b' else k
            | _, _ -> k in
          "DIFF first differing binding (traversal order) #" ^ string_of_int (first 0 mi ii) ^ "|" ^ fields
        end
    | _ -> "ERR args")
