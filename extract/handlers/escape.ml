open Driver_base
let () =
  (* lit_str <flags> <string> : flags.[i] = '1' iff the implementation writes char i as \u{..} when alone *)
  register "lit_str" (function
    | [flags; s] ->
        let cps = dec_str s in
        let tbl = Hashtbl.create 8 in
        L.iteri (fun i c -> Hashtbl.replace tbl (int_of_n c) (flags.[i] = '1')) cps;
        let esc_u c = (try Hashtbl.find tbl (int_of_n c) with Not_found -> false) in
        let lit = Escape.gen_lit_str esc_u cps in
        (* the model also decodes its own output: a self-check of the proved round trip *)
        (match JsLex.js_string_decode lit with
         | Some (v, []) when v = cps -> enc_str lit
         | _ -> "MODEL-ROUNDTRIP-FAILED " ^ enc_str lit)
    | _ -> "ERR args");
  register "js_decode" (function
    | [s] -> (match JsLex.js_string_decode (dec_str s) with
              | Some (v, rest) -> "S" ^ enc_str v ^ ";" ^ enc_str rest
              | None -> "N")
    | _ -> "ERR args");
  register "entity" (function
    | [e] -> (match Entities.entity_decode (fun _ -> None) (dec_str e) with
              | Some s -> "S" ^ enc_str s
              | None -> "N")
    | _ -> "ERR args");
  register "html_body" (function [s] -> enc_str (Escape.escape_html_body (dec_str s)) | _ -> "ERR args");
  register "html_quote" (function [s] -> enc_str (Escape.escape_html_quote (dec_str s)) | _ -> "ERR args");
  register "dash_to_camel" (function [s] -> enc_str (Escape.dash_to_camel (dec_str s)) | _ -> "ERR args");
  register "var_name" (function
    | [id] -> enc_str (VarName.var_name (n_of_int (int_of_string id)))
    | _ -> "ERR args");
  register "alloc" (function
    | [id] -> (match VarName.alloc (n_of_int (int_of_string id)) with
               | Some (name, id') -> enc_str name ^ ";" ^ string_of_int (int_of_n id')
               | None -> "OUT-OF-FUEL")
    | _ -> "ERR args");
  (* entscan <named: enc(entity)=enc(decoded)+...> <text> : the parser's decoding of static text *)
  register "entscan" (function
    | [named; t] ->
        let tbl = if named = "" then [] else
          L.map (fun item -> match S.split_on_char '=' item with
                             | [a; b] -> (dec_str a, dec_str b)
                             | _ -> failwith "bad named") (S.split_on_char '+' named) in
        let lookup e = (try Some (L.assoc e tbl) with Not_found -> None) in
        enc_str (TextDecode.decode_text lookup (dec_str t))
    | _ -> "ERR args");
  (* wxscan <body followed by the closing single quote> : S<decoded> when the literal ends exactly at the end, else E *)
  register "wxscan" (function
    | [t] ->
        (match WxStr.wx_str_decode (n_of_int 39) (dec_str t) with
         | Some (v, []) -> "V" ^ enc_str v
         | Some (_, _) -> "E"
         | None -> "E")
    | _ -> "ERR args");
  register "wx_lit_str" (function [s] -> enc_str (WxStr.wx_lit_str (dec_str s)) | _ -> "ERR args")
