open Driver_base
let () =
  (* pos_decode <src> <l:c;l:c;...> : code-point offset of each position, or X *)
  register "pos_decode" (function
    | [src; ps] ->
        let s = dec_str src in
        let one p =
          (match S.split_on_char ':' p with
           | [l; c] ->
               (match SrcPos.offset_of_position s { SrcPos.p_line = n_of_int (int_of_string l); SrcPos.p_col = n_of_int (int_of_string c) } with
                | Some k -> string_of_int (int_of_nat k)
                | None -> "X")
           | _ -> "X") in
        if ps = "" then "" else S.concat ";" (L.map one (S.split_on_char ';' ps))
    | _ -> "ERR args");
  (* pos_encode <src> <k;k;...> : position of each offset as l:c *)
  register "pos_encode" (function
    | [src; ks] ->
        let s = dec_str src in
        let one k = let p = SrcPos.position_of_offset s (nat_of_int (int_of_string k)) in
          string_of_int (int_of_n p.SrcPos.p_line) ^ ":" ^ string_of_int (int_of_n p.SrcPos.p_col) in
        if ks = "" then "" else S.concat ";" (L.map one (S.split_on_char ';' ks))
    | _ -> "ERR args");
  register "diag_level" (function
    | [code] -> (match Diag.level_of (n_of_int (int_of_string code)) Diag.level_table with
                 | Some l -> string_of_int (int_of_n l)
                 | None -> "UNKNOWN")
    | _ -> "ERR args")
