open Driver_base
open H_expr
open H_zrender

(* update-path trees: t | u | (o ("k" tree) ...) *)
let rec upt_of (s : sexp) : Upt.upt =
  match s with
  | A "t" -> Upt.UAll
  | A "u" -> Upt.UNone
  | Ls (A "o" :: l) ->
      Upt.UNode (Upt.of_list (L.map (function Ls [Q k; v] -> (k, upt_of v) | _ -> failwith "bad upt") l))
  | _ -> failwith "bad upt sexp"

let () =
  (* guard_den <esc> <expr> <U> <data> : G0/G1 (denotation of the guard) | hoisted statements | guard text.
     SKIP when a hoisted expression evaluates outside the value fragment. *)
  register "guard_den" (function
    | [esc; sx; usx; dsx] ->
        (try
          let e = expr_of (parse_sexp sx) in
          let lit_str = mk_lit_str esc in
          let root = (match upt_of (parse_sexp usx) with Upt.UNode f -> f | _ -> failwith "root must be an object") in
          let d = val_of (parse_sexp dsx) in
          let ev = { Val.e_data = d; Val.e_scopes = [] } in
          let ((st, _), r) = ExprGen.prepare [] lit_str e (ExprGen.mk_gst BinNums.N0) in
          let outside = ref false in
          let hv i =
            (match L.find_opt (fun (j, _) -> j = i) st.ExprGen.hoists with
             | Some (_, he) -> (match Val.eval ev he with Some v -> Some v | None -> outside := true; None)
             | None -> None) in
          (* force the evaluation of every hoisted expression so that `outside` is known *)
          L.iter (fun (i, _) -> ignore (hv i)) st.ExprGen.hoists;
          if !outside then "SKIP"
          else
            let g = Upt.guard_den [] (fun _ -> Upt.UNone) root hv r in
            (if g then "G1" else "G0") ^ "|" ^ enc_str (Str.join [n_of_int 59] st.ExprGen.stmts) ^ "|" ^
            enc_str (ExprGen.guard_str [] false lit_str r)
        with Outside -> "SKIP")
    | _ -> "ERR args");
  (* path_den <esc> <expr> <data> : model: path text | hoisted statements | D<keys joined by ;> or N.
     SKIP when a hoisted expression evaluates outside the value fragment or there is no path *)
  register "path_den" (function
    | [esc; sx; dsx] ->
        (try
          let e = expr_of (parse_sexp sx) in
          let lit_str = mk_lit_str esc in
          let d = val_of (parse_sexp dsx) in
          let ev = { Val.e_data = d; Val.e_scopes = [] } in
          let ((st, _), r) = ExprGen.prepare [] lit_str e (ExprGen.mk_gst BinNums.N0) in
          let outside = ref false in
          let hv i =
            (match L.find_opt (fun (j, _) -> j = i) st.ExprGen.hoists with
             | Some (_, he) -> (match Val.eval ev he with Some v -> Some v | None -> outside := true; None)
             | None -> None) in
          L.iter (fun (i, _) -> ignore (hv i)) st.ExprGen.hoists;
          (match r with
           | ExprGen.PRes (Some p, _) when not !outside ->
               let (text, ok) = ExprGen.lvalue_path [] lit_str (Some true) (Some p) in
               let den = (match LvPath.path_den hv p with
                          | Some ks -> "D" ^ S.concat ";" (L.map enc_str ks)
                          | None -> "N") in
               let value = (match Val.eval ev e with Some _ -> "V" | None -> "O") in
               enc_str text ^ "|" ^ enc_str (Str.join [n_of_int 59] st.ExprGen.stmts) ^ "|" ^ den ^ "|" ^ value
           | _ -> "SKIP")
        with Outside -> "SKIP")
    | _ -> "ERR args");
  (* expr_sem <esc> <expr> <data> : V<json value of Val.eval> | O (outside), the value of the emitted tree after
     running the hoists (jeval), the hoisted statements, the value text *)
  register "expr_sem" (function
    | [esc; sx; dsx] ->
        (try
          let e = expr_of (parse_sexp sx) in
          let lit_str = mk_lit_str esc in
          let d = val_of (parse_sexp dsx) in
          let ev = { Val.e_data = d; Val.e_scopes = [] } in
          let (st, o) = ExprGen.gen_core [] lit_str e (ExprGen.mk_gst BinNums.N0) in
          let show = (function Some v -> "V" ^ val_json v | None -> "O") in
          let src = show (Val.eval ev e) in
          let henv = JsSem.run_hoists ev st.ExprGen.hoists_js (fun _ -> None) in
          let tgt = show (JsSem.jeval ev henv o.ExprGen.g_js) in
          src ^ "|" ^ tgt ^ "|" ^ enc_str (Str.join [n_of_int 59] st.ExprGen.stmts) ^ "|" ^ enc_str o.ExprGen.g_val
        with Outside -> "SKIP")
    | _ -> "ERR args")
