open Driver_base

let rec expr_of (s : sexp) : Expr.expr =
  match s with
  | A "undef" -> Expr.EUndef
  | A "null" -> Expr.ENull
  | Ls [A "scope"; A i] -> Expr.EScope (nat_of_int (int_of_string i))
  | Ls [A "field"; Q x] -> Expr.EField x
  | Ls [A "tostr"; e] -> Expr.EToStr (expr_of e)
  | Ls [A "str"; Q x] -> Expr.EStr x
  | Ls [A "int"; A i] -> Expr.EInt (z_of_dec_string i)
  | Ls [A "float"; Q x] -> Expr.EFloat x
  | Ls [A "bool"; A b] -> Expr.EBool (b = "1")
  | Ls (A "obj" :: fs) ->
      Expr.EObj (L.fold_right (fun f acc ->
        match f with
        | Ls [A "named"; Q k; v] -> Expr.ONamed (k, expr_of v, acc)
        | Ls [A "spread"; v] -> Expr.OSpread (expr_of v, acc)
        | _ -> failwith "bad obj field") fs Expr.ONil)
  | Ls (A "arr" :: fs) ->
      Expr.EArr (L.fold_right (fun f acc ->
        match f with
        | Ls [A "n"; v] -> Expr.ANormal (expr_of v, acc)
        | Ls [A "s"; v] -> Expr.ASpread (expr_of v, acc)
        | A "h" -> Expr.AHole acc
        | _ -> failwith "bad arr field") fs Expr.ANil)
  | Ls [A "member"; o; Q k] -> Expr.EMember (expr_of o, k)
  | Ls [A "index"; o; k] -> Expr.EIndex (expr_of o, expr_of k)
  | Ls (A "call" :: f :: args) ->
      Expr.ECall (expr_of f, L.fold_right (fun a acc -> Expr.XCons (expr_of a, acc)) args Expr.XNil)
  | Ls [A "un"; A op; v] ->
      let o = (match op with
        | "Not" -> Expr.UNot | "BitNot" -> Expr.UBitNot | "Pos" -> Expr.UPos | "Neg" -> Expr.UNeg
        | "Typeof" -> Expr.UTypeof | "Void" -> Expr.UVoid | _ -> failwith "bad unop") in
      Expr.EUn (o, expr_of v)
  | Ls [A "bin"; A op; l; r] ->
      let o = (match op with
        | "Mul" -> Expr.BMul | "Div" -> Expr.BDiv | "Rem" -> Expr.BRem | "Add" -> Expr.BAdd | "Sub" -> Expr.BSub
        | "Shl" -> Expr.BShl | "Shr" -> Expr.BShr | "Ushr" -> Expr.BUshr | "Lt" -> Expr.BLt | "Gt" -> Expr.BGt
        | "Le" -> Expr.BLe | "Ge" -> Expr.BGe | "Instanceof" -> Expr.BInstanceof | "Eq" -> Expr.BEq | "Ne" -> Expr.BNe
        | "Eqq" -> Expr.BEqq | "Neq" -> Expr.BNeq | "And" -> Expr.BAnd | "Xor" -> Expr.BXor | "Or" -> Expr.BOr
        | "LAnd" -> Expr.BLAnd | "LOr" -> Expr.BLOr | "Nullish" -> Expr.BNullish | _ -> failwith "bad binop") in
      Expr.EBin (o, expr_of l, expr_of r)
  | Ls [A "cond"; c; t; f] -> Expr.ECond (expr_of c, expr_of t, expr_of f)
  | _ -> failwith "bad expr sexp"

let mk_lit_str (esc_list : string) : BinNums.coq_N list -> BinNums.coq_N list =
  let extra = if esc_list = "" then [] else L.map int_of_string (S.split_on_char ',' esc_list) in
  let esc_u c = let i = int_of_n c in i < 32 || i = 127 || L.mem i extra in
  Escape.gen_lit_str esc_u

let join_semi (l : BinNums.coq_N list list) : string =
  S.concat ";" (L.map enc_str l)   (* 59 never... statements joined for transport; see below *)

let () =
  (* attrgen <kind> <attr name> <esc list> <sexp> : body statements of the property-init function and
     the binding-map initialiser for the template `<v NAME="{{e}}"/>` (no enclosing scopes) *)
  register "attrgen" (function
    | [kind; name; esc; sx] ->
        let e = expr_of (parse_sexp sx) in
        let lit_str = mk_lit_str esc in
        let (b, keys) = BindingMap.collect_keys BindingMap.bmc_new e in
        let st0 = ExprGen.mk_gst BinNums.N0 in
        let stmts =
          (match kind with
           | "text" -> snd (TagGen.text_dynamic [] lit_str e b (Some keys) st0)
           | "class" | "style" | "id" | "data" | "mark" ->
             let (m, nm) = (match kind with
               | "class" -> ("76", None) | "style" -> ("82,46,121", None) | "id" -> ("82,46,105", None)
               | "data" -> ("82,46,100", Some (dec_str name)) | _ -> ("77", Some (dec_str name))) in
             snd (TagGen.setter_dynamic [] lit_str (TagGen.setter_call lit_str (dec_str m) nm) e b (Some keys) st0)
           | "change" ->
             snd (TagGen.listener_dynamic [] lit_str (TagGen.setter_call lit_str (dec_str "82,46,112") (Some (dec_str name))) [] e b (Some keys) st0)
           | "ev" | "evcatch" | "evmut" | "evcap" | "evcapcatch" ->
             let (c, m, cp) = (match kind with
               | "ev" -> (false, false, false) | "evcatch" -> (true, false, false) | "evmut" -> (false, true, false)
               | "evcap" -> (false, false, true) | _ -> (true, false, true)) in
             snd (TagGen.listener_dynamic [] lit_str (TagGen.setter_call lit_str (dec_str "82,46,118") (Some (dec_str name)))
                    (TagGen.event_call_post c m cp) e b (Some keys) st0)
           | _ ->
             let k = if kind = "model" then TagGen.AkModel else TagGen.AkNormal in
             snd (TagGen.normal_attr_dynamic [] lit_str k (dec_str name) e b (Some keys) st0)) in
        let body = Str.join [n_of_int 59] stmts in
        (* the parts, so that a difference can be attributed to the right property:
           hoisted statements + value (C03), guard (C06), l-value path (C11) *)
        let ((st1, v), r) = ExprGen.prepare [] lit_str e st0 in
        let hoisted = Str.join [n_of_int 59] st1.ExprGen.stmts in
        let guard = ExprGen.guard_str [] false lit_str r in
        let lv = (match kind with
                  | "text" | "class" | "style" | "id" | "data" | "mark" | "change" | "ev" | "evcatch" | "evmut" | "evcap" | "evcapcatch" -> []
                  | _ -> TagGen.normal_attr_lvalue [] lit_str (if kind = "model" then TagGen.AkModel else TagGen.AkNormal) (dec_str name) r) in
        enc_str body ^ "|" ^ enc_str (TagGen.bmc_init lit_str b) ^ "|" ^ enc_str hoisted ^ "|" ^ enc_str v ^ "|" ^ enc_str guard ^ "|" ^ enc_str lv
    | _ -> "ERR args");
  (* strexpr <esc list> <sexp> : the stringifier's text for the attribute value "{{ e }}" (no scopes) *)
  register "strexpr" (function
    | [esc; sx] ->
        let e = expr_of (parse_sexp sx) in
        let lit_str = mk_lit_str esc in
        let names _ = dec_str "95,95,73,78,86,65,76,73,68,95,83,67,79,80,69,95,78,65,77,69,95,95" in
        enc_str (StrExpr.sx_value names e)
    | _ -> "ERR args")
