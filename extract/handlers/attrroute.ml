open Driver_base
let () =
  register "attr_route" (function
    | [el; raw] ->
        let k = if el = "slot" then AttrRoute.KSlot else AttrRoute.KView in
        (match AttrRoute.route k (dec_str raw) with
         | Some s -> "S" ^ enc_str s
         | None -> "N")
    | _ -> "ERR args")
