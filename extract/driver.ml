(* modelrun: reads one case per line on stdin, writes one result per line on stdout.
   Line format: fields separated by TAB; first field = command.
   Strings are encoded as comma-separated decimal code points ("" = empty string). *)

let rec pos_of_int (n : int) : BinNums.positive =
  if n = 1 then BinNums.Coq_xH
  else if n land 1 = 0 then BinNums.Coq_xO (pos_of_int (n lsr 1))
  else BinNums.Coq_xI (pos_of_int (n lsr 1))
let n_of_int (n : int) : BinNums.coq_N = if n = 0 then BinNums.N0 else BinNums.Npos (pos_of_int n)
let rec int_of_pos (p : BinNums.positive) : int =
  match p with
  | BinNums.Coq_xH -> 1
  | BinNums.Coq_xO q -> 2 * int_of_pos q
  | BinNums.Coq_xI q -> 2 * int_of_pos q + 1
let int_of_n (n : BinNums.coq_N) : int = match n with BinNums.N0 -> 0 | BinNums.Npos p -> int_of_pos p

let dec_str (s : string) : BinNums.coq_N list =
  if s = "" then [] else Stdlib.List.map (fun x -> n_of_int (int_of_string x)) (String.split_on_char ',' s)
let enc_str (l : BinNums.coq_N list) : string =
  String.concat "," (Stdlib.List.map (fun n -> string_of_int (int_of_n n)) l)

let handle (fields : string list) : string =
  match fields with
  | ["path_resolve"; b; r] -> enc_str (Path.resolve (dec_str b) (dec_str r))
  | ["path_normalize"; p] -> enc_str (Path.normalize (dec_str p))
  | ["path_dep"; kind; b; w] ->
      (match Path.dep_of (kind = "wxs") (dec_str b) (dec_str w) with
       | None -> "?"
       | Some d -> enc_str d ^ ";linked")
  | cmd :: _ -> "ERR unknown command " ^ cmd
  | [] -> "ERR empty"

let () =
  let buf = Buffer.create (1 lsl 20) in
  (try
     while true do
       let line = input_line stdin in
       let fields = String.split_on_char '\t' line in
       let r = (try handle fields with e -> "EXC " ^ Printexc.to_string e) in
       Buffer.add_string buf r; Buffer.add_char buf '\n';
       if Buffer.length buf > (1 lsl 20) then (print_string (Buffer.contents buf); Buffer.clear buf)
     done
   with End_of_file -> ());
  print_string (Buffer.contents buf)
