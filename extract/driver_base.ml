(* modelrun base: encoding helpers and the handler registry.
   Line format: fields separated by TAB; first field = command.
   Strings are comma-separated decimal code points ("" = empty string). *)
module L = Stdlib.List
module S = Stdlib.String

let rec pos_of_int (n : int) : BinNums.positive =
  if n = 1 then BinNums.Coq_xH
  else if n land 1 = 0 then BinNums.Coq_xO (pos_of_int (n lsr 1))
  else BinNums.Coq_xI (pos_of_int (n lsr 1))
let n_of_int (n : int) : BinNums.coq_N = if n = 0 then BinNums.N0 else BinNums.Npos (pos_of_int n)
let rec int_of_pos (p : BinNums.positive) : int =
  match p with
  | BinNums.Coq_xH -> 1
  | BinNums.Coq_xO q -> 2 * int_of_pos q
  | BinNums.Coq_xI q -> 2 * int_of_pos q + 1
let int_of_n (n : BinNums.coq_N) : int = match n with BinNums.N0 -> 0 | BinNums.Npos p -> int_of_pos p
let z_of_int (n : int) : BinNums.coq_Z =
  if n = 0 then BinNums.Z0 else if n > 0 then BinNums.Zpos (pos_of_int n) else BinNums.Zneg (pos_of_int (- n))
let int_of_z (z : BinNums.coq_Z) : int =
  match z with BinNums.Z0 -> 0 | BinNums.Zpos p -> int_of_pos p | BinNums.Zneg p -> - (int_of_pos p)
let rec nat_of_int (n : int) : Datatypes.nat = if n <= 0 then Datatypes.O else Datatypes.S (nat_of_int (n - 1))
let rec int_of_nat (n : Datatypes.nat) : int = match n with Datatypes.O -> 0 | Datatypes.S m -> 1 + int_of_nat m

(* arbitrary-size decimal -> N / Z (OCaml ints are 63 bits) *)
let n_of_dec_string (s : string) : BinNums.coq_N =
  let acc = ref BinNums.N0 in
  let ten = n_of_int 10 in
  Stdlib.String.iter (fun c -> acc := BinNat.N.add (BinNat.N.mul !acc ten) (n_of_int (Char.code c - 48))) s;
  !acc
let z_of_dec_string (s : string) : BinNums.coq_Z =
  let neg = Stdlib.String.length s > 0 && Stdlib.String.get s 0 = '-' in
  let body = if neg then Stdlib.String.sub s 1 (Stdlib.String.length s - 1) else s in
  match n_of_dec_string body with
  | BinNums.N0 -> BinNums.Z0
  | BinNums.Npos p -> if neg then BinNums.Zneg p else BinNums.Zpos p

let dec_str (s : string) : BinNums.coq_N list =
  if s = "" then [] else L.map (fun x -> n_of_int (int_of_string x)) (S.split_on_char ',' s)
let enc_str (l : BinNums.coq_N list) : string =
  S.concat "," (L.map (fun n -> string_of_int (int_of_n n)) l)

(* ---- S-expressions: atoms are bare tokens or double-quoted strings with backslash escapes
   (backslash, double quote, u{hex}); the text is ASCII only ---- *)
type sexp = A of string | Q of BinNums.coq_N list | Ls of sexp list

let parse_sexp (s : string) : sexp =
  let n = S.length s in
  let pos = ref 0 in
  let rec skip () = if !pos < n && (s.[!pos] = ' ' || s.[!pos] = '\n') then (incr pos; skip ()) in
  let rec parse () : sexp =
    skip ();
    if !pos >= n then failwith "sexp: eof"
    else if s.[!pos] = '(' then begin
      incr pos;
      let items = ref [] in
      let rec loop () =
        skip ();
        if !pos >= n then failwith "sexp: unclosed"
        else if s.[!pos] = ')' then incr pos
        else (items := parse () :: !items; loop ()) in
      loop (); Ls (L.rev !items)
    end else if s.[!pos] = '"' then begin
      incr pos;
      let cps = ref [] in
      let rec loop () =
        if !pos >= n then failwith "sexp: unclosed string"
        else if s.[!pos] = '"' then incr pos
        else if s.[!pos] = '\\' then begin
          incr pos;
          (match s.[!pos] with
           | 'u' ->
               (* \u{hex} *)
               pos := !pos + 2;
               let st = !pos in
               while s.[!pos] <> '}' do incr pos done;
               let h = S.sub s st (!pos - st) in
               incr pos;
               cps := n_of_int (int_of_string ("0x" ^ h)) :: !cps
           | c -> incr pos; cps := n_of_int (Char.code c) :: !cps);
          loop ()
        end else (cps := n_of_int (Char.code s.[!pos]) :: !cps; incr pos; loop ()) in
      loop (); Q (L.rev !cps)
    end else begin
      let st = !pos in
      while !pos < n && s.[!pos] <> ' ' && s.[!pos] <> '(' && s.[!pos] <> ')' && s.[!pos] <> '\n' do incr pos done;
      A (S.sub s st (!pos - st))
    end in
  parse ()

let quote_str (l : BinNums.coq_N list) : string =
  let b = Buffer.create 16 in
  Buffer.add_char b '"';
  L.iter (fun c ->
    let i = int_of_n c in
    if i = 34 then Buffer.add_string b "\\\""
    else if i = 92 then Buffer.add_string b "\\\\"
    else if i >= 32 && i < 127 then Buffer.add_char b (Char.chr i)
    else Buffer.add_string b (Printf.sprintf "\\u{%x}" i)) l;
  Buffer.add_char b '"';
  Buffer.contents b

let handlers : (string, string list -> string) Hashtbl.t = Hashtbl.create 64
let register (cmd : string) (f : string list -> string) = Hashtbl.replace handlers cmd f
