(* The attribute loop of Element::parse / CustomAttribute::parse_until_tag_end (parse/tag.rs)
   at the level that decides termination: what each iteration consumes. The attribute parser
   itself is a parameter (it consumes at least the first name character). *)
From GE Require Export Model.Str.

Definition is_template_whitespace (c : N) : bool := (c =? 32) || ((9 <=? c) && (c <=? 13)).
(* Rust's char::is_whitespace (Unicode White_Space) *)
Definition is_unicode_whitespace (c : N) : bool :=
  is_template_whitespace c || (c =? 133) || (c =? 160) || (c =? 5760) || ((8192 <=? c) && (c <=? 8202))
  || (c =? 8232) || (c =? 8233) || (c =? 8239) || (c =? 8287) || (c =? 12288).
Definition is_name_start (c : N) : bool := is_alpha c || (c =? 95).

Fixpoint skip_ws (s : str) : str :=
  match s with c :: r => if is_template_whitespace c then skip_ws r else s | [] => [] end.

Inductive loop_result := Done (rest : str) (warnings : N) | OutOfFuel.

Section AttrLoop.
  Variable parse_attr : str -> str.          (* remaining input after one attribute *)
  Variable stop_ws : N -> bool.              (* the whitespace test of the recovery loop *)
  Variable element_tag : bool.               (* Element::parse also stops on '/' *)

  (* the recovery loop: consume characters that cannot start anything *)
  Fixpoint skip_invalid (s : str) : str :=
    match s with
    | c :: r => if (element_tag && (c =? 47)) || (c =? 62) || is_name_start c || stop_ws c then s else skip_invalid r
    | [] => []
    end.

  Fixpoint attr_loop (fuel : nat) (s : str) (warnings : N) : loop_result :=
    match fuel with
    | O => OutOfFuel
    | S f =>
      let s1 := skip_ws s in
      match s1 with
      | [] => Done [] warnings
      | c :: r =>
        if c =? 62 then Done s1 warnings
        else if element_tag && (c =? 47) then
          match r with
          | 62 :: _ => Done s1 warnings                       (* "/>" *)
          | _ => attr_loop f r (warnings + 1)                 (* stray '/' : consumed with a warning *)
          end
        else if is_name_start c then attr_loop f (parse_attr s1) warnings
        else attr_loop f (skip_invalid s1) (warnings + 1)
      end
    end.
End AttrLoop.
