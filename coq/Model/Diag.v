(* The diagnostic kinds of parse/mod.rs (ParseErrorKind, repr(u32) starting at 0x10001) and
   their levels: 1 Note, 2 Warn, 3 Error, 4 Fatal. *)
From GE Require Export Model.Str.

Definition level_table : list (N * N) := [
  (65537, 4);  (* UnexpectedCharacter *)
  (65538, 4);  (* UnexpectedExpressionCharacter *)
  (65539, 1);  (* UnknownMetaTag *)
  (65540, 4);  (* MissingExpressionEnd *)
  (65541, 3);  (* IllegalEntity *)
  (65542, 4);  (* IncompleteTag *)
  (65543, 2);  (* MissingEndTag *)
  (65544, 2);  (* IllegalNamePrefix *)
  (65545, 2);  (* InvalidAttributePrefix *)
  (65546, 2);  (* InvalidAttributeName *)
  (65547, 1);  (* InvalidAttributeValue *)
  (65548, 2);  (* InvalidAttribute *)
  (65549, 2);  (* DuplicatedAttribute *)
  (65550, 1);  (* DuplicatedName *)
  (65551, 1);  (* AvoidUppercaseLetters *)
  (65552, 1);  (* UnexpectedWhitespace *)
  (65553, 1);  (* MissingAttributeValue *)
  (65554, 1);  (* DataBindingNotAllowed *)
  (65555, 4);  (* InvalidIdentifier *)
  (65556, 1);  (* InvalidScopeName *)
  (65557, 3);  (* ChildNodesNotAllowed *)
  (65558, 3);  (* IllegalEscapeSequence *)
  (65559, 4);  (* IncompleteConditionExpression *)
  (65560, 4);  (* UnmatchedBracket *)
  (65561, 4);  (* UnmatchedParenthesis *)
  (65562, 3);  (* MissingModuleName *)
  (65563, 3);  (* MissingSourcePath *)
  (65564, 3);  (* UnsupportedSyntax *)
  (65565, 2);  (* ShouldQuoted *)
  (65566, 2);  (* EmptyExpression *)
  (65567, 2)   (* InvalidEndTag *)
].

Fixpoint level_of (code : N) (t : list (N * N)) : option N :=
  match t with
  | [] => None
  | (c, l) :: r => if c =? code then Some l else level_of code r
  end.

(* the structural defects of the property and the minimum level documented for each *)
Definition structural_defects : list (N * N) := [
  (65543, 2); (* missing end tag *)
  (65542, 4); (* unterminated tag *)
  (65540, 4); (* unterminated {{ *)
  (65538, 4); (* trailing garbage in a binding *)
  (65545, 2); (* unknown wx: directive / attribute prefix *)
  (65549, 2); (* duplicated attribute *)
  (65557, 3); (* children under a childless element *)
  (65563, 3); (* missing src *)
  (65562, 3)  (* missing module / is *)
].
