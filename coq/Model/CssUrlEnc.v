(* urlencoding 2.1.3 `encode` (percent-encoding of the UTF-8 bytes of a string, unreserved set
   [A-Za-z0-9-._~], upper-case hex) together with the UTF-8 encoder it is applied to, and the
   inverse functions used to state "the path is recoverable". *)
From GE Require Export Model.Str.
Open Scope N_scope.

(* UTF-8 bytes of one scalar value *)
Definition utf8_char (c : N) : list N :=
  if c <? 128 then [c]
  else if c <? 2048 then [192 + c / 64; 128 + c mod 64]
  else if c <? 65536 then [224 + c / 4096; 128 + (c / 64) mod 64; 128 + c mod 64]
  else [240 + c / 262144; 128 + (c / 4096) mod 64; 128 + (c / 64) mod 64; 128 + c mod 64].

Definition utf8_encode (s : str) : list N := flat_map utf8_char s.

Definition is_unreserved (b : N) : bool :=
  is_digit b || is_alpha b || (b =? 45) || (b =? 46) || (b =? 95) || (b =? 126).

Definition hex_upper (d : N) : N := if d <? 10 then 48 + d else 55 + d.

Definition pct_byte (b : N) : str :=
  if is_unreserved b then [b] else [37; hex_upper (b / 16); hex_upper (b mod 16)].

Definition pct_encode (bytes : list N) : str := flat_map pct_byte bytes.

(* urlencoding::encode(&str) *)
Definition url_encode (s : str) : str := pct_encode (utf8_encode s).

(* ---- inverse direction (used only in specifications and by the check's recovery test) ---- *)

Definition hex_upper_val (c : N) : option N :=
  if is_digit c then Some (c - 48)
  else if (65 <=? c) && (c <=? 70) then Some (c - 55)
  else None.

Fixpoint pct_decode (s : str) : option (list N) :=
  match s with
  | [] => Some []
  | c :: r =>
      if c =? 37 then
        match r with
        | h :: l :: r' =>
            match hex_upper_val h, hex_upper_val l, pct_decode r' with
            | Some a, Some b, Some t => Some ((a * 16 + b) :: t)
            | _, _, _ => None
            end
        | _ => None
        end
      else match pct_decode r with Some t => Some (c :: t) | None => None end
  end.

(* UTF-8 decoder for the output of utf8_encode (lengths are checked, continuation bytes are not
   validated) *)
Fixpoint utf8_decode (b : list N) : option str :=
  match b with
  | [] => Some []
  | b0 :: r =>
      if b0 <? 128 then option_map (cons b0) (utf8_decode r)
      else if b0 <? 224 then
        match r with
        | b1 :: r' => option_map (cons ((b0 - 192) * 64 + (b1 - 128))) (utf8_decode r')
        | _ => None
        end
      else if b0 <? 240 then
        match r with
        | b1 :: b2 :: r' =>
            option_map (cons ((b0 - 224) * 4096 + (b1 - 128) * 64 + (b2 - 128))) (utf8_decode r')
        | _ => None
        end
      else
        match r with
        | b1 :: b2 :: b3 :: r' =>
            option_map (cons ((b0 - 240) * 262144 + (b1 - 128) * 4096 + (b2 - 128) * 64 + (b3 - 128)))
                       (utf8_decode r')
        | _ => None
        end
  end.

Definition url_decode (s : str) : option str :=
  match pct_decode s with
  | Some b => utf8_decode b
  | None => None
  end.
