(* Model of escape.rs: gen_lit_str (Rust `{:?}` of a str, plus the `\x00` rule),
   escape_html_body / escape_html_quote, dash_to_camel. *)
From GE Require Export Model.Str Model.Hex.

Section GenLitStr.
  (* Which characters Rust's Debug prints as \u{..}: grapheme-extending or non-printable
     ones. Irrelevant to the round-trip theorem, so it is a parameter; the correspondence
     run reads it off the implementation. *)
  Variable esc_u : N -> bool.

  Definition starts_with_digit (s : str) : bool :=
    match s with c :: _ => is_digit c | [] => false end.

  Definition esc_one (c : N) (rest : str) : str :=
    if c =? 0 then (if starts_with_digit rest then [92; 120; 48; 48] else [92; 48])
    else if c =? 9 then [92; 116]
    else if c =? 13 then [92; 114]
    else if c =? 10 then [92; 110]
    else if c =? 92 then [92; 92]
    else if c =? 34 then [92; 34]
    else if esc_u c then [92; 117; 123] ++ to_hex c ++ [125]
    else [c].

  Fixpoint gen_body (s : str) : str :=
    match s with
    | [] => []
    | c :: r => esc_one c r ++ gen_body r
    end.

  Definition gen_lit_str (s : str) : str := 34 :: gen_body s ++ [34].
End GenLitStr.

Definition escape_html_body (s : str) : str :=
  flat_map (fun c => if c =? 60 then [38;108;116;59]            (* &lt; *)
                     else if c =? 34 then [38;113;117;111;116;59] (* &quot; *)
                     else if c =? 38 then [38;97;109;112;59]      (* &amp; *)
                     else [c]) s.

Definition escape_html_quote (s : str) : str :=
  flat_map (fun c => if c =? 34 then [38;113;117;111;116;59]
                     else if c =? 38 then [38;97;109;112;59]
                     else [c]) s.

Definition to_ascii_upper (c : N) : N := if is_lower c then c - 32 else c.
Definition to_ascii_lower (c : N) : N := if is_upper c then c + 32 else c.

Fixpoint dash_to_camel_aux (s : str) (next_upper : bool) : str :=
  match s with
  | [] => []
  | c :: r =>
      if c =? 45 then dash_to_camel_aux r true
      else if next_upper then to_ascii_upper c :: dash_to_camel_aux r false
      else c :: dash_to_camel_aux r false
  end.
Definition dash_to_camel (s : str) : str := dash_to_camel_aux s false.
