(* Model of escape.rs: gen_lit_str (Rust `{:?}` of a str, plus the `\x00` rule),
   escape_html_body / escape_html_quote, dash_to_camel. *)
From GE Require Export Model.Str Model.Hex.

Section GenLitStr.
  (* Which characters Rust's Debug prints as \u{..}: grapheme-extending or non-printable
     ones. Irrelevant to the round-trip theorem, so it is a parameter; the correspondence
     run reads it off the implementation. *)
  Variable esc_u : N -> bool.

  Definition starts_with_digit (s : str) : bool :=
    match s with c :: _ => is_digit c | [] => false end.

  Definition esc_one (c : N) (rest : str) : str :=
    if c =? 0 then (if starts_with_digit rest then [92; 120; 48; 48] else [92; 48])
    else if c =? 9 then [92; 116]
    else if c =? 13 then [92; 114]
    else if c =? 10 then [92; 110]
    else if c =? 92 then [92; 92]
    else if c =? 34 then [92; 34]
    else if esc_u c then [92; 117; 123] ++ to_hex c ++ [125]
    else [c].

  Fixpoint gen_body (s : str) : str :=
    match s with
    | [] => []
    | c :: r => esc_one c r ++ gen_body r
    end.

  Definition gen_lit_str (s : str) : str := 34 :: gen_body s ++ [34].
End GenLitStr.

(* escape_html_body: less-than, double quote and ampersand become entities, and every left brace
   that is followed by another left brace is written as a numeric entity, so that no double left
   brace is printed (the implementation does this in two passes; the result is the same because
   the entities neither contain nor end with a left brace) *)
Definition e_lt : str := [38;108;116;59].
Definition e_quot : str := [38;113;117;111;116;59].
Definition e_amp : str := [38;97;109;112;59].
Definition e_lbrace : str := [38;35;49;50;51;59].

Definition next_is_lbrace (r : str) : bool := match r with 123 :: _ => true | _ => false end.

Fixpoint escape_html_body (s : str) : str :=
  match s with
  | [] => []
  | c :: r =>
      (if c =? 60 then e_lt
       else if c =? 34 then e_quot
       else if c =? 38 then e_amp
       else if (c =? 123) && next_is_lbrace r then e_lbrace
       else [c]) ++ escape_html_body r
  end.

(* what the template parser reads back from such text (entity decoding of the four entities) *)
Fixpoint unescape_html (s : str) : str :=
  match s with
  | 38 :: 108 :: 116 :: 59 :: r => 60 :: unescape_html r
  | 38 :: 113 :: 117 :: 111 :: 116 :: 59 :: r => 34 :: unescape_html r
  | 38 :: 97 :: 109 :: 112 :: 59 :: r => 38 :: unescape_html r
  | 38 :: 35 :: 49 :: 50 :: 51 :: 59 :: r => 123 :: unescape_html r
  | c :: r => c :: unescape_html r
  | [] => []
  end.

Fixpoint has_double_lbrace (s : str) : bool :=
  match s with
  | 123 :: ((123 :: _) as r) => true
  | _ :: r => has_double_lbrace r
  | [] => false
  end.

Definition escape_html_quote (s : str) : str :=
  flat_map (fun c => if c =? 34 then [38;113;117;111;116;59]
                     else if c =? 38 then [38;97;109;112;59]
                     else [c]) s.

Definition to_ascii_upper (c : N) : N := if is_lower c then c - 32 else c.
Definition to_ascii_lower (c : N) : N := if is_upper c then c + 32 else c.

Fixpoint dash_to_camel_aux (s : str) (next_upper : bool) : str :=
  match s with
  | [] => []
  | c :: r =>
      if c =? 45 then dash_to_camel_aux r true
      else if next_upper then to_ascii_upper c :: dash_to_camel_aux r false
      else c :: dash_to_camel_aux r false
  end.
Definition dash_to_camel (s : str) : str := dash_to_camel_aux s false.
