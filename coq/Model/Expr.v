(* The expression AST of parse/expr.rs (without source locations) and its traversals:
   sub_expressions (the iterator), convert_scopes, binding-map key collection. *)
From GE Require Export Model.Str.

Inductive unop := UNot | UBitNot | UPos | UNeg | UTypeof | UVoid.
Inductive binop :=
  | BMul | BDiv | BRem | BAdd | BSub | BShl | BShr | BUshr
  | BLt | BGt | BLe | BGe | BInstanceof | BEq | BNe | BEqq | BNeq
  | BAnd | BXor | BOr | BLAnd | BLOr | BNullish.

Inductive expr :=
  | EScope (i : nat)
  | EField (x : str)
  | EToStr (e : expr)                 (* ToStringWithoutUndefined *)
  | EUndef | ENull
  | EStr (s : str)
  | EInt (z : Z)
  | EFloat (txt : str)                (* the f64 as Rust's Display prints it (supplied by the dump) *)
  | EBool (b : bool)
  | EObj (fs : ofields)
  | EArr (fs : afields)
  | EMember (o : expr) (k : str)
  | EIndex (o : expr) (k : expr)
  | ECall (f : expr) (args : exprs)
  | EUn (op : unop) (e : expr)
  | EBin (op : binop) (l r : expr)
  | ECond (c t f : expr)
with exprs := XNil | XCons (e : expr) (r : exprs)
with ofields := ONil | ONamed (k : str) (v : expr) (r : ofields) | OSpread (v : expr) (r : ofields)
with afields := ANil | ANormal (v : expr) (r : afields) | ASpread (v : expr) (r : afields) | AHole (r : afields).

Scheme expr_mut := Induction for expr Sort Prop
  with exprs_mut := Induction for exprs Sort Prop
  with ofields_mut := Induction for ofields Sort Prop
  with afields_mut := Induction for afields Sort Prop.
Combined Scheme expr_mutind from expr_mut, exprs_mut, ofields_mut, afields_mut.

Fixpoint exprs_to_list (l : exprs) : list expr :=
  match l with XNil => [] | XCons e r => e :: exprs_to_list r end.
Fixpoint ofields_values (l : ofields) : list expr :=
  match l with ONil => [] | ONamed _ v r => v :: ofields_values r | OSpread v r => v :: ofields_values r end.

(* ---- the sub-expression iterator (iter_sub_expr!), after the hole fix: holes are skipped ---- *)
Fixpoint afields_values (l : afields) : list expr :=
  match l with
  | ANil => []
  | ANormal v r => v :: afields_values r
  | ASpread v r => v :: afields_values r
  | AHole r => afields_values r
  end.

(* the iterator as it was before the fix: stops at the first hole *)
Fixpoint afields_values_until_hole (l : afields) : list expr :=
  match l with
  | ANil => []
  | ANormal v r => v :: afields_values_until_hole r
  | ASpread v r => v :: afields_values_until_hole r
  | AHole _ => []
  end.

Definition sub_exprs (e : expr) : list expr :=
  match e with
  | EScope _ | EField _ | EUndef | ENull | EStr _ | EInt _ | EFloat _ | EBool _ => []
  | EToStr v => [v]
  | EObj fs => ofields_values fs
  | EArr fs => afields_values fs
  | EMember o _ => [o]
  | EIndex o k => [o; k]
  | ECall f args => f :: exprs_to_list args
  | EUn _ v => [v]
  | EBin _ l r => [l; r]
  | ECond c t f => [c; t; f]
  end.

(* ---- convert_scopes: innermost (last) scope with that name wins ---- *)
Fixpoint find_last_index (name : str) (scopes : list str) (i : nat) (found : option nat) : option nat :=
  match scopes with
  | [] => found
  | s :: r => find_last_index name r (S i) (if str_eqb s name then Some i else found)
  end.
Definition lookup_scope (name : str) (scopes : list str) : option nat := find_last_index name scopes 0 None.

Fixpoint convert_scopes (scopes : list str) (e : expr) : expr :=
  match e with
  | EField x => match lookup_scope x scopes with Some i => EScope i | None => EField x end
  | EScope i => EScope i
  | EToStr v => EToStr (convert_scopes scopes v)
  | EUndef => EUndef | ENull => ENull | EStr s => EStr s | EInt z => EInt z | EFloat t => EFloat t | EBool b => EBool b
  | EObj fs => EObj (convert_scopes_o scopes fs)
  | EArr fs => EArr (convert_scopes_a scopes fs)
  | EMember o k => EMember (convert_scopes scopes o) k
  | EIndex o k => EIndex (convert_scopes scopes o) (convert_scopes scopes k)
  | ECall f args => ECall (convert_scopes scopes f) (convert_scopes_x scopes args)
  | EUn op v => EUn op (convert_scopes scopes v)
  | EBin op l r => EBin op (convert_scopes scopes l) (convert_scopes scopes r)
  | ECond c t f => ECond (convert_scopes scopes c) (convert_scopes scopes t) (convert_scopes scopes f)
  end
with convert_scopes_x (scopes : list str) (l : exprs) : exprs :=
  match l with XNil => XNil | XCons e r => XCons (convert_scopes scopes e) (convert_scopes_x scopes r) end
with convert_scopes_o (scopes : list str) (l : ofields) : ofields :=
  match l with
  | ONil => ONil
  | ONamed k v r => ONamed k (convert_scopes scopes v) (convert_scopes_o scopes r)
  | OSpread v r => OSpread (convert_scopes scopes v) (convert_scopes_o scopes r)
  end
with convert_scopes_a (scopes : list str) (l : afields) : afields :=
  match l with
  | ANil => ANil
  | ANormal v r => ANormal (convert_scopes scopes v) (convert_scopes_a scopes r)
  | ASpread v r => ASpread (convert_scopes scopes v) (convert_scopes_a scopes r)
  | AHole r => AHole (convert_scopes_a scopes r)
  end.

(* ---- data fields read by an expression, in traversal order (pre-order, as
        collect_binding_map_keys / disable_binding_map_keys visit them) ---- *)
Fixpoint fields_of (e : expr) : list str :=
  match e with
  | EField x => [x]
  | EScope _ | EUndef | ENull | EStr _ | EInt _ | EFloat _ | EBool _ => []
  | EToStr v => fields_of v
  | EObj fs => fields_of_o fs
  | EArr fs => fields_of_a fs
  | EMember o _ => fields_of o
  | EIndex o k => fields_of o ++ fields_of k
  | ECall f args => fields_of f ++ fields_of_x args
  | EUn _ v => fields_of v
  | EBin _ l r => fields_of l ++ fields_of r
  | ECond c t f => fields_of c ++ fields_of t ++ fields_of f
  end
with fields_of_x (l : exprs) : list str :=
  match l with XNil => [] | XCons e r => fields_of e ++ fields_of_x r end
with fields_of_o (l : ofields) : list str :=
  match l with
  | ONil => []
  | ONamed _ v r => fields_of v ++ fields_of_o r
  | OSpread v r => fields_of v ++ fields_of_o r
  end
with fields_of_a (l : afields) : list str :=
  match l with
  | ANil => []
  | ANormal v r => fields_of v ++ fields_of_a r
  | ASpread v r => fields_of v ++ fields_of_a r
  | AHole r => fields_of_a r
  end.
