(* Printing of the emitted-JavaScript tree, the precedence level the ECMAScript grammar assigns
   to each construct, and the grammar's requirement on operand positions. *)
From GE Require Export Model.ExprGen.

Section Print.
  Variable lit_str : str -> str.

  Fixpoint print_js (j : jx) : str :=
    match j with
    | JUndef => lit "undefined"
    | JNull => lit "null"
    | JBool b => if b then lit "true" else lit "false"
    | JInt z => z_to_str z
    | JFloat t => if str_eqb t (lit "inf") then lit "Infinity" else t
    | JStr s => lit_str s
    | JData x => lit "D." ++ x
    | JScope _ v => v
    | JToStr v => lit "Y(" ++ print_js v ++ lit ")"
    | JMember o k => lit "X(" ++ print_js o ++ lit ")." ++ k
    | JIndex o i => lit "X(" ++ print_js o ++ lit ")[" ++ i ++ lit "]"
    | JUn op v => unop_text op ++ print_js v
    | JBin op l r => print_js l ++ binop_text op ++ print_js r
    | JCondVar i t f => i ++ lit "?" ++ print_js t ++ lit ":" ++ print_js f
    | JNullishVar i r => i ++ lit "!=null?" ++ i ++ lit ":" ++ print_js r
    | JParen v => lit "(" ++ print_js v ++ lit ")"
    | JOpaque _ t => t
    end.
End Print.

(* the grammar production the construct belongs to, as a level of ExpressionLevel:
   literals / identifiers / parenthesised = primary; D.x, calls, member access = member / call;
   prefix operators = unary; binary operators by their table; both conditional forms = conditional *)
Definition jlevel (j : jx) : N :=
  match j with
  | JUndef | JNull | JBool _ | JInt _ | JFloat _ | JStr _ | JScope _ _ | JParen _ => L_Lit
  | JData _ | JToStr _ | JMember _ _ | JIndex _ _ => L_Member
  | JUn _ _ => L_Unary
  | JBin op _ _ => binop_level op
  | JCondVar _ _ _ | JNullishVar _ _ => L_Cond
  | JOpaque l _ => l
  end.

(* UnaryExpression : op UnaryExpression;  a left-associative binary production at level n takes a
   left operand of level <= n and a right operand of level < n; the branches of a conditional
   and the arguments of X( ) / Y( ) take any (comma-free) expression. A negative number literal
   is itself a unary expression. *)
Definition jlevel_lit_aware (j : jx) : N :=
  match j with
  | JInt (Zneg _) => L_Unary
  | _ => jlevel j
  end.

Fixpoint wf_prec (j : jx) : Prop :=
  match j with
  | JUn _ v => jlevel_lit_aware v <= L_Unary /\ wf_prec v
  | JBin op l r => jlevel_lit_aware l <= binop_level op /\ jlevel_lit_aware r < binop_level op /\ wf_prec l /\ wf_prec r
  | JToStr v | JParen v => wf_prec v
  | JMember o _ | JIndex o _ => wf_prec o
  | JCondVar _ t f => wf_prec t /\ wf_prec f
  | JNullishVar _ r => wf_prec r
  | _ => True
  end.
