(* ECMAScript lexical grammar fragments: double-quoted StringLiteral decoding (strict mode:
   legacy octal escapes are errors), IdentifierName, reserved words. *)
From GE Require Export Model.Str Model.Hex.

Definition is_line_terminator (c : N) : bool :=
  (c =? 10) || (c =? 13) || (c =? 8232) || (c =? 8233).

Definition single_escape (e : N) : option N :=
  if e =? 110 then Some 10        (* n *)
  else if e =? 116 then Some 9    (* t *)
  else if e =? 114 then Some 13   (* r *)
  else if e =? 98 then Some 8     (* b *)
  else if e =? 102 then Some 12   (* f *)
  else if e =? 118 then Some 11   (* v *)
  else None.

(* decodes the body of a "..." literal (after the opening quote); returns the string value
   (as code points; \uXXXX yields that code unit) and the text after the closing quote.
   None = not a (strict-mode) string literal. *)
Fixpoint js_str_body (fuel : nat) (s : str) : option (str * str) :=
  match fuel with
  | O => None
  | S f =>
    match s with
    | [] => None
    | c :: r =>
      if c =? 34 then Some ([], r)
      else if c =? 92 then
        match r with
        | [] => None
        | e :: r1 =>
          if e =? 48 then                       (* \0 : only when not followed by a digit *)
            match r1 with
            | d :: _ => if is_digit d then None
                        else option_map (fun p => (0 :: fst p, snd p)) (js_str_body f r1)
            | [] => None
            end
          else if is_digit e then None          (* \1..\9 : legacy, error in strict mode *)
          else if e =? 120 then                 (* \xHH *)
            match r1 with
            | h1 :: h2 :: r2 =>
              match hex_val h1, hex_val h2 with
              | Some a, Some b => option_map (fun p => ((a * 16 + b) :: fst p, snd p)) (js_str_body f r2)
              | _, _ => None
              end
            | _ => None
            end
          else if e =? 117 then                 (* \u{H+} or \uHHHH *)
            match r1 with
            | 123 :: r2 =>
              let '(v, cnt, r3) := parse_hex_run r2 0 0 in
              match r3 with
              | 125 :: r4 => if (0 <? cnt) && (v <=? 1114111)
                             then option_map (fun p => (v :: fst p, snd p)) (js_str_body f r4)
                             else None
              | _ => None
              end
            | h1 :: h2 :: h3 :: h4 :: r2 =>
              match hex_val h1, hex_val h2, hex_val h3, hex_val h4 with
              | Some a, Some b, Some c', Some d =>
                  option_map (fun p => ((((a * 16 + b) * 16 + c') * 16 + d) :: fst p, snd p)) (js_str_body f r2)
              | _, _, _, _ => None
              end
            | _ => None
            end
          else if is_line_terminator e then js_str_body f r1     (* line continuation *)
          else match single_escape e with
               | Some v => option_map (fun p => (v :: fst p, snd p)) (js_str_body f r1)
               | None => option_map (fun p => (e :: fst p, snd p)) (js_str_body f r1)
               end
        end
      else if (c =? 10) || (c =? 13) then None  (* raw LF / CR are not allowed; LS/PS are *)
      else option_map (fun p => (c :: fst p, snd p)) (js_str_body f r)
    end
  end.

Definition js_string_decode (s : str) : option (str * str) :=
  match s with
  | 34 :: r => js_str_body (length r) r
  | _ => None
  end.

(* IdentifierName restricted to ASCII: [A-Za-z_$][A-Za-z0-9_$]* *)
Definition is_id_start (c : N) : bool := is_alpha c || (c =? 95) || (c =? 36).
Definition is_id_part (c : N) : bool := is_id_start c || is_digit c.
Definition is_identifier_name (s : str) : bool :=
  match s with
  | [] => false
  | c :: r => is_id_start c && forallb is_id_part r
  end.
