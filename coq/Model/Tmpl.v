(* The template AST of parse/tag.rs (without locations). All values of an element that may
   hold a binding are kept in ONE list, in the order `for_each_value_mut` visits them
   (this is the order in which binding-map indices are assigned), each tagged with the
   runtime channel it is delivered through. *)
From GE Require Export Model.Str Model.Expr.

Inductive value := VStatic (s : str) | VDynamic (e : expr).

Inductive chan :=
  | ChAttr (name : str) (is_model : bool)    (* O(N,name,v[,path]) = R.r *)
  | ChClass | ChStyle | ChId
  | ChChange (name : str)                    (* R.p *)
  | ChSlotAttr                               (* `slot` attribute *)
  | ChEvent (name : str) (is_catch is_mut is_capture : bool)   (* R.v *)
  | ChData (name : str)                      (* R.d *)
  | ChMark (name : str)                      (* R.m *)
  | ChSlotValue (name : str).                (* R.l on <slot> *)

(* value = None : attribute without a value *)
Record vattr := { va_chan : chan; va_val : option value }.

(* static-only attributes *)
Inductive sattr :=
  | SWorklet (name value : str) | SGeneric (name value : str) | SExtraAttr (name value : str).

Inductive node :=
  | NText (v : value)
  | NElem (tag : str) (statics : list sattr) (vals : list vattr) (slot_refs : list (str * str)) (children : nodes)
  | NPure (slot : option value) (slot_refs : list (str * str)) (children : nodes)
  | NFor (lst : value) (item index key : str) (children : nodes)
  | NIf (branches : ifbranches) (has_else : bool) (else_body : nodes)
  | NTmplRef (target data : value)
  | NInclude (path : str)
  | NSlot (name : value) (vals : list vattr) (slot_refs : list (str * str))
  | NOther                                   (* comment / unknown meta tag *)
with nodes := NNil | NCons (n : node) (r : nodes)
with ifbranches := BNil | BCons (cond : value) (body : nodes) (r : ifbranches).

Scheme node_mut := Induction for node Sort Prop
  with nodes_mut := Induction for nodes Sort Prop
  with ifbranches_mut := Induction for ifbranches Sort Prop.
Combined Scheme node_mutind from node_mut, nodes_mut, ifbranches_mut.

Record script := { sc_module : str; sc_src : option str (* Some = external reference *) }.
Record template := {
  t_path : str;
  t_imports : list str;
  t_includes : list str;
  t_scripts : list script;
  t_subs : list (str * nodes);
  t_content : nodes }.
