(* JavaScript values and evaluation for the FRAGMENT of binding expressions used by the render
   specification: identifiers, member / index access (null-safe), literals (integers, strings,
   booleans, null, undefined), object / array literals without spreads and holes, ! && || ??
   ?: === !== and + on integers / strings, string conversion. Everything else evaluates to
   None ("outside the fragment": the case is skipped by the correspondence run; full expression
   semantics are the subject of C03). Numbers are integers. *)
From GE Require Export Model.Str Model.Lit Model.Hex Model.Expr.

Inductive val :=
  | VUndef | VNull
  | VBool (b : bool)
  | VNum (z : Z)
  | VStr (s : str)
  | VArr (l : list val)
  | VObj (l : list (str * val))
  | VFn (name : str).

Definition truthy (v : val) : bool :=
  match v with
  | VUndef | VNull => false
  | VBool b => b
  | VNum z => negb (Z.eqb z 0)
  | VStr s => match s with [] => false | _ => true end
  | VArr _ | VObj _ | VFn _ => true
  end.

Definition nullish (v : val) : bool := match v with VUndef | VNull => true | _ => false end.

Definition z_to_js_str (z : Z) : str :=
  match z with
  | Z0 => lit "0"
  | Zpos p => to_dec (Npos p)
  | Zneg p => 45 :: to_dec (Npos p)
  end.

(* String(v) for primitives; arrays join their elements with "," (null / undefined as ""),
   objects print as [object Object]; functions are outside the fragment *)
Fixpoint to_js_string (v : val) : option str :=
  match v with
  | VUndef => Some (lit "undefined")
  | VNull => Some (lit "null")
  | VBool true => Some (lit "true")
  | VBool false => Some (lit "false")
  | VNum z => Some (z_to_js_str z)
  | VStr s => Some s
  | VArr l =>
      let fix go (l : list val) (first : bool) : option str :=
        match l with
        | [] => Some []
        | x :: r =>
            match (match x with VUndef | VNull => Some [] | _ => to_js_string x end), go r false with
            | Some a, Some b => Some ((if first then [] else lit ",") ++ a ++ b)
            | _, _ => None
            end
        end in go l true
  | VObj _ => Some (lit "[object Object]")
  | VFn _ => None
  end.

(* the runtime helper Y: null / undefined render as the empty string *)
Definition display_string (v : val) : option str :=
  match v with VUndef | VNull => Some [] | _ => to_js_string v end.

Fixpoint obj_get (k : str) (l : list (str * val)) : val :=
  match l with
  | [] => VUndef
  | (k', v) :: r => if str_eqb k k' then v else obj_get k r
  end.

(* decimal index strings "0", "1", ... (canonical form only); the index stays in N so that a
   long digit string never becomes a unary number *)
Definition index_of_key (k : str) : option N :=
  match k with
  | [] => None
  | [48] => Some 0
  | 48 :: _ => None
  | _ => if forallb is_digit k
         then Some (fold_left (fun acc c => acc * 10 + (c - 48)) k 0)
         else None
  end.

Definition nth_N {A : Type} (i : N) (l : list A) : option A :=
  if i <? N.of_nat (length l) then nth_error l (N.to_nat i) else None.

(* X(o)[k] : null-safe property read *)
Definition get_prop (o : val) (k : str) : option val :=
  match o with
  | VUndef | VNull => Some VUndef
  | VObj l => Some (obj_get k l)
  | VArr l => if str_eqb k (lit "length") then Some (VNum (Z.of_nat (length l)))
              else match index_of_key k with
                   | Some i => Some (match nth_N i l with Some x => x | None => VUndef end)
                   | None => Some VUndef
                   end
  | VStr s => if str_eqb k (lit "length") then (if forallb (fun c => c <? 65536) s then Some (VNum (Z.of_nat (length s))) else None)
              else match index_of_key k with
                   | Some i => if forallb (fun c => c <? 65536) s
                               then Some (match nth_N i s with Some c => VStr [c] | None => VUndef end)
                               else None
                   | None => Some VUndef
                   end
  | VBool _ | VNum _ => Some VUndef
  | VFn _ => None
  end.

Definition prim_strict_eq (a b : val) : option bool :=
  match a, b with
  | VUndef, VUndef | VNull, VNull => Some true
  | VBool x, VBool y => Some (Bool.eqb x y)
  | VNum x, VNum y => Some (Z.eqb x y)
  | VStr x, VStr y => Some (str_eqb x y)
  | (VArr _ | VObj _ | VFn _), _ | _, (VArr _ | VObj _ | VFn _) => None   (* identity: outside the fragment *)
  | _, _ => Some false
  end.

Definition safe_int (z : Z) : bool := (Z.leb (-9007199254740991) z && Z.leb z 9007199254740991)%bool.

Record env := { e_data : val; e_scopes : list val }.

Definition data_field (d : val) (x : str) : option val := get_prop d x.

(* operators on evaluated operands (shared with the semantics of the emitted JavaScript,
   Model/JsSem.v). None = outside the fragment. *)
Definition int32 (z : Z) : bool := (Z.leb (-2147483648) z && Z.leb z 2147483647)%bool.

Definition typeof_val (v : val) : str :=
  match v with
  | VUndef => lit "undefined"
  | VNull | VArr _ | VObj _ => lit "object"
  | VBool _ => lit "boolean"
  | VNum _ => lit "number"
  | VStr _ => lit "string"
  | VFn _ => lit "function"
  end.

Definition un_val (op : unop) (x : val) : option val :=
  match op with
  | UNot => Some (VBool (negb (truthy x)))
  | UTypeof => Some (VStr (typeof_val x))
  | UVoid => Some VUndef
  | UNeg => match x with VNum z => if Z.eqb z 0 then None (* -0 *) else Some (VNum (- z)) | _ => None end
  | UPos => match x with VNum z => Some (VNum z) | _ => None end
  | UBitNot => match x with VNum z => if int32 z then Some (VNum (- z - 1)) else None | _ => None end
  end.

(* the operators that evaluate both operands *)
Definition bin_val (op : binop) (x y : val) : option val :=
  match op with
  | BEqq => option_map VBool (prim_strict_eq x y)
  | BNeq => option_map (fun b => VBool (negb b)) (prim_strict_eq x y)
  | BAdd =>
      match x, y with
      | VNum a, VNum b => if safe_int (a + b) then Some (VNum (a + b)) else None
      | VStr a, _ =>
          match y with
          | VStr _ | VNum _ | VBool _ | VUndef | VNull => option_map (fun s => VStr (a ++ s)) (to_js_string y)
          | _ => None
          end
      | _, VStr b =>
          match x with
          | VNum _ | VBool _ | VUndef | VNull => option_map (fun s => VStr (s ++ b)) (to_js_string x)
          | _ => None
          end
      | _, _ => None
      end
  | BSub => match x, y with
            | VNum a, VNum b => if safe_int (a - b) then Some (VNum (a - b)) else None
            | _, _ => None
            end
  | BMul => match x, y with
            | VNum a, VNum b =>
                if safe_int (a * b)
                then (if Z.eqb (a * b) 0 then (if (Z.ltb a 0 || Z.ltb b 0)%bool then None (* -0 *) else Some (VNum 0))
                      else Some (VNum (a * b)))
                else None
            | _, _ => None
            end
  | BLt => match x, y with VNum a, VNum b => Some (VBool (Z.ltb a b)) | _, _ => None end
  | BGt => match x, y with VNum a, VNum b => Some (VBool (Z.ltb b a)) | _, _ => None end
  | BLe => match x, y with VNum a, VNum b => Some (VBool (Z.leb a b)) | _, _ => None end
  | BGe => match x, y with VNum a, VNum b => Some (VBool (Z.leb b a)) | _, _ => None end
  | _ => None
  end.

Definition lift2 (f : val -> val -> option val) (a b : option val) : option val :=
  match a, b with Some x, Some y => f x y | _, _ => None end.

Definition index_val (o k : option val) : option val :=
  match o, k with
  | Some x, Some kv => match kv with
                       | VStr s => get_prop x s
                       | VNum z => get_prop x (z_to_js_str z)
                       | _ => None
                       end
  | _, _ => None
  end.

Section Eval.
  Variable ev : env.

  Fixpoint eval (e : expr) : option val :=
    match e with
    | EScope i => Some (nth i (e_scopes ev) VUndef)
    | EField x => data_field (e_data ev) x
    | EToStr v => match eval v with Some x => option_map VStr (display_string x) | None => None end
    | EUndef => Some VUndef
    | ENull => Some VNull
    | EStr s => Some (VStr s)
    | EInt z => if safe_int z then Some (VNum z) else None
    | EFloat _ => None
    | EBool b => Some (VBool b)
    | EObj fs => option_map VObj (eval_o fs)
    | EArr fs => option_map VArr (eval_a fs)
    | EMember o k => match eval o with Some x => get_prop x k | None => None end
    | EIndex o k => index_val (eval o) (eval k)
    | ECall _ _ => None
    | EUn op v => match eval v with Some x => un_val op x | None => None end
    | EBin BLOr l r => match eval l with Some x => if truthy x then Some x else eval r | None => None end
    | EBin BLAnd l r => match eval l with Some x => if truthy x then eval r else Some x | None => None end
    | EBin BNullish l r => match eval l with Some x => if nullish x then eval r else Some x | None => None end
    | EBin op l r => lift2 (bin_val op) (eval l) (eval r)
    | ECond c t f => match eval c with Some x => if truthy x then eval t else eval f | None => None end
    end
  with eval_o (l : ofields) : option (list (str * val)) :=
    match l with
    | ONil => Some []
    | ONamed k v r =>
        match eval v, eval_o r with
        | Some x, Some rest =>
            (* a later duplicate key overrides in JavaScript: keep the fragment to distinct keys *)
            if existsb (fun kv => str_eqb (fst kv) k) rest then None else Some ((k, x) :: rest)
        | _, _ => None
        end
    | OSpread _ _ => None
    end
  with eval_a (l : afields) : option (list val) :=
    match l with
    | ANil => Some []
    | ANormal v r => match eval v, eval_a r with Some x, Some rest => Some (x :: rest) | _, _ => None end
    | ASpread _ _ | AHole _ => None
    end.
End Eval.

(* the items of a wx:for list: (item, index) pairs *)
Definition list_items (v : val) : option (list (val * val)) :=
  match v with
  | VArr l => Some (combine l (map (fun i => VNum (Z.of_nat i)) (seq 0 (length l))))
  | VObj l =>
      (* Object.keys order = insertion order for non-index keys; index-like keys are outside the fragment *)
      if existsb (fun kv => match index_of_key (fst kv) with Some _ => true | None => false end) l then None
      else Some (map (fun kv => (snd kv, VStr (fst kv))) l)
  | VStr s => if forallb (fun c => c <? 65536) s
              then Some (combine (map (fun c => VStr [c]) s) (map (fun i => VNum (Z.of_nat i)) (seq 0 (length s))))
              else None
  | VNum z => if Z.ltb z 0 then Some []
              else if Z.leb z 1000
              then Some (map (fun i => (VNum (Z.of_nat i), VNum (Z.of_nat i))) (seq 0 (Z.to_nat z)))
              else None
  | VUndef | VNull | VBool _ => Some []
  | VFn _ => Some []
  end.
