(* Model of binding_map.rs: BindingMapCollector (field -> Mapped n | Disabled, overall flag)
   and BindingMapKeys. The HashMap is an association list; list_fields sorts by name. *)
From GE Require Export Model.Str Model.Expr.

Inductive bmfield := Mapped (n : N) | Disabled.
Record bmc := { overall_disabled : bool; bm_fields : list (str * bmfield) }.
Definition bmc_new : bmc := {| overall_disabled := false; bm_fields := [] |}.

Fixpoint assoc_get (k : str) (l : list (str * bmfield)) : option bmfield :=
  match l with [] => None | (k', v) :: r => if str_eqb k k' then Some v else assoc_get k r end.
Fixpoint assoc_set (k : str) (v : bmfield) (l : list (str * bmfield)) : list (str * bmfield) :=
  match l with
  | [] => [(k, v)]
  | (k', v') :: r => if str_eqb k k' then (k, v) :: r else (k', v') :: assoc_set k v r
  end.

Definition disable_all (b : bmc) : bmc := {| overall_disabled := true; bm_fields := bm_fields b |}.

(* add_field: entry().or_insert(Mapped 0); if Mapped x then (Some x, x+1) else None *)
Definition add_field (b : bmc) (f : str) : bmc * option N :=
  match assoc_get f (bm_fields b) with
  | None => ({| overall_disabled := overall_disabled b; bm_fields := assoc_set f (Mapped 1) (bm_fields b) |}, Some 0)
  | Some (Mapped x) => ({| overall_disabled := overall_disabled b; bm_fields := assoc_set f (Mapped (x + 1)) (bm_fields b) |}, Some x)
  | Some Disabled => (b, None)
  end.

Definition disable_field (b : bmc) (f : str) : bmc :=
  {| overall_disabled := overall_disabled b; bm_fields := assoc_set f Disabled (bm_fields b) |}.

Definition get_field (b : bmc) (f : str) : bool :=
  if overall_disabled b then false
  else match assoc_get f (bm_fields b) with Some (Mapped _) => true | _ => false end.

(* lexicographic order on code points = Rust's str ordering (UTF-8 bytes) *)
Fixpoint str_ltb (a b : str) : bool :=
  match a, b with
  | [], [] => false
  | [], _ :: _ => true
  | _ :: _, [] => false
  | x :: a', y :: b' => if x <? y then true else if y <? x then false else str_ltb a' b'
  end.

Fixpoint insert_sorted (x : str * N) (l : list (str * N)) : list (str * N) :=
  match l with
  | [] => [x]
  | y :: r => if str_ltb (fst x) (fst y) then x :: y :: r else y :: insert_sorted x r
  end.

Definition list_fields (b : bmc) : list (str * N) :=
  if overall_disabled b then []
  else fold_right insert_sorted []
         (flat_map (fun kv => match snd kv with Mapped n => [(fst kv, n)] | Disabled => [] end) (bm_fields b)).

(* collect_binding_map_keys / disable_binding_map_keys over the data fields of an expression *)
Definition collect_keys (b : bmc) (e : expr) : bmc * list (str * N) :=
  fold_left (fun acc f => let '(b', keys) := acc in
                          match add_field b' f with
                          | (b'', Some i) => (b'', keys ++ [(f, i)])
                          | (b'', None) => (b'', keys)
                          end) (fields_of e) (b, []).
Definition disable_keys (b : bmc) (e : expr) : bmc := fold_left disable_field (fields_of e) b.

Definition keys_is_empty (b : bmc) (keys : list (str * N)) : bool :=
  negb (existsb (fun k => get_field b (fst k)) keys).
