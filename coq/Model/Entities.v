(* Model of entities.rs `decode` for numeric character references; the named table
   (crate `entities`) is a parameter. Input is the whole entity text "&...;". *)
From GE Require Export Model.Str Model.Hex.

Definition is_scalar (n : N) : bool := (n <? 55296) || ((57343 <? n) && (n <? 1114112)).

Fixpoint digits_val (radix : N) (s : str) (acc : N) : option N :=
  match s with
  | [] => Some acc
  | c :: r =>
      match hex_val c with
      | Some v => if v <? radix then digits_val radix r (acc * radix + v) else None
      | None => None
      end
  end.

(* u32::from_str_radix: an optional leading '+' is accepted (never produced by the
   template parser, which only passes digits), then at least one digit *)
Definition parse_u32 (radix : N) (s : str) : option N :=
  let digits := match s with 43 :: (_ :: _) as r => r | _ => s end in
  match digits with
  | [] => None
  | _ => match digits_val radix digits 0 with
         | Some v => if v <? 4294967296 then Some v else None
         | None => None
         end
  end.

Section Named.
  Variable named : str -> option str.

  Definition entity_decode (e : str) : option str :=
    match rev e with
    | 59 :: _ =>                                    (* ends with ';' *)
        let len := length e in
        match e with
        | _ :: 35 :: 120 :: body =>                 (* "&#x" ... *)
            if Nat.ltb 4 len then
              match parse_u32 16 (removelast body) with
              | Some v => if is_scalar v then Some [v] else None
              | None => None
              end
            else (* "&#x;" : falls into the decimal branch with digits "x" *) None
        | _ :: 35 :: body =>
            if Nat.ltb 3 len then
              match parse_u32 10 (removelast body) with
              | Some v => if is_scalar v then Some [v] else None
              | None => None
              end
            else named e
        | _ => named e
        end
    | _ => None
    end.
End Named.
