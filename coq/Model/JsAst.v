(* The emitted JavaScript value expressions as a tree (ghost twin of the text the generator
   model prints: Model/ExprGen.v keeps one in `g_js` next to `g_val`). Parentheses are explicit
   nodes placed exactly where the generator writes them; `jlevel` is the precedence level the
   ECMAScript grammar gives the construct, `wf_prec` the grammar's requirement on operand
   positions (what makes the printed text parse back to this tree). *)
From GE Require Export Model.Str Model.Lit Model.Expr.

Inductive jx :=
  | JUndef | JNull
  | JBool (b : bool)
  | JInt (z : Z)
  | JFloat (text : str)
  | JStr (s : str)
  | JData (x : str)                       (* D.x *)
  | JScope (i : nat) (var : str)          (* a scope variable, printed by its generated name *)
  | JToStr (v : jx)                       (* Y(v) *)
  | JMember (o : jx) (k : str)            (* X(o).k *)
  | JIndex (o : jx) (ident : str)         (* X(o)[ident], ident a hoisted variable *)
  | JUn (op : unop) (v : jx)
  | JBin (op : binop) (l r : jx)
  | JCondVar (ident : str) (t f : jx)     (* ident?t:f *)
  | JNullishVar (ident : str) (r : jx)    (* ident!=null?ident:r *)
  | JParen (v : jx)
  | JOpaque (level : N) (text : str).     (* object / array literals and calls: text only *)
