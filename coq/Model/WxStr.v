(* String literals of binding expressions: the stringifier's printer (stringify/expr.rs,
   str_literal) and the expression parser's scanner (parse/expr.rs, string literal arm). *)
From GE Require Export Model.Str Model.Lit Model.Hex.

Definition hex2 (c : N) : str := [hex_digit (c / 16); hex_digit (c mod 16)].

(* str_literal: one character *)
Definition wx_esc_char (c : N) : str :=
  if c =? 34 then lit "\"""
  else if c =? 92 then [92; 92]
  else if c =? 10 then [92; 110]
  else if c =? 13 then [92; 114]
  else if c =? 9 then [92; 116]
  else if c =? 8 then [92; 98]
  else if c =? 12 then [92; 102]
  else if c =? 11 then [92; 118]
  else if c =? 0 then [92; 48]
  else if (c <? 32) || (c =? 127) then 92 :: 120 :: hex2 c
  else [c].

Definition wx_lit_str (s : str) : str := 34 :: flat_map wx_esc_char s ++ [34].

(* the scanner after the opening quote `q`: the decoded string and the input after the closing
   quote; None when the input ends first. \x / \u read 2 / 4 hex digits; when they do not form a
   scalar value the escape yields a space and the digits are read again as ordinary characters *)
Definition is_scalar16 (v : N) : bool := (v <? 55296) || (57343 <? v).

Fixpoint take_hex (n : nat) (s : str) (acc : N) : option N :=
  match n with
  | O => Some acc
  | S n' => match s with
            | c :: r => match hex_val c with Some v => take_hex n' r (acc * 16 + v) | None => None end
            | [] => None
            end
  end.

Fixpoint wx_scan (fuel : nat) (q : N) (s : str) : option (str * str) :=
  match fuel with
  | O => None
  | S f =>
      match s with
      | [] => None
      | c :: r =>
          if c =? q then Some ([], r)
          else if c =? 92 then
            match r with
            | [] => None
            | e :: r2 =>
                let simple (ch : N) := match wx_scan f q r2 with Some (t, rest) => Some (ch :: t, rest) | None => None end in
                (* a line continuation adds nothing: backslash + LF / LS / PS / CR / CR LF *)
                if (e =? 10) || (e =? 8232) || (e =? 8233) then wx_scan f q r2
                else if e =? 13 then wx_scan f q (match r2 with c2 :: r3 => if c2 =? 10 then r3 else r2 | [] => r2 end)
                else if e =? 114 then simple 13
                else if e =? 110 then simple 10
                else if e =? 116 then simple 9
                else if e =? 98 then simple 8
                else if e =? 102 then simple 12
                else if e =? 118 then simple 11
                else if e =? 48 then simple 0
                else if (e =? 120) || (e =? 117) then
                  let n := if e =? 120 then 2%nat else 4%nat in
                  match take_hex n r2 0 with
                  | Some v =>
                      if is_scalar16 v then
                        match wx_scan f q (skipn n r2) with Some (t, rest) => Some (v :: t, rest) | None => None end
                      else simple 32
                  | None => simple 32
                  end
                else simple e
            end
          else match wx_scan f q r with Some (t, rest) => Some (c :: t, rest) | None => None end
      end
  end.

Definition wx_str_decode (q : N) (s : str) : option (str * str) := wx_scan (S (length s)) q s.
