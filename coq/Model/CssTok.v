(* cssparser 0.34 tokens, the nested token tree the parser API exposes, and the token
   serializer (`ToCss for Token`, `serialization_type`, `needs_separator_when_before`):
   transliterated from cssparser/src/serializer.rs.  Strings are code points; every byte-level
   test of the Rust code concerns ASCII bytes only, so it carries over to code points. *)
From GE Require Export Model.Str Model.CssNum.
Open Scope N_scope.

Record pos := mkpos { p_line : N; p_col : N }.

(* numeric payload: has_sign, int_value, f32 bit pattern (of `value`, or of `unit_value` for
   percentages); `n_src` is a ghost: the source spelling of the numeric part for tokens read
   from the input, empty for synthesised tokens.  No model function inspects it. *)
Record cnum := mknum { n_sign : bool; n_int : option Z; n_bits : N; n_src : str }.

Inductive tok :=
| TIdent (s : str) | TAt (s : str) | THash (s : str) | TIdHash (s : str)
| TStr (s : str) | TUrl (s : str) | TDelim (c : N)
| TNum (n : cnum) | TPct (n : cnum) | TDim (n : cnum) (u : str)
| TWs (s : str) | TComment (s : str)
| TColon | TSemi | TComma
| TInclude | TDash | TPrefix | TSuffix | TSubstr | TCDO | TCDC
| TFunc (s : str) | TParen | TSquare | TCurly
| TBadUrl (s : str) | TBadStr (s : str)
| TCloseParen | TCloseSquare | TCloseCurly.

(* Input tree. A block node carries: opening token (TFunc/TParen/TSquare/TCurly), position of
   the opening token, the nodes of the body, the position at which the body ends (the closing
   bracket, or the end of the input when unclosed) and whether a closing bracket was present
   (ghost: used only by the well-formedness predicate of the specification). *)
Inductive node :=
| Leaf (t : tok) (p : pos)
| Block (open : tok) (p : pos) (body : list node) (endp : pos) (closed : bool).

Definition node_pos (n : node) : pos :=
  match n with Leaf _ p => p | Block _ p _ _ _ => p end.

Definition node_tok (n : node) : tok :=
  match n with Leaf t _ => t | Block t _ _ _ _ => t end.

Definition close_of (open : tok) : tok :=
  match open with
  | TCurly => TCloseCurly
  | TSquare => TCloseSquare
  | _ => TCloseParen
  end.

(* ---------------------------------------------------------------- serialization classes *)

Inductive sertype :=
| SNothing | SWhiteSpace | SAtKeywordOrHash | SNumber | SDimension | SPercentage | SUrlOrBadUrl
| SFunction | SIdent | SCDC | SDashMatch | SSubstringMatch | SOpenParen | SDelimHash | SDelimAt
| SDelimDotOrPlus | SDelimMinus | SDelimQuestion | SDelimAssorted | SDelimEquals | SDelimBar
| SDelimSlash | SDelimAsterisk | SDelimPercent | SOther.

Definition ser_type (t : tok) : sertype :=
  match t with
  | TIdent _ => SIdent
  | TAt _ | THash _ | TIdHash _ => SAtKeywordOrHash
  | TUrl _ | TBadUrl _ => SUrlOrBadUrl
  | TDelim c =>
      if c =? 35 then SDelimHash else if c =? 64 then SDelimAt
      else if (c =? 46) || (c =? 43) then SDelimDotOrPlus
      else if c =? 45 then SDelimMinus else if c =? 63 then SDelimQuestion
      else if (c =? 36) || (c =? 94) || (c =? 126) then SDelimAssorted
      else if c =? 37 then SDelimPercent else if c =? 61 then SDelimEquals
      else if c =? 124 then SDelimBar else if c =? 47 then SDelimSlash
      else if c =? 42 then SDelimAsterisk else SOther
  | TNum _ => SNumber
  | TPct _ => SPercentage
  | TDim _ _ => SDimension
  | TWs _ => SWhiteSpace
  | TComment _ => SDelimSlash
  | TDash => SDashMatch
  | TSubstr => SSubstringMatch
  | TCDC => SCDC
  | TFunc _ => SFunction
  | TParen => SOpenParen
  | TSquare | TCurly | TCloseParen | TCloseSquare | TCloseCurly | TStr _ | TBadStr _
  | TColon | TSemi | TComma | TCDO | TInclude | TPrefix | TSuffix => SOther
  end.

Definition needs_separator (a b : sertype) : bool :=
  match a with
  | SIdent =>
      match b with
      | SIdent | SFunction | SUrlOrBadUrl | SDelimMinus | SNumber | SPercentage | SDimension
      | SCDC | SOpenParen => true
      | _ => false
      end
  | SAtKeywordOrHash | SDimension =>
      match b with
      | SIdent | SFunction | SUrlOrBadUrl | SDelimMinus | SNumber | SPercentage | SDimension
      | SCDC => true
      | _ => false
      end
  | SDelimHash | SDelimMinus =>
      match b with
      | SIdent | SFunction | SUrlOrBadUrl | SDelimMinus | SNumber | SPercentage | SDimension => true
      | _ => false
      end
  | SNumber =>
      match b with
      | SIdent | SFunction | SUrlOrBadUrl | SDelimMinus | SNumber | SPercentage | SDelimPercent
      | SDimension => true
      | _ => false
      end
  | SDelimAt =>
      match b with SIdent | SFunction | SUrlOrBadUrl | SDelimMinus => true | _ => false end
  | SDelimDotOrPlus =>
      match b with SNumber | SPercentage | SDimension => true | _ => false end
  | SDelimAssorted | SDelimAsterisk =>
      match b with SDelimEquals => true | _ => false end
  | SDelimBar =>
      match b with SDelimEquals | SDelimBar | SDashMatch => true | _ => false end
  | SDelimSlash =>
      match b with SDelimAsterisk | SSubstringMatch => true | _ => false end
  | SNothing | SWhiteSpace | SPercentage | SUrlOrBadUrl | SFunction | SCDC | SOpenParen
  | SDashMatch | SSubstringMatch | SDelimQuestion | SDelimEquals | SDelimPercent | SOther => false
  end.

(* ---------------------------------------------------------------- text of a token *)

Definition hexd (d : N) : N := if d <? 10 then 48 + d else 87 + d.

(* hex_escape: "\" hex " " (one or two digits) *)
Definition hex_escape (b : N) : str :=
  if 15 <? b then [92; hexd (b / 16); hexd (b mod 16); 32] else [92; hexd b; 32].

Definition char_escape (b : N) : str := [92; b].

Definition is_name_char (c : N) : bool :=
  is_digit c || is_alpha c || (c =? 95) || (c =? 45).

Definition ser_name_char (c : N) : str :=
  if is_name_char c then [c]
  else if c =? 0 then [65533]
  else if 128 <=? c then [c]
  else if ((1 <=? c) && (c <=? 31)) || (c =? 127) then hex_escape c
  else char_escape c.

Definition ser_name (s : str) : str := flat_map ser_name_char s.

Definition ser_ident (s : str) : str :=
  match s with
  | [] => []
  | 45 :: 45 :: r => [45; 45] ++ ser_name r
  | [45] => [92; 45]
  | _ =>
      let '(pre, v) := match s with 45 :: r => ([45], r) | _ => ([], s) end in
      match v with
      | d :: r => if is_digit d then pre ++ hex_escape d ++ ser_name r else pre ++ ser_name v
      | [] => pre
      end
  end.

Definition ser_string_char (c : N) : str :=
  if c =? 34 then [92; 34]
  else if c =? 92 then [92; 92]
  else if c =? 0 then [65533]
  else if ((1 <=? c) && (c <=? 31)) || (c =? 127) then hex_escape c
  else [c].

Definition ser_string_body (s : str) : str := flat_map ser_string_char s.
Definition ser_string (s : str) : str := [34] ++ ser_string_body s ++ [34].

Definition ser_url_char (c : N) : str :=
  if (c <=? 32) || (c =? 127) then hex_escape c
  else if (c =? 40) || (c =? 41) || (c =? 34) || (c =? 39) || (c =? 92) then char_escape c
  else [c].

Definition ser_unquoted_url (s : str) : str := flat_map ser_url_char s.

(* Dimension unit: "e", "E", "e-…", "E-…" are written as \65 + name of the rest *)
Definition ser_unit (u : str) : str :=
  match u with
  | [c] => if (c =? 101) || (c =? 69) then [92; 54; 53; 32] else ser_ident u
  | c :: 45 :: r =>
      if (c =? 101) || (c =? 69) then [92; 54; 53; 32] ++ ser_name (45 :: r) else ser_ident u
  | _ => ser_ident u
  end.

Definition num_text (n : cnum) : str := write_numeric (n_bits n) (n_int n) (n_sign n).
(* percentages print `unit_value * 100.` *)
Definition pct_text (n : cnum) : str := write_numeric (f_mul (n_bits n) f_100) (n_int n) (n_sign n).

Definition ser_tok (t : tok) : str :=
  match t with
  | TIdent s => ser_ident s
  | TAt s => 64 :: ser_ident s
  | THash s => 35 :: ser_name s
  | TIdHash s => 35 :: ser_ident s
  | TStr s => ser_string s
  | TUrl s => [117; 114; 108; 40] ++ ser_unquoted_url s ++ [41]
  | TDelim c => [c]
  | TNum n => num_text n
  | TPct n => pct_text n ++ [37]
  | TDim n u => num_text n ++ ser_unit u
  | TWs s => s
  | TComment s => [47; 42] ++ s ++ [42; 47]
  | TColon => [58]
  | TSemi => [59]
  | TComma => [44]
  | TInclude => [126; 61]
  | TDash => [124; 61]
  | TPrefix => [94; 61]
  | TSuffix => [36; 61]
  | TSubstr => [42; 61]
  | TCDO => [60; 33; 45; 45]
  | TCDC => [45; 45; 62]
  | TFunc s => ser_ident s ++ [40]
  | TParen => [40]
  | TSquare => [91]
  | TCurly => [123]
  | TBadUrl s => [117; 114; 108; 40] ++ s ++ [41]
  | TBadStr s => 34 :: ser_string_body s
  | TCloseParen => [41]
  | TCloseSquare => [93]
  | TCloseCurly => [125]
  end.

(* ---------------------------------------------------------------- lengths *)

Definition utf16_units (c : N) : N := if 65536 <=? c then 2 else 1.
Fixpoint utf16_length (s : str) : N :=
  match s with [] => 0 | c :: r => utf16_units c + utf16_length r end.

Definition tok_eqb_ident (t : tok) (name : str) : bool :=
  match t with TIdent s => str_eqb s name | _ => false end.

Definition is_ws_or_comment (t : tok) : bool :=
  match t with TWs _ | TComment _ => true | _ => false end.
Definition is_comment (t : tok) : bool :=
  match t with TComment _ => true | _ => false end.
Definition is_ws (t : tok) : bool :=
  match t with TWs _ => true | _ => false end.
