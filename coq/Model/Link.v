(* Linking across files (C13): which file's definition a <template is="name"> of a file renders.
   Local definitions first, then the imports from the LAST one to the first (the generated code
   merges the imported tables in source order with Object.assign and the local table last).
   Imports are not transitive: only the templates the target file defines itself are visible. *)
From GE Require Export Model.Str Model.Path.

(* the registry: normalised path of each registered file and the template names it defines *)
Definition registry := list (str * list str).

Fixpoint reg_defs (reg : registry) (path : str) : option (list str) :=
  match reg with
  | [] => None
  | (p, defs) :: r => if str_eqb p path then Some defs else reg_defs r path
  end.

Definition import_target (base rel : str) : option str := dep_of false base rel.

(* the last import (in source order) whose registered target defines `name` *)
Fixpoint owner_in_imports (reg : registry) (base : str) (imports : list str) (name : str) : option str :=
  match imports with
  | [] => None
  | rel :: rest =>
      match owner_in_imports reg base rest name with
      | Some p => Some p
      | None =>
          match import_target base rel with
          | Some p => match reg_defs reg p with
                      | Some defs => if mem_str name defs then Some p else None
                      | None => None
                      end
          | None => None
          end
      end
  end.

Definition template_owner (reg : registry) (base : str) (local_defs imports : list str) (name : str) : option str :=
  if mem_str name local_defs then Some base else owner_in_imports reg base imports name.
