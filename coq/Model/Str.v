(* Strings as lists of Unicode scalar values (N); basic operations used by every model. *)
From Coq Require Export List NArith ZArith Bool Lia.
Export ListNotations.
Open Scope N_scope.

Definition str := list N.

Fixpoint str_eqb (a b : str) : bool :=
  match a, b with
  | [], [] => true
  | x :: a', y :: b' => N.eqb x y && str_eqb a' b'
  | _, _ => false
  end.

Fixpoint starts_with (p s : str) : bool :=
  match p, s with
  | [], _ => true
  | x :: p', y :: s' => N.eqb x y && starts_with p' s'
  | _ :: _, [] => false
  end.

(* Rust's `str::split(c)`: always at least one piece. *)
Fixpoint split_aux (c : N) (s : str) (cur : str) : list str :=
  match s with
  | [] => [rev cur]
  | x :: r => if N.eqb x c then rev cur :: split_aux c r [] else split_aux c r (x :: cur)
  end.
Definition split (c : N) (s : str) : list str := split_aux c s [].

(* Rust's `[&str]::join(sep)`. *)
Fixpoint join (sep : str) (l : list str) : str :=
  match l with
  | [] => []
  | [a] => a
  | a :: r => a ++ sep ++ join sep r
  end.

Definition mem_str (x : str) (l : list str) : bool := existsb (str_eqb x) l.

(* ASCII helpers *)
Definition is_digit (c : N) : bool := (48 <=? c) && (c <=? 57).
Definition is_lower (c : N) : bool := (97 <=? c) && (c <=? 122).
Definition is_upper (c : N) : bool := (65 <=? c) && (c <=? 90).
Definition is_alpha (c : N) : bool := is_lower c || is_upper c.
