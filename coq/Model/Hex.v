(* Hexadecimal printing / parsing of N (lowercase digits, no leading zeros, "0" for zero),
   as Rust's `{:x}` does inside `\u{...}`. Six digits of fuel cover every code point. *)
From GE Require Export Model.Str.

Definition hex_digit (d : N) : N := if d <? 10 then 48 + d else 87 + d.

Definition hex_val (c : N) : option N :=
  if is_digit c then Some (c - 48)
  else if (97 <=? c) && (c <=? 102) then Some (c - 87)
  else if (65 <=? c) && (c <=? 70) then Some (c - 55)
  else None.

Fixpoint hex_aux (fuel : nat) (n : N) (acc : str) : str :=
  match fuel with
  | O => acc
  | S f =>
      let acc' := hex_digit (n mod 16) :: acc in
      if n / 16 =? 0 then acc' else hex_aux f (n / 16) acc'
  end.

(* valid for n < 16^8 *)
Definition to_hex (n : N) : str := hex_aux 8 n [].

(* parse a maximal run of hex digits: returns (value, number of digits, rest) *)
Fixpoint parse_hex_run (s : str) (acc : N) (cnt : N) : N * N * str :=
  match s with
  | c :: r => match hex_val c with
              | Some v => parse_hex_run r (acc * 16 + v) (cnt + 1)
              | None => (acc, cnt, s)
              end
  | [] => (acc, cnt, s)
  end.

Fixpoint dec_aux (fuel : nat) (n : N) (acc : str) : str :=
  match fuel with
  | O => acc
  | S f =>
      let acc' := (48 + n mod 10) :: acc in
      if n / 10 =? 0 then acc' else dec_aux f (n / 10) acc'
  end.
(* valid for n < 10^20 *)
Definition to_dec (n : N) : str := dec_aux 20 n [].
