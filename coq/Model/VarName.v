(* Model of proc_gen/mod.rs: get_var_name (identifier counter -> name) and the
   allocator next_ident_name that skips forbidden names. *)
From GE Require Export Model.Str.

(* 'A'..'Z' 'a'..'z' *)
Definition start_char (i : N) : N := if i <? 26 then 65 + i else 97 + (i - 26).
(* '_' '0'..'9' 'A'..'Z' 'a'..'z' *)
Definition follow_char (i : N) : N :=
  if i =? 0 then 95 else if i <? 11 then 48 + (i - 1) else if i <? 37 then 65 + (i - 11) else 97 + (i - 37).

(* `while var_id > 0 { push(CHARS[var_id % 63]); var_id /= 63 }` ; fuel = bit size of the id *)
Fixpoint var_name_rest (fuel : nat) (id : N) : str :=
  match fuel with
  | O => []
  | S f => if id =? 0 then [] else follow_char (id mod 63) :: var_name_rest f (id / 63)
  end.

Definition var_name (id : N) : str :=
  start_char (id mod 52) :: var_name_rest (N.size_nat id) (id / 52).

Definition s_ (l : list N) : str := l.
(* VAR_NAME_FORBIDDEN, in the order of the Rust array *)
Definition forbidden : list str := [
  [98;114;101;97;107]; [99;97;115;101]; [99;97;116;99;104]; [99;108;97;115;115]; [99;111;110;115;116];
  [99;111;110;116;105;110;117;101]; [100;101;98;117;103;103;101;114]; [100;101;102;97;117;108;116];
  [100;101;108;101;116;101]; [100;111]; [101;108;115;101]; [101;110;117;109]; [101;120;112;111;114;116];
  [101;120;116;101;110;100;115]; [102;97;108;115;101]; [102;105;110;97;108;108;121]; [102;111;114];
  [102;117;110;99;116;105;111;110]; [105;102]; [105;109;112;111;114;116]; [105;110];
  [105;110;115;116;97;110;99;101;111;102]; [110;101;119]; [110;117;108;108]; [114;101;116;117;114;110];
  [115;117;112;101;114]; [115;119;105;116;99;104]; [116;104;105;115]; [116;104;114;111;119]; [116;114;117;101];
  [116;114;121]; [116;121;112;101;111;102]; [118;97;114]; [118;111;105;100]; [119;104;105;108;101];
  [119;105;116;104]; [121;105;101;108;100]; [108;101;116]; [115;116;97;116;105;99];
  [105;109;112;108;101;109;101;110;116;115]; [105;110;116;101;114;102;97;99;101]; [112;97;99;107;97;103;101];
  [112;114;105;118;97;116;101]; [112;114;111;116;101;99;116;101;100]; [112;117;98;108;105;99];
  [97;119;97;105;116]; [101;118;97;108]; [97;114;103;117;109;101;110;116;115];
  [117;110;100;101;102;105;110;101;100]; [78;97;78]; [73;110;102;105;110;105;116;121];
  [79;98;106;101;99;116]; [65;114;114;97;121]; [83;116;114;105;110;103]; [69;114;114;111;114];
  [114;101;113;117;105;114;101]; [101;120;112;111;114;116;115]; [109;111;100;117;108;101]; [97;115;121;110;99]
].

Definition is_forbidden (s : str) : bool := mem_str s forbidden.

(* `loop { id = inc; inc += 1; if !FORBIDDEN.contains(name(id)) return name }` ;
   the fuel (|forbidden| + 1 suffices, proved) bounds the loop; None = out of fuel *)
Fixpoint next_ident_name (fuel : nat) (id : N) : option (str * N) :=
  match fuel with
  | O => None
  | S f => let n := var_name id in
           if is_forbidden n then next_ident_name f (id + 1) else Some (n, id + 1)
  end.

Definition alloc_fuel : nat := S (length forbidden).
Definition alloc (id : N) : option (str * N) := next_ident_name alloc_fuel id.

(* ECMAScript reserved words (incl. strict mode) and the restricted bindings eval/arguments:
   the subset of `forbidden` that makes a declaration a SyntaxError *)
Definition js_reserved : list str := firstn 48 forbidden.
