(* Model of glass-easel-stylesheet-compiler/src/lib.rs: the walkers over cssparser's nested
   token stream.  The parser cursor is a list of sibling nodes plus the position at which the
   list ends; `StepParser::position()` is the position of the first remaining node (or the end
   position), which is exactly the tokenizer location because tokens are contiguous.

   Faithful to the code that exists (after the fix: commits eb11eee 412b5df c88801e 1dd75dd
   f5fc923), including:
   - `next_including_whitespace` skips comments itself and records the position of the token;
   - math functions (calc/min/max/clamp, any letter case) are walked by convert_rpx_in_block in
     calc mode, which is inherited by parentheses nested in them; every other function nested in
     a selector-context block stays in convert_class_names_and_rpx_in_block;
   - `contain_rule_list` = {media, supports, document, -moz-document, layer, container, scope, starting-style},
     compared ASCII-case-insensitively;
   - `@import` accepts a string, a url token or `url("...")`;
   - output side effects that survive a failed `try_parse` in the @import branch;
   - `@import ... layer(a.b)`: the layer name is written by the value walker (fix 661ebe6);
   - `:host` detection: the token after `:` is read including whitespace (fix bdd7adf), and the
     detection returns early at end of input; `host` in any letter case (fix a899a19); a second
     scan finds `:host` later among the top-level tokens of the prelude (fix 1041599);
   - `@import` / `layer(` / `supports(` in any letter case (fix 33fc779), the bare `layer` keyword
     directly after the target (fix 89a064d);
   - `at_file_start` survives `@import` / `@charset` rules and is false in nested rule lists
     (fix 73ca189); `-moz-document` is rule-bearing (fix 5b11f39). *)
From GE Require Export Model.CssOut Model.CssUrlEnc.
Open Scope N_scope.

Record opts := mkopts {
  class_prefix : option str;
  class_prefix_sign : option str;
  rpx_ratio : N;                (* f32 bit pattern *)
  import_sign : option str;
  convert_host : bool;
  host_is : option str;
}.

Record warning := mkwarn { w_kind : N; w_pos : pos }.
Definition W_UNEXPECTED : N := 65537.
Definition W_IMPORT_POS : N := 65538.
Definition W_HOST : N := 65539.

Record wstate := mkw {
  w_normal : ostate;
  w_low : ostate;
  w_using_low : bool;
  w_warns : list warning;              (* reversed *)
  w_stack : list (str * list tok);     (* cur_at_rule_stacks, outermost first *)
  w_oof : bool;                        (* model fuel exhausted (never on well-sized fuel) *)
}.

Definition w_init : wstate := mkw o_init o_init false [] [] false.

Definition cur_out (st : wstate) : ostate := if w_using_low st then w_low st else w_normal st.

Definition emit (st : wstate) (o : op) : wstate :=
  if w_using_low st
  then mkw (w_normal st) (apply_op (w_low st) o) true (w_warns st) (w_stack st) (w_oof st)
  else mkw (apply_op (w_normal st) o) (w_low st) false (w_warns st) (w_stack st) (w_oof st).

Definition emit_low (st : wstate) (o : op) : wstate :=
  mkw (w_normal st) (apply_op (w_low st) o) (w_using_low st) (w_warns st) (w_stack st) (w_oof st).

Definition set_using_low (st : wstate) (b : bool) : wstate :=
  mkw (w_normal st) (w_low st) b (w_warns st) (w_stack st) (w_oof st).

Definition set_stack (st : wstate) (s : list (str * list tok)) : wstate :=
  mkw (w_normal st) (w_low st) (w_using_low st) (w_warns st) s (w_oof st).

Definition warn (st : wstate) (k : N) (p : pos) : wstate :=
  mkw (w_normal st) (w_low st) (w_using_low st) (mkwarn k p :: w_warns st) (w_stack st) (w_oof st).

Definition set_oof (st : wstate) : wstate :=
  mkw (w_normal st) (w_low st) (w_using_low st) (w_warns st) (w_stack st) true.

Definition tok_at (st : wstate) (t : tok) (p : pos) (src : option tok) : wstate := emit st (OpTok t p src).
Definition tok_sp (st : wstate) (t : tok) (p : pos) (src : option tok) : wstate := emit st (OpTokSP t p src).

(* ---------------------------------------------------------------- cursor helpers *)

Fixpoint skip_ws (l : list node) : list node :=
  match l with
  | n :: r => if is_ws_or_comment (node_tok n) then skip_ws r else l
  | [] => []
  end.

Fixpoint skip_comments (l : list node) : list node :=
  match l with
  | n :: r => if is_comment (node_tok n) then skip_comments r else l
  | [] => []
  end.

Definition cur_pos (l : list node) (endp : pos) : pos :=
  match l with n :: _ => node_pos n | [] => endp end.

(* tokenizer location right after consuming the head token `n` (a block that is not entered
   leaves the tokenizer just after its opening bracket) *)
Definition pos_after (n : node) (r : list node) (endp : pos) : pos :=
  match n with
  | Leaf _ _ => cur_pos r endp
  | Block _ _ body be _ => cur_pos body be
  end.

Fixpoint first_noncomment (l : list node) : option tok :=
  match l with
  | n :: r => if is_comment (node_tok n) then first_noncomment r else Some (node_tok n)
  | [] => None
  end.

Definition s_calc : str := [99; 97; 108; 99].
Definition s_rpx : str := [114; 112; 120].
Definition s_vw : str := [118; 119].
Definition s_host : str := [104; 111; 115; 116].
Definition s_import : str := [105; 109; 112; 111; 114; 116].
Definition s_layer : str := [108; 97; 121; 101; 114].
Definition s_supports : str := [115; 117; 112; 112; 111; 114; 116; 115].
Definition s_media : str := [109; 101; 100; 105; 97].
Definition s_document : str := [100; 111; 99; 117; 109; 101; 110; 116].
Definition s_moz_document : str := [45; 109; 111; 122; 45] ++ s_document.
Definition s_charset : str := [99; 104; 97; 114; 115; 101; 116].
Definition s_wx_host : str := [119; 120; 45; 104; 111; 115; 116].
Definition s_is : str := [105; 115].
Definition s_dashdash : str := [45; 45].

Definition lower (c : N) : N := if is_upper c then c + 32 else c.
(* str::eq_ignore_ascii_case *)
Definition str_eqb_ci (a b : str) : bool := str_eqb (map lower a) (map lower b).

Definition s_min : str := [109; 105; 110].
Definition s_max : str := [109; 97; 120].
Definition s_clamp : str := [99; 108; 97; 109; 112].
Definition s_url : str := [117; 114; 108].
Definition s_container : str := [99; 111; 110; 116; 97; 105; 110; 101; 114].
Definition s_scope : str := [115; 99; 111; 112; 101].
Definition s_starting_style : str := [115; 116; 97; 114; 116; 105; 110; 103; 45; 115; 116; 121; 108; 101].

(* lib.rs is_math_function *)
(* calc, min, max, clamp and the other math functions of CSS Values 4 (their arguments are calc sums), the vendor spellings *)
Definition math_names : list str :=
  [(* calc *) [99; 97; 108; 99];
   (* min *) [109; 105; 110];
   (* max *) [109; 97; 120];
   (* clamp *) [99; 108; 97; 109; 112];
   (* round *) [114; 111; 117; 110; 100];
   (* mod *) [109; 111; 100];
   (* rem *) [114; 101; 109];
   (* sin *) [115; 105; 110];
   (* cos *) [99; 111; 115];
   (* tan *) [116; 97; 110];
   (* asin *) [97; 115; 105; 110];
   (* acos *) [97; 99; 111; 115];
   (* atan *) [97; 116; 97; 110];
   (* atan2 *) [97; 116; 97; 110; 50];
   (* pow *) [112; 111; 119];
   (* sqrt *) [115; 113; 114; 116];
   (* hypot *) [104; 121; 112; 111; 116];
   (* log *) [108; 111; 103];
   (* exp *) [101; 120; 112];
   (* abs *) [97; 98; 115];
   (* sign *) [115; 105; 103; 110];
   (* calc-size *) [99; 97; 108; 99; 45; 115; 105; 122; 101];
   (* -webkit-calc *) [45; 119; 101; 98; 107; 105; 116; 45; 99; 97; 108; 99];
   (* -moz-calc *) [45; 109; 111; 122; 45; 99; 97; 108; 99]].
Definition is_math_name (s : str) : bool := existsb (str_eqb_ci s) math_names.
Definition is_math_fn (t : tok) : bool :=
  match t with TFunc s => is_math_name s | _ => false end.

(* calc mode of the body of a block met by convert_rpx_in_block in mode `in_calc` *)
Definition child_calc (in_calc : bool) (open : tok) : bool :=
  match open with
  | TFunc s => is_math_name s || in_calc
  | TParen => in_calc
  | _ => false
  end.

Definition is_plus_minus (t : option tok) : bool :=
  match t with Some (TDelim c) => (c =? 43) || (c =? 45) | _ => false end.

Definition is_curly (t : tok) : bool := match t with TCurly => true | _ => false end.

Definition keep_first (pend : option pos) (p : pos) : option pos :=
  match pend with None => Some p | _ => pend end.

(* ---------------------------------------------------------------- token writers *)

Definition write_maybe_class_name (o : opts) (st : wstate) (s : str) (p : pos) (in_class : bool) : wstate :=
  let st1 := if in_class then
               match class_prefix_sign o with
               | Some c => tok_at st (TComment c) p None
               | None => st
               end
             else st in
  match in_class, class_prefix o with
  | true, Some pre => tok_sp st1 (TIdent (pre ++ s_dashdash ++ s)) p (Some (TIdent s))
  | _, _ => tok_sp st1 (TIdent s) p None
  end.

Definition write_maybe_rpx_dimension (o : opts) (st : wstate) (n : cnum) (u : str) (p : pos) : wstate :=
  if str_eqb u s_rpx then
    let nv := rpx_new_value (n_bits n) (rpx_ratio o) in
    tok_at st (TDim (mknum (n_sign n) (rpx_new_int nv) nv []) s_vw) p (Some (TDim n u))
  else tok_at st (TDim n u) p None.

(* ---------------------------------------------------------------- convert_rpx_in_block *)

Fixpoint rpx_body (o : opts) (in_calc : bool) (l : list node) (prev : option tok)
                  (st : wstate) {struct l} : wstate :=
  match l with
  | [] => st
  | n :: r =>
      let t := node_tok n in
      if is_comment t then
        rpx_body o in_calc r prev st
      else if is_ws t && negb in_calc then rpx_body o in_calc r prev st
      else
        let p := node_pos n in
        let st' :=
          match n with
          | Block open _ body _ _ =>
              let st1 := tok_at st open p None in
              let st2 := rpx_body o (child_calc in_calc open) body None st1 in
              tok_at st2 (close_of open) p None
          | Leaf (TDim nm u) _ => write_maybe_rpx_dimension o st nm u p
          | Leaf (TWs _) _ =>
              if is_plus_minus (first_noncomment r) || is_plus_minus prev
              then tok_at st (TWs sp) p None else st
          | Leaf t' _ => tok_at st t' p None
          end in
        rpx_body o in_calc r (Some t) st'
  end.

(* ---------------------------------------------------------------- convert_class_names_and_rpx_in_block *)

Fixpoint cn_body (o : opts) (l : list node) (lead in_class has_ws : bool)
                 (st : wstate) {struct l} : wstate :=
  match l with
  | [] => st
  | n :: r =>
      let t := node_tok n in
      if is_comment t then
        cn_body o r lead in_class has_ws st
      else if is_ws t && lead then cn_body o r true in_class has_ws st
      else
        let p := node_pos n in
        let st0 := if is_curly t || is_ws t then st
                   else if has_ws then tok_sp st (TWs sp) p None else st in
        (* (state, in_class, has_whitespace) after this token *)
        let res :=
          match n with
          | Block open _ body _ _ =>
              let st1 := tok_at st0 open p None in
              let st2 := if is_math_fn open
                         then rpx_body o true body None st1
                         else cn_body o body true false false st1 in
              (tok_at st2 (close_of open) p None, false, false)
          | Leaf (TDelim c) _ => (tok_at st0 t p None, c =? 46, false)
          | Leaf (TIdent s) _ => (write_maybe_class_name o st0 s p in_class, false, false)
          | Leaf (TDim nm u) _ => (write_maybe_rpx_dimension o st0 nm u p, false, false)
          | Leaf (TWs _) _ => (st0, false, true)
          | Leaf t' _ => (tok_at st0 t' p None, false, false)
          end in
        cn_body o r false (snd (fst res)) (snd res) (fst (fst res))
  end.

(* ---------------------------------------------------------------- parse_qualified_rule *)

(* main loop; returns the remaining siblings *)
Fixpoint qr_loop (o : opts) (l : list node) (in_class has_ws : bool)
                 (st : wstate) {struct l} : list node * wstate :=
  match l with
  | [] => ([], st)
  | n :: r =>
      let t := node_tok n in
      if is_comment t then qr_loop o r in_class has_ws st
      else
        let p := node_pos n in
        let st0 := if is_curly t || is_ws t then st
                   else if has_ws then tok_sp st (TWs sp) p None else st in
        match n with
        | Block TCurly _ body _ _ =>
            let st1 := tok_at st0 TCurly p None in
            let st2 := rpx_body o false body None st1 in
            (r, tok_at st2 TCloseCurly p None)
        | Block open _ body _ _ =>
            let st1 := tok_at st0 open p None in
            let st2 := cn_body o body true false false st1 in
            qr_loop o r false false (tok_at st2 (close_of open) p None)
        | Leaf (TDelim c) _ =>
            if c =? 46 then qr_loop o r true false (tok_sp st0 t p None)
            else qr_loop o r false false (tok_sp st0 t p None)
        | Leaf (TIdent s) _ => qr_loop o r false false (write_maybe_class_name o st0 s p in_class)
        | Leaf (TWs _) _ => qr_loop o r false true st0
        | Leaf t' _ => qr_loop o r false false (tok_sp st0 t' p None)
        end
  end.

(* `:host` scan after the `host` ident / function: find the `{}` block, remember the first
   position after a token that is not it *)
Fixpoint host_scan (l : list node) (endp : pos) (invalid : option pos)
  : option (node * list node * option pos) :=
  match l with
  | [] => None
  | n :: r =>
      if is_ws_or_comment (node_tok n) then host_scan r endp invalid
      else match n with
           | Block TCurly _ _ _ _ => Some (n, r, invalid)
           | _ => host_scan r endp (keep_first invalid (pos_after n r endp))
           end
  end.

Definition write_attr_selector (st : wstate) (name value : str) (p : pos) : wstate :=
  let st := tok_at st TSquare p None in
  let st := tok_at st (TIdent name) p None in
  let st := tok_at st (TDelim 61) p None in
  let st := tok_at st (TStr value) p None in
  tok_at st TCloseSquare p None.

Definition s_open : str := [123].
Definition s_close : str := [125].

Definition low_open_wrappers (st : wstate) : wstate :=
  fold_left (fun s item => emit_low (emit_low s (OpRaw (fst item) (snd item))) (OpRaw s_open [TCurly]))
            (w_stack st) st.

Definition low_close_wrappers (st : wstate) : wstate :=
  fold_left (fun s _ => emit_low s (OpRaw s_close [TCloseCurly])) (w_stack st) st.

Definition host_emit (o : opts) (st : wstate) (p : pos) (body : list node) : wstate :=
  let st := low_open_wrappers (set_using_low st true) in
  let st := write_attr_selector st s_wx_host (match class_prefix o with Some x => x | None => [] end) p in
  let st := match host_is o with
            | Some h => write_attr_selector (tok_at st TComma p None) s_is h p
            | None => st
            end in
  let st := tok_at st TCurly p None in
  let st := rpx_body o false body None st in
  let st := tok_at st TCloseCurly p None in
  set_using_low (low_close_wrappers st) false.

Inductive host_try := HostErr | HostDone (rest : list node) (st : wstate).

Definition host_try_parse (o : opts) (l0 : list node) (endp : pos) (st : wstate) : host_try :=
  match l0 with
  | Leaf TColon _ :: r1 =>
      (* the token after the colon is read with next_including_whitespace (fix bdd7adf): comments
         are skipped, a whitespace token is not `host` *)
      match skip_comments r1 with
      | [] => HostDone [] st
      | n :: r2 =>
          let start :=
            match n with
            | Leaf (TIdent s) _ => if str_eqb_ci s s_host then Some None else None
            | Block (TFunc s) _ body be _ => if str_eqb_ci s s_host then Some (Some (cur_pos body be)) else None
            | _ => None
            end in
          match start with
          | None => HostErr
          | Some inv =>
              match host_scan r2 endp inv with
              | None => HostDone [] st
              | Some (Block _ pc body _ _, rest, None) => HostDone rest (host_emit o st pc body)
              | Some (_, rest, Some wp) => HostDone rest (warn st W_HOST wp)
              | Some (_, rest, None) => HostDone rest st (* unreachable: host_scan returns a block *)
              end
          end
      end
  | _ => HostErr
  end.

(* second scan (fix 1041599): `:host` later among the top-level tokens of the prelude.  Tokens are
   read with next_including_whitespace (comments skipped, whitespace is a token); `found` is the
   position after the first `host` that directly follows a single colon (`::host` is a pseudo-element of
   that name, not the pseudo-class: `colons` counts the colons just read, saturating at 2); Err (None) when
   the input ends before a `{}` block or no `:host` was found *)
Definition colons_next (c : nat) : nat := match c with O => 1%nat | _ => 2%nat end.
Definition one_colon (c : nat) : bool := match c with S O => true | _ => false end.

Fixpoint host_late_scan (l : list node) (endp : pos) (colons : nat) (found : option pos)
  : option (list node * pos) :=
  match l with
  | [] => None
  | n :: r =>
      if is_comment (node_tok n) then host_late_scan r endp colons found
      else match n with
           | Block TCurly _ _ _ _ => match found with Some p => Some (r, p) | None => None end
           | Leaf (TIdent s) _ =>
               host_late_scan r endp O
                 (if one_colon colons && str_eqb_ci s s_host then keep_first found (pos_after n r endp) else found)
           | Block (TFunc s) _ _ _ _ =>
               host_late_scan r endp O
                 (if one_colon colons && str_eqb_ci s s_host then keep_first found (pos_after n r endp) else found)
           | Leaf TColon _ => host_late_scan r endp (colons_next colons) found
           | _ => host_late_scan r endp O found
           end
  end.

(* the rule does not start with `:host` *)
Definition qr_main (o : opts) (l0 : list node) (endp : pos) (st : wstate) : list node * wstate :=
  match (if convert_host o then host_late_scan l0 endp O None else None) with
  | Some (rest, wp) => (rest, warn st W_HOST wp)
  | None => qr_loop o l0 false false st
  end.

Definition qrule (o : opts) (l : list node) (endp : pos) (st : wstate) : list node * wstate :=
  let l0 := skip_ws l in
  match (if convert_host o then host_try_parse o l0 endp st else HostErr) with
  | HostDone rest st' => (rest, st')
  | HostErr => qr_main o l0 endp st
  end.

(* ---------------------------------------------------------------- parse_at_rule *)

(* recovery after a failed @import: skip up to and including the first `{}` block or `;` *)
Fixpoint skip_to_block_or_semi (l : list node) : list node :=
  match l with
  | [] => []
  | n :: r => match n with
              | Block TCurly _ _ _ _ => r
              | Leaf TSemi _ => r
              | _ => skip_to_block_or_semi r
              end
  end.

Inductive imp_conds :=
| ImpErr (st : wstate)
| ImpGo (cursor : list node) (has_media : bool) (closes : list (tok * pos)) (st : wstate).

Fixpoint import_conds (o : opts) (l : list node) (closes : list (tok * pos)) (st : wstate)
  : imp_conds :=
  match l with
  | [] => ImpGo [] false closes st
  | n :: r =>
      if is_ws_or_comment (node_tok n) then import_conds o r closes st
      else match n with
           | Block (TFunc x) p body _ _ =>
               if str_eqb_ci x s_layer then
                 let st1 := tok_at st (TAt x) p (Some (TFunc x)) in
                 (* a layer name (`a.b`) is not a selector: value walker, no class handling (fix 661ebe6) *)
                 let st2 := rpx_body o false body None st1 in
                 let st3 := tok_at st2 TCurly p None in
                 import_conds o r ((TCloseCurly, p) :: closes) st3
               else if str_eqb_ci x s_supports then
                 let st1 := tok_at st (TAt x) p (Some (TFunc x)) in
                 let st2 := tok_at st1 TParen p None in
                 let st3 := cn_body o body true false false st2 in
                 let st4 := tok_at st3 TCloseParen p None in
                 let st5 := tok_at st4 TCurly p None in
                 import_conds o r ((TCloseCurly, p) :: closes) st5
               else ImpGo l false closes (warn st W_UNEXPECTED p)
           | Leaf (TIdent x) p =>
               (* the bare `layer` keyword directly after the target: an anonymous layer (fix 89a064d) *)
               if match closes with [] => str_eqb_ci x s_layer | _ => false end then
                 let st1 := tok_at st (TAt x) p (Some (TIdent x)) in
                 let st2 := tok_at st1 TCurly p None in
                 import_conds o r ((TCloseCurly, p) :: closes) st2
               else ImpGo l true closes st
           | Block TParen _ _ _ _ => ImpGo l true closes st
           | Leaf TSemi _ => ImpGo r false closes st
           | _ => ImpErr (warn st W_UNEXPECTED (node_pos n))
           end
  end.

(* media-query part of an @import; None = Err *)
Fixpoint import_media (o : opts) (l : list node) (wpos : pos) (st : wstate)
  : option (list node) * wstate :=
  match l with
  | [] => (Some [], st)
  | n :: r =>
      if is_ws_or_comment (node_tok n) then import_media o r wpos st
      else match n with
           | Block TCurly _ _ _ _ => (None, warn st W_UNEXPECTED wpos)
           | Block open p body _ _ =>
               let st1 := tok_at st open p None in
               let st2 := cn_body o body true false false st1 in
               import_media o r wpos (tok_at st2 (close_of open) p None)
           | Leaf TSemi _ => (Some r, st)
           | Leaf t p => import_media o r wpos (tok_at st t p None)
           end
  end.

Definition close_all (closes : list (tok * pos)) (st : wstate) : wstate :=
  fold_left (fun s c => tok_at s (fst c) (snd c) None) closes st.

(* the closure passed to try_parse in the @import branch; None = Err (parser state is reset by
   the caller, output and warnings are not) *)
(* cssparser `expect_url_or_string`: a string, a url token, or `url(` <string> `)` *)
Definition import_target (l : list node) : option (str * list node) :=
  match skip_ws l with
  | Leaf (TStr s) _ :: r => Some (s, r)
  | Leaf (TUrl s) _ :: r => Some (s, r)
  | Block (TFunc f) _ body _ _ :: r =>
      if str_eqb_ci f s_url then
        match skip_ws body with
        | Leaf (TStr s) _ :: r2 => match skip_ws r2 with [] => Some (s, r) | _ => None end
        | _ => None
        end
      else None
  | _ => None
  end.

Definition import_try (o : opts) (sign : str) (start_pos : pos) (r : list node) (endp : pos)
                      (st : wstate) : option (list node) * wstate :=
  match import_target r with
  | Some (path, r1) =>
      match import_conds o r1 [] st with
      | ImpErr st' => (None, st')
      | ImpGo cursor has_media closes st1 =>
          let wpos := cur_pos cursor endp in
          let after_media :=
            if has_media then
              let st2 := tok_at st1 (TAt s_media) start_pos None in
              match import_media o cursor wpos st2 with
              | (None, st3) => (None, st3)
              | (Some rest, st3) =>
                  (Some (rest, (TCloseCurly, start_pos) :: closes), tok_at st3 TCurly start_pos None)
              end
            else (Some (cursor, closes), st1) in
          match after_media with
          | (None, st') => (None, st')
          | (Some (rest, closes'), st4) =>
              let st5 := tok_at st4 (TComment (sign ++ [32] ++ url_encode path)) start_pos None in
              (Some rest, close_all closes' st5)
          end
      end
  | None => (None, st)
  end.

Definition contain_rule_list (x : str) : bool :=
  str_eqb_ci x s_media || str_eqb_ci x s_supports || str_eqb_ci x s_document ||
  str_eqb_ci x s_moz_document ||
  str_eqb_ci x s_layer || str_eqb_ci x s_container || str_eqb_ci x s_scope ||
  str_eqb_ci x s_starting_style.

Definition is_layer_fn (t : tok) : bool :=
  match t with TFunc x => str_eqb_ci x s_layer | _ => false end.

(* prelude loop of a generic at-rule; `rec` = parse_rules on a nested block *)
Fixpoint at_prelude (o : opts) (rec : list node -> pos -> wstate -> wstate) (contain : bool)
                    (mark : nat * nat) (l : list node) (st : wstate) {struct l} : list node * wstate :=
  match l with
  | [] => ([], st)
  | n :: r =>
      if is_ws_or_comment (node_tok n) then at_prelude o rec contain mark r st
      else match n with
           | Block TCurly p body be _ =>
               let seg := segment_since (cur_out st) mark in
               let st1 := set_stack st (w_stack st ++ [seg]) in
               let st2 := tok_at st1 TCurly p None in
               let st3 := if contain then rec body be st2 else rpx_body o false body None st2 in
               let st4 := tok_at st3 TCloseCurly p None in
               (r, set_stack st4 (removelast (w_stack st4)))
           | Block open p body _ _ =>
               let st1 := tok_at st open p None in
               (* `layer(a.b)` (pass-through `@import`) names a cascade layer: value walker, no class handling *)
               let st2 := if is_layer_fn open then rpx_body o false body None st1
                          else cn_body o body true false false st1 in
               at_prelude o rec contain mark r (tok_at st2 (close_of open) p None)
           | Leaf TSemi p => (r, tok_at st TSemi p None)
           | Leaf t p => at_prelude o rec contain mark r (tok_at st t p None)
           end
  end.

Definition at_rule (o : opts) (rec : list node -> pos -> wstate -> wstate) (l0 : list node)
                   (endp : pos) (at_start : bool) (st : wstate) : option (list node * wstate) :=
  match l0 with
  | Leaf (TAt x) p :: r =>
      match (if str_eqb_ci x s_import then import_sign o else None) with
      | Some sign =>
          let start_pos := cur_pos r endp in
          let st0 := if at_start then st else warn st W_IMPORT_POS start_pos in
          match import_try o sign start_pos r endp st0 with
          | (Some rest, st') => Some (rest, st')
          | (None, st') => Some (skip_to_block_or_semi r, st')
          end
      | None =>
          let mark := o_mark (cur_out st) in
          let st1 := tok_at st (TAt x) p None in
          Some (at_prelude o rec (contain_rule_list x) mark r st1)
      end
  | _ => None
  end.

(* ---------------------------------------------------------------- parse_rules *)

(* `@charset` and other `@import` rules may precede an `@import` (fix 73ca189) *)
Definition keeps_start (l0 : list node) : bool :=
  match l0 with
  | Leaf (TAt x) _ :: _ => str_eqb_ci x s_import || str_eqb_ci x s_charset
  | _ => false
  end.

Fixpoint rules (fuel : nat) (o : opts) (l : list node) (endp : pos) (at_start : bool) (st : wstate)
  : wstate :=
  match fuel with
  | O => set_oof st
  | S f =>
      match skip_ws l with
      | [] => st
      | l0 =>
          let leading := at_start && keeps_start l0 in
          match at_rule o (fun body be s => rules f o body be false s) l0 endp at_start st with
          | Some (rest, st') => rules f o rest endp leading st'
          | None => let '(rest, st') := qrule o l0 endp st in rules f o rest endp leading st'
          end
      end
  end.

Fixpoint node_size (n : node) : nat :=
  match n with
  | Leaf _ _ => 1
  | Block _ _ body _ _ => S (fold_right (fun x a => (node_size x + a)%nat) O body)
  end.
Definition nodes_size (l : list node) : nat := fold_right (fun x a => (node_size x + a)%nat) O l.

Definition transform (o : opts) (tree : list node) (endp : pos) : wstate :=
  rules (S (nodes_size tree)) o tree endp true w_init.
