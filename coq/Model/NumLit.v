(* Character-level model of Expression::parse_number (parse/expr.rs) including every
   `unwrap()` / `unreachable!()` site as an explicit Panic outcome, and of Pow2RadixAcc. *)
From GE Require Export Model.Str Model.Hex.

Definition is_ident_char (c : N) : bool := (c =? 95) || (c =? 36) || is_alpha c || is_digit c.
Definition is_oct_digit (c : N) : bool := (48 <=? c) && (c <=? 55).
Definition is_hex_digit (c : N) : bool := is_digit c || ((97 <=? c) && (c <=? 102)) || ((65 <=? c) && (c <=? 70)).
Definition is_alnum (c : N) : bool := is_digit c || is_alpha c.

(* ---- Pow2RadixAcc ---- *)
Record acc := { a_bits : N; a_int : option Z; a_mant : N; a_dropped : N; a_sticky : bool }.
Definition acc_new (bits : N) : acc := {| a_bits := bits; a_int := Some 0%Z; a_mant := 0; a_dropped := 0; a_sticky := false |}.
Definition i64_max : Z := 9223372036854775807%Z.

(* one bit, most significant first *)
Definition push_bit (a : acc) (b : bool) : acc :=
  if 9223372036854775808 <=? a_mant a (* mantissa >> 63 == 1 *)
  then {| a_bits := a_bits a; a_int := a_int a; a_mant := a_mant a; a_dropped := a_dropped a + 1; a_sticky := a_sticky a || b |}
  else {| a_bits := a_bits a; a_int := a_int a; a_mant := 2 * a_mant a + (if b then 1 else 0); a_dropped := a_dropped a; a_sticky := a_sticky a |}.

Fixpoint push_bits (a : acc) (d : N) (nbits : nat) : acc :=
  match nbits with
  | O => a
  | S k => push_bits (push_bit a (N.testbit d (N.of_nat k))) d k
  end.

Definition acc_push (a : acc) (d : N) : acc :=
  let int' := match a_int a with
              | Some x => let v := (x * Z.of_N (2 ^ a_bits a) + Z.of_N d)%Z in
                          if (v <=? i64_max)%Z then Some v else None
              | None => None
              end in
  let a' := push_bits a d (N.to_nat (a_bits a)) in
  {| a_bits := a_bits a'; a_int := int'; a_mant := a_mant a'; a_dropped := a_dropped a'; a_sticky := a_sticky a' |}.

Inductive numres :=
  | NInt (z : Z)
  | NFloatPow2 (mant dropped : N) (sticky : bool)   (* value in [mant*2^dropped, (mant+1)*2^dropped) *)
  | NFloatDec (text : str)                          (* the scanned slice, parsed as f64 by Rust *)
  | NErr                                            (* warning added, None returned *)
  | NEnd                                            (* None without a warning (input ended) *)
  | NPanic (site : N).                              (* unwrap() on None / unreachable!() *)

Definition acc_finish (a : acc) : numres :=
  match a_int a with
  | Some z => NInt z
  | None => NFloatPow2 (if a_sticky a then N.lor (a_mant a) 1 else a_mant a) (a_dropped a) (a_sticky a)
  end.

(* ---- the scanner; `s` is the remaining input starting at the literal; returns the result and
        the number of characters consumed ---- *)
Definition digit_val (c : N) : N := c - 48.

(* OCT loop: entered with the first octal digit at the head *)
Fixpoint oct_loop (fuel : nat) (s : str) (a : acc) (n : N) : numres * N :=
  match fuel with
  | O => (NPanic 99, n)
  | S f =>
    match s with
    | [] => (NPanic 1, n)                      (* ps.next().unwrap() *)
    | c :: r =>
      let a' := acc_push a (digit_val c) in
      match r with
      | [] => (acc_finish a', n + 1)
      | p :: _ => if negb (is_ident_char p) then (acc_finish a', n + 1)
                  else if negb (is_oct_digit p) then (NErr, n + 1)
                  else oct_loop f r a' (n + 1)
      end
    end
  end.

Section Hex.
  (* the pre-check in front of the HEX loop: the repaired code admits hex digits only; the
     original admitted any ASCII letter or digit *)
  Variable precheck : N -> bool.

  Fixpoint hex_loop (fuel : nat) (s : str) (a : acc) (n : N) : numres * N :=
    match fuel with
    | O => (NPanic 99, n)
    | S f =>
      match s with
      | [] => (NPanic 2, n)                    (* ps.next().unwrap() *)
      | c :: r =>
        match hex_val c with
        | None => (NPanic 3, n)                (* _ => unreachable!() *)
        | Some d =>
          let a' := acc_push a d in
          match r with
          | [] => (acc_finish a', n + 1)
          | p :: _ => if negb (is_ident_char p) then (acc_finish a', n + 1)
                      else if negb (precheck p) then (NErr, n + 1)
                      else hex_loop f r a' (n + 1)
          end
        end
      end
    end.

  (* exponent digits: entered after 'e' and the optional '-' , head is a digit *)
  Fixpoint exp_loop (fuel : nat) (s : str) (n : N) : option N :=   (* None = error *)
    match fuel with
    | O => None
    | S f =>
      match s with
      | [] => Some n                            (* ps.next() on empty: loop ends at the peek *)
      | _ :: r =>
        match r with
        | [] => Some (n + 1)
        | p :: _ => if negb (is_ident_char p) then Some (n + 1)
                    else if negb (is_digit p) then None
                    else exp_loop f r (n + 1)
        end
      end
    end.

  (* DEC loop. int = Some z while the literal is still an integer; overflow = it left i64 *)
  Fixpoint dec_loop (fuel : nat) (s : str) (int : option Z) (overflow : bool) (n : N) : numres * N * bool :=
    (* result, consumed, finished_as_int_without_overflow? (third component: int still valid) *)
    match fuel with
    | O => (NPanic 99, n, false)
    | S f =>
      match s with
      | [] => (NPanic 4, n, false)             (* ps.next().unwrap() *)
      | c :: r =>
        if c =? 101 (* 'e' *) then
          let '(r1, n1) := match r with 45 :: r' => (r', n + 2) | _ => (r, n + 1) end in
          match r1 with
          | [] => (NEnd, n1, false)
          | p :: _ => if negb (is_digit p) then (NErr, n1, false)
                      else match exp_loop (length r1 + 1) r1 n1 with
                           | Some n2 => (NFloatDec [], n2, false)
                           | None => (NErr, n1, false)
                           end
          end
        else
          let '(int', overflow') :=
            if c =? 46 then (None, overflow)
            else match int with
                 | Some z => let v := (z * 10 + Z.of_N (digit_val c))%Z in
                             if (v <=? i64_max)%Z then (Some v, overflow) else (Some z, true)
                 | None => (None, overflow)
                 end in
          match r with
          | [] => (match int' with Some z => if overflow' then NFloatDec [] else NInt z | None => NFloatDec [] end, n + 1, true)
          | p :: _ =>
              if negb (is_ident_char p) && negb (p =? 46)
              then (match int' with Some z => if overflow' then NFloatDec [] else NInt z | None => NFloatDec [] end, n + 1, true)
              else if is_digit p || ((match int' with Some _ => true | None => false end) && (p =? 46)) || (p =? 101)
              then dec_loop f r int' overflow' (n + 1)
              else (NErr, n + 1, false)
          end
      end
    end.

  Definition has_mantissa_digit (text : str) : bool :=
    let fix go (l : str) := match l with
                            | [] => false
                            | c :: r => if c =? 101 then false else if is_digit c then true else go r
                            end in go text.

  Definition finish_dec (s : str) (res : numres * N * bool) : numres * N :=
    let '(r, n, _) := res in
    match r with
    | NFloatDec _ =>
        let text := firstn (N.to_nat n) s in
        (* Rust's str::parse::<f64> rejects a mantissa without digits ("." , ".e3") *)
        if has_mantissa_digit text then (NFloatDec text, n) else (NErr, n)
    | other => (other, n)
    end.

  Definition parse_number (s : str) : numres * N :=
    match s with
    | [] => (NEnd, 0)
    | c :: r =>
      if negb (is_digit c) && negb (c =? 46) then (NErr, 0)
      else if c =? 48 then
        match r with
        | d :: _ =>
            if is_oct_digit d then oct_loop (length r + 1) r (acc_new 3) 1
            else if d =? 120 then
              match tl r with
              | [] => (NEnd, 2)
              | p :: _ => if negb (precheck p) then (NErr, 2)
                          else hex_loop (length r + 1) (tl r) (acc_new 4) 2
              end
            else if (d =? 101) || (d =? 46) || (d =? 56) || (d =? 57)
            then finish_dec s (dec_loop (length r + 1) r (Some 0%Z) false 1)
            else if is_ident_char d then (NErr, 1)
            else (NInt 0, 1)
        | [] => (NInt 0, 1)
        end
      else finish_dec s (dec_loop (length s + 1) s (Some 0%Z) false 0)
    end.
End Hex.

Definition parse_number_fixed : str -> numres * N := parse_number is_hex_digit.
Definition parse_number_legacy : str -> numres * N := parse_number is_alnum.
