(* THE SPECIFICATION of creation (C04): what tree a template denotes for given data. Written
   directly from the documented WXML semantics, independently of the code generator:
   - a text / attribute made of a single binding receives the raw value (text nodes: its display
     string), mixed text concatenates the pieces with null / undefined rendered as empty;
   - wx:if / elif / else renders the first truthy branch; wx:for renders its body once per item
     with item then index in scope; <block> contributes only its children;
   - <template is data> renders the named sub-template with the data object as its data and only
     the script modules in scope; <slot> is a slot node with its values;
   - every attribute family is delivered through its own channel under its normalised name.
   None = some binding is outside the evaluation fragment of Val.v (the case is skipped). *)
From GE Require Export Model.Val Model.Tmpl.

Inductive rattr := RAttr (key : str) (v : val) (flags : list bool).
(* key = channel letter ++ ":" ++ name, as the reference runtime records it *)

Inductive rnode :=
  | RText (s : str)
  | RElem (tag : str) (generics : list (str * str)) (attrs : list rattr) (slot : option val)
          (slot_value_names : list str) (children : list rnode)
  | RIf (key : val) (children : list rnode)
  | RFor (items : list (list rnode))
  | RSlot (name : str) (attrs : list rattr) (slot : option val)
  | RVirtual (slot : option val) (children : list rnode).

Definition chan_key (c : chan) : str :=
  match c with
  | ChAttr n _ => lit "r:" ++ n
  | ChClass => lit "c:"
  | ChStyle => lit "y:"
  | ChId => lit "i:"
  | ChChange n => lit "p:" ++ n
  | ChSlotAttr => lit "slot"
  | ChEvent n _ _ _ => lit "v:" ++ n
  | ChData n => lit "d:" ++ n
  | ChMark n => lit "m:" ++ n
  | ChSlotValue n => lit "l:" ++ n
  end.

Section Render.
  Variable subs : list (str * nodes).       (* <template name> definitions of the file *)
  Variable globals : list val.              (* values of the script modules (none in the fragment) *)
  Variable slot_values : val.               (* the slot values object handed to slot: references *)
  (* how the body of a sub-template is rendered (tied by the fuel-indexed fixpoint below) *)
  Variable call : env -> nodes -> option (list rnode).

  Definition eval_value (ev : env) (v : value) : option val :=
    match v with
    | VStatic s => Some (VStr s)
    | VDynamic e => eval ev e
    end.

  (* the value an attribute channel receives; valueless attributes: `true`, except event
     bindings and slot values (empty string) *)
  Definition attr_value (ev : env) (a : vattr) : option val :=
    match va_val a with
    | Some v => eval_value ev v
    | None => match va_chan a with
              | ChEvent _ _ _ _ | ChSlotValue _ => Some (VStr [])
              | _ => Some (VBool true)
              end
    end.

  Definition is_dynamic (a : vattr) : bool :=
    match va_val a with Some (VDynamic _) => true | _ => false end.

  Fixpoint render_attrs (ev : env) (l : list vattr) : option (list rattr) :=
    match l with
    | [] => Some []
    | a :: r =>
        match va_chan a with
        | ChSlotAttr => render_attrs ev r                       (* delivered as the element's slot *)
        | ChChange _ =>
            (* change: bindings only exist for dynamic values *)
            if is_dynamic a then
              match attr_value ev a, render_attrs ev r with
              | Some v, Some rest => Some (RAttr (chan_key (va_chan a)) v [] :: rest)
              | _, _ => None
              end
            else render_attrs ev r
        | ChEvent n c m cap =>
            match attr_value ev a, render_attrs ev r with
            | Some v, Some rest => Some (RAttr (chan_key (va_chan a)) v [c; m; cap; is_dynamic a] :: rest)
            | _, _ => None
            end
        | _ =>
            match attr_value ev a, render_attrs ev r with
            | Some v, Some rest => Some (RAttr (chan_key (va_chan a)) v [] :: rest)
            | _, _ => None
            end
        end
    end.

  Definition slot_of (ev : env) (l : list vattr) : option (option val) :=
    match find (fun a => match va_chan a with ChSlotAttr => true | _ => false end) l with
    | Some a =>
        (* the slot is always delivered as a string (Y), on elements as on virtual nodes *)
        match attr_value ev a with
        | Some v => option_map (fun s => Some (VStr s)) (display_string v)
        | None => None
        end
    | None => Some None
    end.

  Definition static_attrs (l : list sattr) : list rattr :=
    flat_map (fun s => match s with
                       | SWorklet n v => [RAttr (lit "wl:" ++ n) (VStr v) []]
                       | SExtraAttr n v => [RAttr (lit "a:" ++ n) (VStr v) []]
                       | SGeneric _ _ => []
                       end) l.
  Definition generics_of (l : list sattr) : list (str * str) :=
    flat_map (fun s => match s with SGeneric n v => [(n, v)] | _ => [] end) l.

  (* `sv` = the slot values the enclosing define-children function received: the configured
     object directly under an element, undefined everywhere else (root, if / for / block bodies,
     sub-templates), as in the runtime *)
  Definition push_slot_scopes (sv : val) (ev : env) (refs : list (str * str)) : option env :=
    (* slot:name[=alias] : the scope holds X(V)[name] *)
    let fix go (l : list (str * str)) : option (list val) :=
      match l with
      | [] => Some []
      | (name, _) :: r => match get_prop sv name, go r with
                          | Some v, Some rest => Some (v :: rest)
                          | _, _ => None
                          end
      end in
    match go refs with
    | Some vs => Some {| e_data := e_data ev; e_scopes := e_scopes ev ++ vs |}
    | None => None
    end.

  (* the slot value names announced with an element: those referenced by its direct child elements *)
  Fixpoint child_slot_names (l : nodes) (acc : list str) : list str :=
    match l with
    | NNil => acc
    | NCons n r =>
        let refs := match n with
                    | NElem _ _ _ refs _ => refs
                    | NPure _ refs _ => refs
                    | NSlot _ _ refs => refs
                    | _ => []
                    end in
        child_slot_names r (fold_left (fun a nr => if mem_str (fst nr) a then a else a ++ [fst nr]) refs acc)
    end.

  Fixpoint find_sub (name : str) (l : list (str * nodes)) : option nodes :=
    match l with [] => None | (n, b) :: r => if str_eqb n name then Some b else find_sub name r end.

  Fixpoint render_node (sv : val) (ev : env) (n : node) {struct n} : option (list rnode) :=
    match n with
    | NOther => Some []
    | NText v =>
        match v with
        | VStatic s => Some [RText s]
        | VDynamic e => match eval ev e with
                        | Some x => option_map (fun s => [RText s]) (display_string x)
                        | None => None
                        end
        end
    | NElem tag statics vals refs children =>
        match push_slot_scopes sv ev refs with
        | Some ev_self =>
            (* the element's own values see its slot: scopes (as the analysis resolves them) *)
            match render_attrs ev_self vals, slot_of ev_self vals, render_nodes slot_values ev_self children with
            | Some attrs, Some slot, Some ch =>
                Some [RElem tag (generics_of statics) (static_attrs statics ++ attrs) slot
                            (child_slot_names children []) ch]
            | _, _, _ => None
            end
        | None => None
        end
    | NPure slot refs children =>
        match push_slot_scopes sv ev refs with
        | Some ev' =>
            match (match slot with
                   | None => Some None
                   | Some (VStatic s) => Some (Some (VStr s))
                   | Some (VDynamic e) => match eval ev' e with
                                          | Some x => option_map (fun s => Some (VStr s)) (display_string x)
                                          | None => None
                                          end
                   end), render_nodes VUndef ev' children with
            | Some sl, Some ch => Some [RVirtual sl ch]
            | _, _ => None
            end
        | None => None
        end
    | NFor lst item index key children =>
        match eval_value ev lst with
        | Some lv =>
            match list_items lv with
            | Some items =>
                let fix go (l : list (val * val)) : option (list (list rnode)) :=
                  match l with
                  | [] => Some []
                  | (it, ix) :: r =>
                      match render_nodes VUndef {| e_data := e_data ev; e_scopes := e_scopes ev ++ [it; ix] |} children, go r with
                      | Some c, Some rest => Some (c :: rest)
                      | _, _ => None
                      end
                  end in
                option_map (fun x => [RFor x]) (go items)
            | None => None
            end
        | None => None
        end
    | NIf branches has_else else_body =>
        match render_if ev branches 1 with
        | Some (Some r) => Some r
        | Some None => option_map (fun c => [RIf (VNum 0) c]) (render_nodes VUndef ev else_body)
        | None => None
        end
    | NTmplRef target data =>
        match eval_value ev target, eval_value ev data with
        | Some key, Some d =>
            match key with
            | VStr name =>
                if truthy key then
                  match find_sub name subs with
                  | Some body =>
                      (* the sub-template sees only the script modules and reads the data object *)
                      option_map (fun c => [RIf key c]) (call {| e_data := d; e_scopes := globals |} body)
                  | None => Some [RIf key []]
                  end
                else Some [RIf key []]
            | VUndef | VNull => Some [RIf key []]
            | _ => None
            end
        | _, _ => None
        end
    | NInclude _ => None
    | NSlot name vals refs =>
        match push_slot_scopes sv ev refs with
        | Some ev' =>
            match (match name with
                   | VStatic s => Some s
                   | VDynamic e => match eval ev' e with Some x => display_string x | None => None end
                   end), render_attrs ev' vals,
                  (match find (fun a => match va_chan a with ChSlotAttr => true | _ => false end) vals with
                   | Some a => match va_val a with
                               | Some (VStatic s) => Some (Some (VStr s))
                               | Some (VDynamic e) => match eval ev' e with
                                                      | Some x => option_map (fun s => Some (VStr s)) (display_string x)
                                                      | None => None
                                                      end
                               | None => Some (Some (VStr []))
                               end
                   | None => Some None
                   end) with
            | Some nm, Some attrs, Some sl => Some [RSlot nm attrs sl]
            | _, _, _ => None
            end
        | None => None
        end
    end
  with render_nodes (sv : val) (ev : env) (l : nodes) {struct l} : option (list rnode) :=
    match l with
    | NNil => Some []
    | NCons n r => match render_node sv ev n, render_nodes sv ev r with
                   | Some a, Some b => Some (a ++ b)
                   | _, _ => None
                   end
    end
  (* the first truthy branch; Some None = no branch is taken *)
  with render_if (ev : env) (b : ifbranches) (k : N) {struct b} : option (option (list rnode)) :=
    match b with
    | BNil => Some None
    | BCons c body r =>
        match eval_value ev c with
        | Some x => if truthy x then option_map (fun ch => Some [RIf (VNum (Z.of_N k)) ch]) (render_nodes VUndef ev body)
                    else render_if ev r (k + 1)
        | None => None
        end
    end.
End Render.

(* <template is> may refer to itself: fuel bounds the depth of template calls (None when exhausted) *)
Fixpoint render_top (subs : list (str * nodes)) (globals : list val) (slot_values : val)
         (fuel : nat) (ev : env) (l : nodes) : option (list rnode) :=
  match fuel with
  | O => None
  | S f => render_nodes subs globals slot_values (fun ev' body => render_top subs globals slot_values f ev' body) VUndef ev l
  end.

Definition render_template (t : template) (data slot_values : val) : option (list rnode) :=
  match t_scripts t with
  | [] => render_top (t_subs t) [] slot_values 8 {| e_data := data; e_scopes := [] |} (t_content t)
  | _ => None     (* script modules are outside the fragment *)
  end.
