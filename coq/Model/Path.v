(* Model of glass-easel-template-compiler/src/path.rs (normalize, resolve),
   written as a transliteration of the Rust: `slices` is a Vec that is pushed
   to / popped from at its END. *)
From GE Require Export Model.Str.

Definition c_slash : N := 47.
Definition s_dot : str := [46].
Definition s_dotdot : str := [46; 46].

(* one iteration of the `match slice { "." => {}, ".." => pop, _ => push }` loop *)
Definition vec_step (slices : list str) (slice : str) : list str :=
  if str_eqb slice s_dot then slices
  else if str_eqb slice s_dotdot then removelast slices
  else slices ++ [slice].

Definition vec_walk (slices : list str) (segs : list str) : list str :=
  fold_left vec_step segs slices.

Definition normalize (path : str) : str :=
  join [c_slash] (vec_walk [] (split c_slash path)).

Definition resolve (base rel : str) : str :=
  match rel with
  | 47 :: rest =>
      (* rel.starts_with('/') : slices stays empty, main = &rel[1..] ; then slices.pop() *)
      join [c_slash] (vec_walk (removelast []) (split c_slash rest))
  | _ =>
      let slices := vec_walk [] (split c_slash base) in
      join [c_slash] (vec_walk (removelast slices) (split c_slash rel))
  end.

(* suffix stripping is done by callers (tag.rs); modelled where it is used *)

(* Rust `s.strip_suffix(suf).unwrap_or(s)` as used for `src` attributes in parse/tag.rs *)
Definition strip_suffix_once (suf s : str) : str :=
  if starts_with (rev suf) (rev s) then firstn (length s - length suf) s else s.

Definition suf_wxml : str := [46; 119; 120; 109; 108].
Definition suf_wxs : str := [46; 119; 120; 115].

(* what `direct_dependencies` / `script_dependencies` must list for a reference
   <import src=w/> / <include src=w/> (is_script = false) or <wxs src=w/> (is_script = true)
   in the file registered as `base`; an empty source (after suffix stripping) is not a
   reference (the parser reports MissingSourcePath / treats the wxs as inline). *)
Definition dep_of (is_script : bool) (base w : str) : option str :=
  let name := strip_suffix_once (if is_script then suf_wxs else suf_wxml) w in
  match name with
  | [] => None
  | _ => Some (resolve base name)
  end.
