(* Specification side of the stylesheet properties (C08 C09 C17 C18): what the output token
   streams of a WELL-FORMED stylesheet must be.  It is written from the property statements
   and the CSS grammar, not from the walkers of lib.rs:

   - the sheet is split into rules first (at-rule: up to `;` or `{}`; qualified rule: up to `{}`),
   - selector context (qualified-rule preludes and the blocks of at-rule preludes, at EVERY
     nesting depth) keeps a single space exactly where the source had whitespace between two
     tokens, forbids one where the source had nothing, and prefixes exactly the identifiers
     that directly follow a `.`;
   - value context drops whitespace except next to `+`/`-` inside math functions
     (calc/min/max/clamp, any letter case, through nested parentheses), converts every `rpx`
     dimension, and must not separate the pieces of a unicode-range;
   - rule lists nest inside media/supports/document/-moz-document/layer/container/scope/
     starting-style (any letter case);
   - `:host{}` rules (any letter case) move to the low-priority output inside the chain of
     enclosing at-rules; a rule with `:host` anywhere else among the top-level tokens of its
     selector is dropped with a warning;
   - `@import` (any letter case; string, url token or url() function) becomes the placeholder
     comment inside wrappers for `layer` / `layer(..)` / `supports(..)` (any letter case) and the
     media query; it is flagged unless only `@charset` / `@import` rules precede it at the top level;
   - every `rpx` dimension is converted, also directly in an at-rule prelude (the code does not
     convert there: known class D29, pinned by the unit test transform_rpx_in_simple_at_rules).

   Every emitted token carries the requirement on the gap in front of it:
   GReq = whitespace required, GNo = whitespace forbidden, GFree = no requirement.

   `known` lists the narrow decidable classes of inputs on which the code is known to deviate
   (known_findings.json: D15 D24 D27 D28 D29); `wf_tree` is "well-formed stylesheet". *)
From GE Require Export Model.Css.
Open Scope N_scope.

Inductive gap := GFree | GReq | GNo.
Record etok := mke { e_gap : gap; e_tok : tok }.

(* `lower`, `str_eqb_ci`, `is_math_name` and the at-rule / function names are shared with Css.v *)

Definition child_math (math : bool) (open : tok) : bool :=
  match open with
  | TFunc s => is_math_name s || math
  | TParen => math
  | _ => false
  end.

Definition ideal_contain (x : str) : bool :=
  str_eqb_ci x s_media || str_eqb_ci x s_supports || str_eqb_ci x s_document ||
  str_eqb_ci x s_moz_document ||
  str_eqb_ci x s_layer || str_eqb_ci x s_container || str_eqb_ci x s_scope ||
  str_eqb_ci x s_starting_style.

Definition rpx_tok (o : opts) (nm : cnum) (u : str) : tok :=
  if str_eqb u s_rpx then
    let nv := rpx_new_value (n_bits nm) (rpx_ratio o) in
    (* ghost: the source spelling followed by "rpx" marks a converted token for the C10 check *)
    TDim (mknum (n_sign nm) (rpx_new_int nv) nv (n_src nm ++ s_rpx)) s_vw
  else TDim nm u.

(* ---------------------------------------------------------------- well-formedness *)

Definition wf_leaf (top : bool) (t : tok) : bool :=
  match t with
  | TBadUrl _ | TBadStr _ | TCloseParen | TCloseSquare | TCloseCurly => false
  | TCDO | TCDC => top
  (* a stray backslash, and a lone `@` (one that starts no at-keyword: no selector, at-rule prelude or
     standard property value contains it; the serializer separates it from a following `-` or
     identifier with a space so that no at-keyword is formed, which the selector-context rule
     "no whitespace where the source had none" would otherwise count as an inserted combinator) *)
  | TDelim c => negb (c =? 92) && negb (c =? 64)
  | _ => true
  end.

Fixpoint wf_node (top : bool) (n : node) : bool :=
  match n with
  | Leaf t _ => wf_leaf top t
  | Block _ _ body _ closed =>
      closed && (fix go (l : list node) : bool :=
                   match l with [] => true | x :: r => wf_node false x && go r end) body
  end.

Definition wf_nodes (top : bool) (l : list node) : bool := forallb (wf_node top) l.

(* ---------------------------------------------------------------- value context *)

Definition is_u_ident (t : tok) : bool :=
  match t with TIdent [c] => (c =? 117) || (c =? 85) | _ => false end.

Definition num_plus (c : cnum) : bool := n_sign c && negb (f_sign (n_bits c)).

(* first token of the tail of a unicode-range: `+` number/dimension or a `+` delim *)
Definition starts_plus (t : tok) : bool :=
  match t with
  | TNum c | TPct c => num_plus c
  | TDim c _ => num_plus c
  | TDelim c => c =? 43
  | _ => false
  end.

(* tokens that may continue a unicode-range once it has started *)
Definition urange_cont (t : tok) : bool :=
  match t with
  | TNum _ | TDim _ _ => true
  | TDelim c => (c =? 63) || (c =? 43)
  | _ => false
  end.

Definition is_numeric (t : tok) : bool :=
  match t with TNum _ | TPct _ | TDim _ _ => true | _ => false end.

Definition head_tok (l : list node) : option tok :=
  match l with n :: _ => Some (node_tok n) | [] => None end.

(* The list functions below take the function for block bodies as a parameter and are tied
   into a recursion over `node` afterwards (the form Coq's guard checker accepts for the nested
   inductive type). `ur` = the previous token belongs to a unicode-range and nothing separates
   it from here *)
Section ValList.
Variable o : opts.
Variable rec : node -> bool -> list etok.
Fixpoint val_list (math : bool) (l : list node) (prev : option tok) (ur : bool)
  {struct l} : list etok :=
  match l with
  | [] => []
  | n :: r =>
      let t := node_tok n in
      if is_comment t then val_list math r prev false
      else if is_ws t then
        (if math && (is_plus_minus prev || is_plus_minus (first_noncomment r))
         then [mke GReq (TWs sp)] else [])
        ++ val_list math r (Some t) false
      else
        let g := if ur && urange_cont t then GNo else GFree in
        let ur' := (ur && urange_cont t) ||
                   (is_u_ident t && match head_tok r with Some t2 => starts_plus t2 | None => false end) in
        (match n with
         | Block open _ _ _ _ =>
             [mke g open] ++ rec n (child_math math open) ++ [mke GFree (close_of open)]
         | Leaf (TDim nm u) _ => [mke g (rpx_tok o nm u)]
         | Leaf t' _ => [mke g t']
         end) ++ val_list math r (Some t) ur'
  end.
End ValList.

Fixpoint val_node (o : opts) (n : node) (math : bool) {struct n} : list etok :=
  match n with
  | Leaf _ _ => []
  | Block _ _ body _ _ => val_list o (val_node o) math body None false
  end.

Definition val_spec (o : opts) (math : bool) (l : list node) (prev : option tok) (ur : bool)
  : list etok := val_list o (val_node o) math l prev ur.

(* ---------------------------------------------------------------- selector context *)

(* state: first = nothing emitted yet in this list; ws / cmt = whitespace / comment seen since
   the last token; in_class = the last token was a `.` and no whitespace followed it *)
Section SelList.
Variable o : opts.
Variable rec : node -> list etok.
Fixpoint sel_list (conv : bool) (l : list node) (first ws cmt in_class : bool)
  {struct l} : list etok :=
  match l with
  | [] => []
  | n :: r =>
      let t := node_tok n in
      if is_comment t then sel_list conv r first ws true in_class
      else if is_ws t then sel_list conv r first true cmt false
      else
        (* a space next to a numeric token cannot create a combinator (numbers only occur in An+B,
           where `2n+1`, `2n +1`, `2n- 1` ... denote the same), so it is not forbidden; the state
           `cmt` doubles as "the previous token was numeric" *)
        let g := if first || is_curly t then GFree
                 else if ws then GReq else if cmt || is_numeric t then GFree else GNo in
        (match n with
         | Block open _ _ _ _ =>
             (* a math function nested in a block is a value (e.g. inside a media feature); at the
                top level of a qualified-rule prelude (conv = false) every function is a selector
                function *)
             [mke g open] ++ (if conv && is_math_fn open then val_node o n true else rec n)
             ++ [mke GFree (close_of open)]
         | Leaf (TIdent s) _ =>
             if in_class then
               match class_prefix_sign o, class_prefix o with
               | Some c, Some p => [mke g (TComment c); mke GNo (TIdent (p ++ s_dashdash ++ s))]
               | Some c, None => [mke g (TComment c); mke GNo (TIdent s)]
               | None, Some p => [mke g (TIdent (p ++ s_dashdash ++ s))]
               | None, None => [mke g (TIdent s)]
               end
             else [mke g (TIdent s)]
         | Leaf (TDim nm u) _ => [mke g (if conv then rpx_tok o nm u else TDim nm u)]
         | Leaf t' _ => [mke g t']
         end) ++ sel_list conv r false false (is_numeric t) (* nor can a space after a number *)
                          (match t with TDelim c => c =? 46 | _ => false end)
  end.
End SelList.

Fixpoint sel_node (o : opts) (n : node) {struct n} : list etok :=
  match n with
  | Leaf _ _ => []
  | Block _ _ body _ _ => sel_list o (sel_node o) true body true false false false
  end.

Definition sel_spec (o : opts) (conv : bool) (l : list node) (first ws cmt in_class : bool)
  : list etok := sel_list o (sel_node o) conv l first ws cmt in_class.

(* ---------------------------------------------------------------- rule splitting *)

(* prelude, terminator (`{}` block, or `;` for at-rules), rest *)
Fixpoint take_prelude (at_rule : bool) (l : list node) : list node * option node * list node :=
  match l with
  | [] => ([], None, [])
  | n :: r =>
      match n with
      | Block TCurly _ _ _ _ => ([], Some n, r)
      | Leaf TSemi _ =>
          if at_rule then ([], Some n, r)
          else let '(p, t, rest) := take_prelude at_rule r in (n :: p, t, rest)
      | _ => let '(p, t, rest) := take_prelude at_rule r in (n :: p, t, rest)
      end
  end.

Definition all_ws (l : list node) : bool := forallb (fun n => is_ws_or_comment (node_tok n)) l.

(* at-rule prelude: top-level tokens free of requirements, blocks in selector context; in the prelude of a generic
   at-rule (`lay`: not in the media query of a rewritten `@import`) `layer(a.b)` names a cascade layer: a value *)
Fixpoint at_prelude_spec (o : opts) (lay : bool) (l : list node) : list etok :=
  match l with
  | [] => []
  | n :: r =>
      if is_ws_or_comment (node_tok n) then at_prelude_spec o lay r
      else
        (match n with
         | Block open _ body _ _ =>
             [mke GFree open] ++
             (if lay && is_layer_fn open then val_spec o false body None false
              else sel_spec o true body true false false false) ++ [mke GFree (close_of open)]
         | Leaf (TDim nm u) _ => [mke GFree (rpx_tok o nm u)]
         | Leaf t _ => [mke GFree t]
         end) ++ at_prelude_spec o lay r
  end.

(* ---- :host ---- *)
Inductive host_kind := HostNone | HostPure | HostCombined.

(* `:host` = a colon directly followed by the identifier / function `host`; comments do not
   separate tokens, whitespace does (`: host` is not a pseudo-class) *)
(* `colons` = number of colons directly in front (comments aside), saturating at 2: `:host` is the pseudo-class,
   `::host` a pseudo-element of that name *)
Fixpoint has_host (l : list node) (colons : nat) : bool :=
  match l with
  | [] => false
  | n :: r =>
      if is_comment (node_tok n) then has_host r colons
      else match n with
           | Leaf (TIdent s) _ => (one_colon colons && str_eqb_ci s s_host) || has_host r O
           | Block (TFunc s) _ _ _ _ => (one_colon colons && str_eqb_ci s s_host) || has_host r O
           | Leaf TColon _ => has_host r (colons_next colons)
           | _ => has_host r O
           end
  end.

Definition host_pure (prelude : list node) : bool :=
  match skip_ws prelude with
  | Leaf TColon _ :: after =>
      match skip_comments after with
      | Leaf (TIdent s) _ :: rest => str_eqb_ci s s_host && all_ws rest
      | _ => false
      end
  | _ => false
  end.

(* pure: the selector is `:host` alone; combined: `:host` (or `:host(`) occurs among the top-level
   tokens of any other selector (`:host .a`, `.a, :host`, `a:host`) *)
Definition host_kind_of (prelude : list node) : host_kind :=
  if host_pure prelude then HostPure
  else if has_host prelude O then HostCombined else HostNone.

Definition attr_sel (name value : str) : list etok :=
  [mke GFree TSquare; mke GFree (TIdent name); mke GFree (TDelim 61); mke GFree (TStr value);
   mke GFree TCloseSquare].

Definition host_selector (o : opts) : list etok :=
  attr_sel s_wx_host (match class_prefix o with Some p => p | None => [] end) ++
  match host_is o with
  | Some h => mke GFree TComma :: attr_sel s_is h
  | None => []
  end.

(* ---- @import ---- *)
Definition spec_import_target (l : list node) : option (str * list node) :=
  match skip_ws l with
  | Leaf (TStr s) _ :: r => Some (s, r)
  | Leaf (TUrl s) _ :: r => Some (s, r)
  | Block (TFunc f) _ body _ _ :: r =>
      if str_eqb_ci f s_url then
        match skip_ws body with
        | Leaf (TStr s) _ :: r2 => if all_ws r2 then Some (s, r) else None
        | _ => None
        end
      else None
  | _ => None
  end.

(* conditions after the target: layer(..) / supports(..) wrappers, then a media query;
   returns (opening tokens, number of blocks opened) *)
Fixpoint import_conds_spec (o : opts) (l : list node) (first : bool) : list etok * nat * list node :=
  match l with
  | [] => ([], O, [])
  | n :: r =>
      if is_ws_or_comment (node_tok n) then import_conds_spec o r first
      else match n with
           | Block (TFunc x) _ body _ _ =>
               if str_eqb_ci x s_layer then
                 let '(t, k, rest) := import_conds_spec o r false in
                 ([mke GFree (TAt x)] ++ val_spec o false body None false ++ [mke GFree TCurly] ++ t, S k, rest)
               else if str_eqb_ci x s_supports then
                 let '(t, k, rest) := import_conds_spec o r false in
                 ([mke GFree (TAt x); mke GFree TParen] ++ sel_spec o true body true false false false
                  ++ [mke GFree TCloseParen; mke GFree TCurly] ++ t, S k, rest)
               else ([], O, l)
           | Leaf (TIdent x) _ =>
               (* the bare `layer` keyword directly after the target: an anonymous layer *)
               if first && str_eqb_ci x s_layer then
                 let '(t, k, rest) := import_conds_spec o r false in
                 ([mke GFree (TAt x); mke GFree TCurly] ++ t, S k, rest)
               else ([], O, l)
           | _ => ([], O, l)
           end
  end.

Definition import_spec (o : opts) (sign : str) (prelude : list node) : option (list etok) :=
  match spec_import_target prelude with
  | None => None
  | Some (path, r) =>
      let '(conds, k, rest) := import_conds_spec o r true in
      match skip_ws rest with
      | [] | Leaf (TIdent _) _ :: _ | Block TParen _ _ _ _ :: _ =>
      let media := at_prelude_spec o false rest in
      let '(mtoks, k') := match media with
                          | [] => ([], k)
                          | _ => ([mke GFree (TAt s_media)] ++ media ++ [mke GFree TCurly], S k)
                          end in
      Some (conds ++ mtoks ++ [mke GFree (TComment (sign ++ [32] ++ url_encode path))]
            ++ repeat (mke GFree TCloseCurly) k')
      | _ => None
      end
  end.

(* ---------------------------------------------------------------- rule lists *)

Record spec_out := mkso {
  so_normal : list etok;
  so_low : list etok;
  so_warn : list N;         (* warning kinds, in order *)
  so_paths : list str;      (* import paths replaced by placeholders, in order *)
  so_complete : bool;       (* every rule had its terminator *)
}.

Definition so_empty : spec_out := mkso [] [] [] [] true.
Definition so_app (a b : spec_out) : spec_out :=
  mkso (so_normal a ++ so_normal b) (so_low a ++ so_low b) (so_warn a ++ so_warn b)
       (so_paths a ++ so_paths b) (so_complete a && so_complete b).

(* chain = opening tokens (at-keyword, prelude, `{`) of the enclosing at-rules, outermost first *)
Fixpoint rules_spec (fuel : nat) (o : opts) (chain : list (list etok)) (l : list node)
                    (at_start : bool) : spec_out :=
  match fuel with
  | O => mkso [] [] [] [] false
  | S f =>
      match skip_ws l with
      | [] => so_empty
      | Leaf (TAt x) _ :: r =>
          let '(prelude, term, rest) := take_prelude true r in
          let this :=
            match (if str_eqb_ci x s_import then import_sign o else None) with
            | Some sign =>
                let w := if at_start then [] else [W_IMPORT_POS] in
                match import_spec o sign prelude, term with
                | Some toks, Some (Leaf TSemi _) =>
                    mkso toks [] w [match spec_import_target prelude with Some (p, _) => p | None => [] end] true
                | Some toks, None =>
                    mkso toks [] w [match spec_import_target prelude with Some (p, _) => p | None => [] end] true
                | _, _ => mkso [] [] w [] false
                end
            | None =>
                let head := [mke GFree (TAt x)] ++ at_prelude_spec o true prelude in
                match term with
                | Some (Block _ _ body _ _) =>
                    if ideal_contain x then
                      let inner := rules_spec f o (chain ++ [head ++ [mke GFree TCurly]]) body false in
                      mkso (head ++ [mke GFree TCurly] ++ so_normal inner ++ [mke GFree TCloseCurly])
                           (so_low inner) (so_warn inner) (so_paths inner) (so_complete inner)
                    else
                      mkso (head ++ [mke GFree TCurly] ++ val_spec o false body None false
                            ++ [mke GFree TCloseCurly]) [] [] [] true
                | Some (Leaf t _) => mkso (head ++ [mke GFree t]) [] [] [] true
                | None => mkso head [] [] [] false
                end
            end in
          (* an import is at the start of the sheet while only `@charset` / `@import` rules precede it *)
          so_app this (rules_spec f o chain rest
                         (at_start && (str_eqb_ci x s_import || str_eqb_ci x s_charset)))
      | l0 =>
          let '(prelude, term, rest) := take_prelude false l0 in
          let this :=
            match term with
            | Some (Block _ _ body _ _) =>
                let decls := [mke GFree TCurly] ++ val_spec o false body None false
                             ++ [mke GFree TCloseCurly] in
                match (if convert_host o then host_kind_of prelude else HostNone) with
                | HostPure =>
                    mkso [] (concat chain ++ host_selector o ++ decls
                             ++ repeat (mke GFree TCloseCurly) (length chain)) [] [] true
                | HostCombined => mkso [] [] [W_HOST] [] true
                | HostNone => mkso (sel_spec o false prelude true false false false ++ decls) [] [] [] true
                end
            | _ => mkso (sel_spec o false prelude true false false false) [] [] [] false
            end in
          so_app this (rules_spec f o chain rest false)
      end
  end.

Definition expected (o : opts) (tree : list node) : spec_out :=
  rules_spec (S (nodes_size tree)) o [] tree true.

(* ---------------------------------------------------------------- conformance *)

(* numeric tokens are compared by kind and unit here (their values are property C10) *)
Definition tok_shape (t : tok) : tok :=
  match t with
  | TNum _ => TNum (mknum false None 0 [])
  | TPct _ => TPct (mknum false None 0 [])
  | TDim _ u => TDim (mknum false None 0 []) (map lower u)
  | TWs _ => TWs sp
  | _ => t
  end.

Definition opt_str_eqb (a b : option str) : bool :=
  match a, b with Some x, Some y => str_eqb x y | None, None => true | _, _ => false end.

Definition tok_shape_eqb (a b : tok) : bool :=
  match tok_shape a, tok_shape b with
  | TIdent x, TIdent y | TAt x, TAt y | THash x, THash y | TIdHash x, TIdHash y
  | TStr x, TStr y | TUrl x, TUrl y | TComment x, TComment y | TFunc x, TFunc y
  | TBadUrl x, TBadUrl y | TBadStr x, TBadStr y => str_eqb x y
  | TDelim x, TDelim y => x =? y
  | TNum _, TNum _ | TPct _, TPct _ => true
  | TDim _ x, TDim _ y => str_eqb x y
  | TWs _, TWs _ => true
  | TColon, TColon | TSemi, TSemi | TComma, TComma | TInclude, TInclude | TDash, TDash
  | TPrefix, TPrefix | TSuffix, TSuffix | TSubstr, TSubstr | TCDO, TCDO | TCDC, TCDC
  | TParen, TParen | TSquare, TSquare | TCurly, TCurly | TCloseParen, TCloseParen
  | TCloseSquare, TCloseSquare | TCloseCurly, TCloseCurly => true
  | _, _ => false
  end.

(* `out` (an emitted / re-tokenised token list, whitespace included) conforms to `exp` *)
Fixpoint conforms (out : list tok) (exp : list etok) {struct exp} : bool :=
  match exp with
  | [] => match out with [] => true | [TWs _] => true | _ => false end
  | e :: exp' =>
      match e_tok e with
      | TWs _ => (* a required whitespace token of the value context *)
          match out with
          | TWs _ :: out' => conforms out' exp'
          | _ => false
          end
      | et =>
          match out with
          | TWs _ :: t :: out' =>
              match e_gap e with
              | GNo => false
              | _ => tok_shape_eqb t et && conforms out' exp'
              end
          | t :: out' =>
              match e_gap e with
              | GReq => false
              | _ => tok_shape_eqb t et && conforms out' exp'
              end
          | [] => false
          end
      end
  end.

(* ---------------------------------------------------------------- known deviation classes *)

(* D15: unicode-range *)
Section K15.
Variable rec : node -> bool.
Fixpoint k15_l (l : list node) : bool :=
  match l with
  | [] => false
  | n :: r =>
      (match n with
       | Leaf t _ => is_u_ident t && match head_tok r with Some t2 => starts_plus t2 | None => false end
       | Block _ _ _ _ _ => rec n
       end) || k15_l r
  end.
End K15.
Fixpoint k15_node (n : node) : bool :=
  match n with
  | Leaf _ _ => false
  | Block _ _ body _ _ => k15_l k15_node body
  end.
Definition k15_list (l : list node) : bool := k15_l k15_node l.

(* D27: `||` (two adjacent `|` delimiters: the column combinator, or `||` of a value grammar).
   cssparser 0.34 has no token for it and its separator table splits the pair: `| |` *)
Section K27.
Variable rec : node -> bool.
Fixpoint k27_l (l : list node) : bool :=
  match l with
  | [] => false
  | n :: r =>
      (match n with
       | Leaf (TDelim c) _ =>
           (c =? 124) && match r with Leaf (TDelim c2) _ :: _ => c2 =? 124 | _ => false end
       | Leaf _ _ => false
       | Block _ _ _ _ _ => rec n
       end) || k27_l r
  end.
End K27.
Fixpoint k27_node (n : node) : bool :=
  match n with
  | Leaf _ _ => false
  | Block _ _ body _ _ => k27_l k27_node body
  end.
Definition k27_list (l : list node) : bool := k27_l k27_node l.

(* D28: a number followed (possibly after whitespace / comments, which value context drops) by
   `-->` (CDC): the separator table of cssparser has no entry
   for Number x CDC, `5-->` re-tokenises as the dimension `5--` and `>`.  CDC is only well-formed
   at the top level, so only the top-level list is scanned. *)
Fixpoint k28_list (l : list node) : bool :=
  match l with
  | [] => false
  | n :: r =>
      (match n, skip_ws r with
       | Leaf (TNum _) _, Leaf TCDC _ :: _ => true
       | _, _ => false
       end) || k28_list r
  end.

(* D29: an `rpx` dimension directly in the prelude of an at-rule (not inside a block of it) is
   written unchanged; pinned by the unit test transform_rpx_in_simple_at_rules (`@a 75rpx;`).
   Curly blocks are searched recursively (rule lists and declaration lists alike). *)
Section K29.
Variable rec : node -> bool.
Fixpoint k29_l (l : list node) (in_at : bool) : bool :=
  match l with
  | [] => false
  | n :: r =>
      match n with
      | Leaf (TAt _) _ => k29_l r true
      | Leaf TSemi _ => k29_l r false
      | Leaf (TDim _ u) _ => (in_at && str_eqb u s_rpx) || k29_l r in_at
      | Leaf _ _ => k29_l r in_at
      | Block TCurly _ _ _ _ => rec n || k29_l r false
      | Block _ _ _ _ _ => k29_l r in_at
      end
  end.
End K29.
Fixpoint k29_node (n : node) : bool :=
  match n with
  | Leaf _ _ => false
  | Block _ _ body _ _ => k29_l k29_node body false
  end.
Definition k29_list (l : list node) : bool := k29_l k29_node l false.

(* D24: cssparser prints a dimension whose unit starts with e/E followed by a digit (or by
   `-` and a digit, already escaped by the serializer... only the digit case is open) so that
   it re-tokenises as a number in scientific notation *)
Definition unit_e_digit (u : str) : bool :=
  match u with
  | c :: d :: _ => ((c =? 101) || (c =? 69)) && is_digit d
  | _ => false
  end.
Fixpoint k24_node (n : node) : bool :=
  match n with
  | Leaf (TDim _ u) _ => unit_e_digit u
  | Leaf _ _ => false
  | Block _ _ body _ _ =>
      (fix go (l : list node) : bool :=
         match l with [] => false | x :: r => k24_node x || go r end) body
  end.

(* whole-sheet scan for the rule-level classes; returns the list of class ids that apply *)
Definition K15 : N := 15.  Definition K24 : N := 24.
Definition K27 : N := 27.  Definition K28 : N := 28.  Definition K29 : N := 29.

Definition flag (b : bool) (k : N) : list N := if b then [k] else [].

(* class ids that apply to a sheet (without repetition).  All remaining classes (15, 24, 27, 28, 29) are
   properties of the token tree alone; 15, 24, 27, 28 are limits of cssparser's serializer.  The
   former classes 13, 14, 17, 23, 25, 26 (and 22 of the source maps) were repaired in the code
   (fix: commits) and no longer exist: such sheets are checked like any other. *)
Definition known (o : opts) (tree : list node) : list N :=
  nodup N.eq_dec
    (flag (k15_list tree) K15 ++ flag (existsb k24_node tree) K24 ++ flag (k27_list tree) K27
     ++ flag (k28_list tree) K28 ++ flag (k29_list tree) K29).

Definition wf_tree (o : opts) (tree : list node) : bool :=
  wf_nodes true tree && so_complete (expected o tree).
