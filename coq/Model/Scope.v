(* Model of the second parsing round: init_scopes_and_binding_map_keys (scope conversion with a
   push/truncate stack, inside_dynamic_tree counting, binding-map collection / disabling). *)
From GE Require Export Model.Tmpl Model.BindingMap.

Record sas := { s_scopes : list str; s_dyn : nat; s_bmc : bmc }.

(* Value::init_scopes_and_binding_map_keys; returns the converted value and the collected keys *)
Definition analyse_value (st : sas) (disable : bool) (v : value) : sas * value * option (list (str * N)) :=
  match v with
  | VStatic s => (st, VStatic s, None)
  | VDynamic e =>
      let e' := convert_scopes (s_scopes st) e in
      if orb (Nat.ltb 0 (s_dyn st)) disable then
        ({| s_scopes := s_scopes st; s_dyn := s_dyn st; s_bmc := disable_keys (s_bmc st) e' |}, VDynamic e', None)
      else
        let '(b, keys) := collect_keys (s_bmc st) e' in
        ({| s_scopes := s_scopes st; s_dyn := s_dyn st; s_bmc := b |}, VDynamic e', Some keys)
  end.

(* the per-value key annotations, in traversal order, are collected in a log *)
Definition klog := list (option (list (str * N))).

Fixpoint analyse_vals (st : sas) (disable : bool) (l : list vattr) (log : klog) : sas * list vattr * klog :=
  match l with
  | [] => (st, [], log)
  | a :: r =>
      match va_val a with
      | None => let '(st', r', log') := analyse_vals st disable r log in (st', a :: r', log')
      | Some v =>
          let '(st1, v', k) := analyse_value st disable v in
          let '(st2, r', log') := analyse_vals st1 disable r (log ++ [k]) in
          (st2, {| va_chan := va_chan a; va_val := Some v' |} :: r', log')
      end
  end.

Definition push_scopes (st : sas) (names : list str) : sas :=
  {| s_scopes := s_scopes st ++ names; s_dyn := s_dyn st; s_bmc := s_bmc st |}.
Definition set_scopes (st : sas) (sc : list str) : sas :=
  {| s_scopes := sc; s_dyn := s_dyn st; s_bmc := s_bmc st |}.
Definition inc_dyn (st : sas) : sas := {| s_scopes := s_scopes st; s_dyn := S (s_dyn st); s_bmc := s_bmc st |}.
Definition dec_dyn (st : sas) : sas := {| s_scopes := s_scopes st; s_dyn := pred (s_dyn st); s_bmc := s_bmc st |}.
Definition bmc_disable_all (st : sas) : sas :=
  {| s_scopes := s_scopes st; s_dyn := s_dyn st; s_bmc := disable_all (s_bmc st) |}.

Fixpoint analyse_node (st : sas) (n : node) (log : klog) {struct n} : sas * node * klog :=
  match n with
  | NText v =>
      let '(st1, v', k) := analyse_value st false v in
      (st1, NText v', match v with VDynamic _ => log ++ [k] | VStatic _ => log end)
  | NOther => (st, NOther, log)
  | NElem tag statics vals refs children =>
      let prev := s_scopes st in
      let st1 := push_scopes st (map snd refs) in
      let '(st2, vals', log1) := analyse_vals st1 false vals log in
      let '(st3, ch', log2) := analyse_nodes st2 children log1 in
      (set_scopes st3 prev, NElem tag statics vals' refs ch', log2)
  | NPure slot refs children =>
      let prev := s_scopes st in
      let st1 := push_scopes st (map snd refs) in
      let '(st2, slot', log1) :=
        match slot with
        | Some v => let '(s, v', k) := analyse_value st1 true v in
                    (s, Some v', match v with VDynamic _ => log ++ [k] | VStatic _ => log end)
        | None => (st1, None, log)
        end in
      let '(st3, ch', log2) := analyse_nodes st2 children log1 in
      (set_scopes st3 prev, NPure slot' refs ch', log2)
  | NFor lst item index key children =>
      let prev := s_scopes st in
      let st0 := inc_dyn st in
      let '(st1, lst', k) := analyse_value st0 true lst in
      let log1 := match lst with VDynamic _ => log ++ [k] | VStatic _ => log end in
      let st2 := push_scopes st1 [item; index] in
      let '(st3, ch', log2) := analyse_nodes st2 children log1 in
      (dec_dyn (set_scopes st3 prev), NFor lst' item index key ch', log2)
  | NIf branches has_else else_body =>
      let prev := s_scopes st in
      let st0 := inc_dyn st in
      (* all conditions first (for_each_value_mut), then the bodies *)
      let '(st1, conds, log1) := analyse_conds st0 branches log in
      let '(st2, br', log2) := analyse_bodies st1 branches conds log1 in
      let '(st3, el', log3) := analyse_nodes st2 else_body log2 in
      (dec_dyn (set_scopes st3 prev), NIf br' has_else el', log3)
  | NTmplRef target data =>
      let st0 := inc_dyn st in
      let '(st1, t', k1) := analyse_value st0 true target in
      let log1 := match target with VDynamic _ => log ++ [k1] | VStatic _ => log end in
      let '(st2, d', k2) := analyse_value st1 true data in
      let log2 := match data with VDynamic _ => log1 ++ [k2] | VStatic _ => log1 end in
      (dec_dyn st2, NTmplRef t' d', log2)
  | NInclude path => (bmc_disable_all st, NInclude path, log)
  | NSlot name vals refs =>
      let prev := s_scopes st in
      let st0 := inc_dyn st in
      let st1 := push_scopes st0 (map snd refs) in
      let '(st2, name', k) := analyse_value st1 true name in
      let log1 := match name with VDynamic _ => log ++ [k] | VStatic _ => log end in
      (* slot values are visited with disable=true, the common attributes with false; inside a
         dynamic tree both disable, so one pass with the flag of the values is equivalent *)
      let '(st3, vals', log2) := analyse_vals st2 true vals log1 in
      (dec_dyn (set_scopes st3 prev), NSlot name' vals' refs, log2)
  end
with analyse_nodes (st : sas) (l : nodes) (log : klog) {struct l} : sas * nodes * klog :=
  match l with
  | NNil => (st, NNil, log)
  | NCons n r =>
      let '(st1, n', log1) := analyse_node st n log in
      let '(st2, r', log2) := analyse_nodes st1 r log1 in
      (st2, NCons n' r', log2)
  end
with analyse_conds (st : sas) (b : ifbranches) (log : klog) {struct b} : sas * list value * klog :=
  match b with
  | BNil => (st, [], log)
  | BCons c _ r =>
      let '(st1, c', k) := analyse_value st true c in
      let log1 := match c with VDynamic _ => log ++ [k] | VStatic _ => log end in
      let '(st2, cs, log2) := analyse_conds st1 r log1 in
      (st2, c' :: cs, log2)
  end
with analyse_bodies (st : sas) (b : ifbranches) (conds : list value) (log : klog) {struct b} : sas * ifbranches * klog :=
  match b with
  | BNil => (st, BNil, log)
  | BCons c body r =>
      let c' := match conds with x :: _ => x | [] => c end in
      let '(st1, body', log1) := analyse_nodes st body log in
      let '(st2, r', log2) := analyse_bodies st1 r (tl conds) log1 in
      (st2, BCons c' body' r', log2)
  end.

(* Template::parse second round: sub-templates see only the script modules and are analysed
   with inside_dynamic_tree = 1 and a private collector; then the main content. *)
Definition analyse_template (t : template) : template * bmc * klog :=
  let globals := map sc_module (t_scripts t) in
  let subs' := map (fun nb => let '(_, b', _) := analyse_nodes {| s_scopes := globals; s_dyn := 1; s_bmc := bmc_new |} (snd nb) [] in
                              (fst nb, b')) (t_subs t) in
  let '(st, content', log) := analyse_nodes {| s_scopes := globals; s_dyn := 0; s_bmc := bmc_new |} (t_content t) [] in
  ({| t_path := t_path t; t_imports := t_imports t; t_includes := t_includes t; t_scripts := t_scripts t;
      t_subs := subs'; t_content := content' |}, s_bmc st, log).
