(* Character-level model of the expression parser (parse/expr.rs: parse_expression_or_object_inner,
   parse_cond, the ten left-to-right levels, parse_reverse, parse_member, parse_lit, object / array
   literals) and of the value parser around it (parse/tag.rs: Value::parse_data_binding,
   Value::parse_until_before).

   The parser state is the remaining input.  Inside an expression every peek / consume first skips
   white space and `/* */` comments (`skip`); a failing parse leaves the cursor somewhere, and the
   binding parser then resumes after the next `}}` found from there, so failures carry their
   position (PFail).  Recursion: parse_cond calls itself only after at least one character has been
   consumed, so `S (length s)` is enough fuel; the loops (operators of one level, member chain,
   object / array / argument lists) consume at least one character per round. *)
From GE Require Export Model.Expr Model.NumLit Model.WxStr Model.TextDecode Model.Lit.

Inductive pres (A : Type) :=
  | POk (a : A) (rest : str)
  | PFail (pos : str) (warned : bool).   (* warned: a diagnostic was added before failing *)
Arguments POk {A} a rest.
Arguments PFail {A} pos warned.

Definition is_nil (s : str) : bool := match s with [] => true | _ => false end.

(* ---- white space and comments ---- *)
Definition is_ws (c : N) : bool := (c =? 32) || ((9 <=? c) && (c <=? 13)).
Fixpoint drop_ws (s : str) : str :=
  match s with
  | c :: r => if is_ws c then drop_ws r else s
  | [] => []
  end.
(* the input after the first "*/" ; the whole input is skipped when there is none *)
Fixpoint after_close (s : str) : str :=
  match s with
  | c :: r =>
      match r with
      | d :: r' => if (c =? 42) && (d =? 47) then r' else after_close r
      | [] => []
      end
  | [] => []
  end.
Fixpoint sk (fuel : nat) (s : str) : str :=
  match fuel with
  | O => s
  | S f =>
      match drop_ws s with
      | c :: d :: r => if (c =? 47) && (d =? 42) then sk f (after_close r) else c :: d :: r
      | s1 => s1
      end
  end.
Definition skip (s : str) : str := sk (S (length s)) s.

(* ---- tokens ---- *)
Definition is_ident_start (c : N) : bool := (c =? 95) || (c =? 36) || is_alpha c.

Fixpoint take_ident (s : str) : str * str :=
  match s with
  | c :: r => if is_ident_char c then let '(a, b) := take_ident r in (c :: a, b) else ([], s)
  | [] => ([], [])
  end.

(* try_parse_field_name *)
Definition field_name (s : str) : option (str * str) :=
  match skip s with
  | c :: r => if is_ident_start c then Some (take_ident (c :: r)) else None
  | [] => None
  end.

(* consume_str_except_followed *)
Definition tok (t : str) (excepts : list str) (s : str) : option str :=
  let s1 := skip s in
  if starts_with t s1 then
    let r := skipn (length t) s1 in
    if existsb (fun e => starts_with e r) excepts then None else Some r
  else None.
(* consume_str_except_followed_char(.., is_ident_char) *)
Definition kw (t : str) (s : str) : option str :=
  let s1 := skip s in
  if starts_with t s1 then
    let r := skipn (length t) s1 in
    match r with
    | c :: _ => if is_ident_char c then None else Some r
    | [] => Some r
    end
  else None.

(* ParseOperator::condition : `?` not followed by `?` or `.`, except `?.<digit>` *)
Definition tok_cond (s : str) : option str :=
  match tok (lit "?") [lit "?"; lit "."] s with
  | Some r => Some r
  | None =>
      match skip s with
      | a :: b :: d :: r => if (a =? 63) && (b =? 46) && is_digit d then Some (b :: d :: r) else None
      | _ => None
      end
  end.

Definition optab (A : Type) := list (A * (str -> option str)).
Fixpoint first_op {A : Type} (ops : optab A) (s : str) : option (A * str) :=
  match ops with
  | [] => None
  | (b, t) :: r => match t s with Some rest => Some (b, rest) | None => first_op r s end
  end.

Definition unops : optab unop :=
  [ (UNot, tok (lit "!") []); (UBitNot, tok (lit "~") []);
    (UPos, tok (lit "+") [lit "+"; lit "="]); (UNeg, tok (lit "-") [lit "-"; lit "="]);
    (UTypeof, kw (lit "typeof")); (UVoid, kw (lit "void")) ].

Definition ops_mul : optab binop :=
  [ (BMul, tok (lit "*") [lit "*"; lit "/"; lit "="]); (BDiv, tok (lit "/") [lit "*"; lit "/"; lit "="]);
    (BRem, tok (lit "%") [lit "="]) ].
Definition ops_add : optab binop :=
  [ (BAdd, tok (lit "+") [lit "+"; lit "="]); (BSub, tok (lit "-") [lit "-"; lit "="]) ].
Definition ops_shift : optab binop :=
  [ (BShl, tok (lit "<<") [lit "="]); (BShr, tok (lit ">>") [lit ">"; lit "="]); (BUshr, tok (lit ">>>") [lit "="]) ].
Definition ops_cmp : optab binop :=
  [ (BLt, tok (lit "<") [lit "<"; lit "="]); (BGt, tok (lit ">") [lit ">"; lit "="]);
    (BLe, tok (lit "<=") []); (BGe, tok (lit ">=") []); (BInstanceof, kw (lit "instanceof")) ].
Definition ops_eq : optab binop :=
  [ (BEq, tok (lit "==") [lit "="]); (BNe, tok (lit "!=") [lit "="]); (BEqq, tok (lit "===") []); (BNeq, tok (lit "!==") []) ].
Definition ops_band : optab binop := [ (BAnd, tok (lit "&") [lit "&"; lit "="]) ].
Definition ops_bxor : optab binop := [ (BXor, tok (lit "^") [lit "="]) ].
Definition ops_bor : optab binop := [ (BOr, tok (lit "|") [lit "|"; lit "="]) ].
Definition ops_land : optab binop := [ (BLAnd, tok (lit "&&") [lit "="]) ].
Definition ops_lor : optab binop := [ (BLOr, tok (lit "||") [lit "="]); (BNullish, tok (lit "??") [lit "="]) ].

Definition keyword_or_field (name : str) : expr :=
  if str_eqb name (lit "undefined") then EUndef
  else if str_eqb name (lit "null") then ENull
  else if str_eqb name (lit "true") then EBool true
  else if str_eqb name (lit "false") then EBool false
  else EField name.

(* floats are not evaluated by the model: the literal is kept as a tagged text
   ("D" + the decimal slice Rust parses, "P" + mantissa "," dropped bits for the power-of-two
   accumulator); the correspondence check turns both sides into an f64 *)
Definition num_result (s1 : str) : pres expr :=
  let '(r, n) := parse_number_fixed s1 in
  let rest := skipn (N.to_nat n) s1 in
  match r with
  | NInt z => POk (EInt z) rest
  | NFloatPow2 m d _ => POk (EFloat (80 :: to_dec m ++ 44 :: to_dec d)) rest
  | NFloatDec t => POk (EFloat (68 :: t)) rest
  | NErr => PFail rest true
  | NEnd => PFail rest false
  | NPanic _ => PFail [] true
  end.

Section WithCond.
  (* parse_cond at the recursion depth below *)
  Variable pcond : str -> pres expr.

  (* the argument list after `(` : stops before `)` *)
  Fixpoint args_loop (n : nat) (s : str) : pres exprs :=
    match n with
    | O => PFail s true
    | S k =>
        match skip s with
        | [] => PFail [] false
        | c :: _ =>
            if c =? 41 then POk XNil (skip s)
            else match pcond s with
                 | PFail p w => PFail p w
                 | POk e rest =>
                     match tok (lit ",") [] rest with
                     | Some rest2 =>
                         match args_loop k rest2 with
                         | POk more r3 => POk (XCons e more) r3
                         | PFail p w => PFail p w
                         end
                     | None => POk (XCons e XNil) (skip rest)
                     end
                 end
        end
    end.

  (* parse_object_inner: stops before `}` or at the end of the input *)
  Fixpoint obj_loop (n : nat) (s : str) : pres ofields :=
    match n with
    | O => PFail s true
    | S k =>
        match skip s with
        | [] => POk ONil []
        | c :: _ =>
            if c =? 125 then POk ONil (skip s)
            else if c =? 46 then
              match tok (lit "...") [] s with
              | None => PFail (skip s) true
              | Some r =>
                  match pcond r with
                  | PFail p w => PFail p w
                  | POk v rest =>
                      match skip rest with
                      | [] => PFail [] false
                      | d :: rest2 =>
                          if d =? 125 then POk (OSpread v ONil) (skip rest)
                          else if d =? 44 then
                            match obj_loop k rest2 with
                            | POk more r3 => POk (OSpread v more) r3
                            | PFail p w => PFail p w
                            end
                          else PFail (skip rest) true
                      end
                  end
              end
            else
              match field_name s with
              | None => PFail (skip s) true
              | Some (name, r) =>
                  match skip r with
                  | [] => POk (ONamed name (EField name) ONil) []
                  | d :: r2 =>
                      if d =? 58 then
                        match pcond r2 with
                        | PFail p w => PFail p w
                        | POk v rest =>
                            match skip rest with
                            | [] => PFail [] false
                            | d2 :: rest2 =>
                                if d2 =? 125 then POk (ONamed name v ONil) (skip rest)
                                else if d2 =? 44 then
                                  match obj_loop k rest2 with
                                  | POk more r3 => POk (ONamed name v more) r3
                                  | PFail p w => PFail p w
                                  end
                                else PFail (skip rest) true
                            end
                        end
                      else if d =? 125 then POk (ONamed name (EField name) ONil) (skip r)
                      else if d =? 44 then
                        match obj_loop k r2 with
                        | POk more r3 => POk (ONamed name (EField name) more) r3
                        | PFail p w => PFail p w
                        end
                      else PFail (skip r) true
                  end
              end
        end
    end.

  (* parse_array_inner: stops before `]` or at the end of the input *)
  Fixpoint arr_loop (n : nat) (s : str) : pres afields :=
    match n with
    | O => PFail s true
    | S k =>
        match skip s with
        | [] => POk ANil []
        | c :: r0 =>
            if c =? 93 then POk ANil (skip s)
            else if c =? 44 then
              match arr_loop k r0 with
              | POk more r3 => POk (AHole more) r3
              | PFail p w => PFail p w
              end
            else
              let spread := starts_with (lit "...") (skip s) in
              let item_start := if spread then skipn 3 (skip s) else s in
              match pcond item_start with
              | PFail p w => PFail p w
              | POk v rest =>
                  let mk := fun more => if spread then ASpread v more else ANormal v more in
                  match skip rest with
                  | [] => PFail [] false
                  | d :: rest2 =>
                      if d =? 93 then POk (mk ANil) (skip rest)
                      else if d =? 44 then
                        match arr_loop k rest2 with
                        | POk more r3 => POk (mk more) r3
                        | PFail p w => PFail p w
                        end
                      else PFail (skip rest) true
                  end
              end
        end
    end.

  Definition p_lit (s : str) : pres expr :=
    let s1 := skip s in
    match s1 with
    | [] => PFail [] false
    | c :: r =>
        if is_ident_start c then let '(name, rest) := take_ident s1 in POk (keyword_or_field name) rest
        else if (c =? 34) || (c =? 39) then
          match wx_str_decode c r with
          | Some (v, rest) => POk (EStr v) rest
          | None => PFail [] false
          end
        else if is_digit c || (c =? 46) then num_result s1
        else if c =? 40 then
          match pcond r with
          | PFail p w => PFail p w
          | POk e rest =>
              match tok (lit ")") [] rest with
              | Some rest2 => POk e rest2
              | None => PFail (skip rest) true
              end
          end
        else if c =? 123 then
          match obj_loop (S (length r)) r with
          | PFail p w => PFail p w
          | POk fs rest =>
              match tok (lit "}") [] rest with
              | Some rest2 => POk (EObj fs) rest2
              | None => PFail (skip rest) true
              end
          end
        else if c =? 91 then
          match arr_loop (S (length r)) r with
          | PFail p w => PFail p w
          | POk fs rest =>
              match tok (lit "]") [] rest with
              | Some rest2 => POk (EArr fs) rest2
              | None => PFail (skip rest) true
              end
          end
        else PFail s1 true
    end.

  (* the member / index / call chain of parse_member *)
  Fixpoint member_loop (n : nat) (obj : expr) (s : str) : pres expr :=
    match n with
    | O => PFail s true
    | S k =>
        match tok (lit ".") [lit ".."] s with
        | Some r =>
            match field_name r with
            | Some (name, rest) => member_loop k (EMember obj name) rest
            | None => PFail (skip r) true
            end
        | None =>
            match tok (lit "[") [] s with
            | Some r =>
                match pcond r with
                | PFail p w => PFail p w
                | POk e rest =>
                    match tok (lit "]") [] rest with
                    | Some rest2 => member_loop k (EIndex obj e) rest2
                    | None => PFail (skip rest) (negb (is_nil (skip rest)))
                    end
                end
            | None =>
                match tok (lit "(") [] s with
                | Some r =>
                    match args_loop (S (length r)) r with
                    | PFail p w => PFail p w
                    | POk args rest =>
                        match tok (lit ")") [] rest with
                        | Some rest2 => member_loop k (ECall obj args) rest2
                        | None => PFail (skip rest) (negb (is_nil (skip rest)))
                        end
                    end
                | None => POk obj (skip s)
                end
            end
        end
    end.

  Definition p_member (s : str) : pres expr :=
    match p_lit s with
    | PFail p w => PFail p w
    | POk o rest => member_loop (S (length rest)) o rest
    end.

  (* parse_reverse *)
  Fixpoint unary_loop (n : nat) (s : str) : pres expr :=
    match n with
    | O => PFail s true
    | S k =>
        match first_op unops s with
        | Some (u, rest) =>
            match unary_loop k rest with
            | POk e r => POk (EUn u e) r
            | PFail p w => PFail p w
            end
        | None => p_member s
        end
    end.
  Definition p_unary (s : str) : pres expr := unary_loop (S (length s)) s.

  (* parse_left_to_right! *)
  Fixpoint level_loop (next : str -> pres expr) (ops : optab binop) (n : nat) (left : expr) (s : str) : pres expr :=
    match n with
    | O => PFail s true
    | S k =>
        match first_op ops s with
        | Some (b, rest) =>
            match next rest with
            | POk r rest2 => level_loop next ops k (EBin b left r) rest2
            | PFail p w => PFail p w
            end
        | None => POk left (skip s)
        end
    end.
  Definition level (next : str -> pres expr) (ops : optab binop) (s : str) : pres expr :=
    match next s with
    | PFail p w => PFail p w
    | POk l rest => level_loop next ops (S (length rest)) l rest
    end.

  Definition p_mul := level p_unary ops_mul.
  Definition p_add := level p_mul ops_add.
  Definition p_shift := level p_add ops_shift.
  Definition p_cmp := level p_shift ops_cmp.
  Definition p_eq := level p_cmp ops_eq.
  Definition p_band := level p_eq ops_band.
  Definition p_bxor := level p_band ops_bxor.
  Definition p_bor := level p_bxor ops_bor.
  Definition p_land := level p_bor ops_land.
  Definition p_lor := level p_land ops_lor.

  Definition cond_body (s : str) : pres expr :=
    match p_lor s with
    | PFail p w => PFail p w
    | POk c rest =>
        match tok_cond rest with
        | None => POk c (skip rest)
        | Some r =>
            match pcond r with
            | PFail p w => PFail p w
            | POk t rest2 =>
                match tok (lit ":") [] rest2 with
                | None => PFail (skip rest2) true
                | Some r3 =>
                    match pcond r3 with
                    | PFail p w => PFail p w
                    | POk f rest3 => POk (ECond c t f) rest3
                    end
                end
            end
        end
    end.
End WithCond.

Fixpoint parse_cond_fuel (fuel : nat) (s : str) : pres expr :=
  match fuel with
  | O => PFail s true
  | S f => cond_body (parse_cond_fuel f) s
  end.
Definition parse_cond (s : str) : pres expr := parse_cond_fuel (S (length s)) s.

(* parse_expression_or_object_inner *)
Definition is_object_inner (tdata : bool) (s : str) : bool :=
  match field_name s with
  | Some (_, r) =>
      match skip r with
      | c :: _ => (c =? 58) || (c =? 44) || (tdata && starts_with (lit "}}") (skip r))
      | [] => false
      end
  | None => starts_with (lit "...") (skip s)
  end.

Definition parse_top (tdata : bool) (s : str) : pres expr :=
  if is_object_inner tdata s then
    match obj_loop (parse_cond_fuel (S (length s))) (S (length s)) s with
    | POk fs rest => POk (EObj fs) rest
    | PFail p w => PFail p w
    end
  else parse_cond s.

(* ---- Value::parse_data_binding, after the opening braces ---- *)
(* the input before and after the first "}}" *)
Fixpoint find_close (s : str) : option (str * str) :=
  match s with
  | [] => None
  | c :: r =>
      if starts_with (lit "}}") s then Some ([], skipn 2 s)
      else match find_close r with
           | Some (b, a) => Some (c :: b, a)
           | None => None
           end
  end.

Definition binding (tdata : bool) (s : str) : option expr * str :=
  if starts_with (lit "}}") (skip s) then (None, skipn 2 (skip s))
  else
    match parse_top tdata s with
    | PFail p _ => (None, match find_close p with Some (_, a) => a | None => [] end)
    | POk e rest =>
        match find_close (drop_ws rest) with
        | None => (None, [])
        | Some ([], a) => (Some e, a)
        | Some (_ :: _, a) => (None, a)
        end
    end.

(* the diagnostic the binding parser itself is responsible for *)
Inductive bdiag :=
  | DOk
  | DEmpty                               (* EmptyExpression *)
  | DGarbage                             (* UnexpectedExpressionCharacter after the expression *)
  | DMissingEnd (inner_warned : bool)    (* MissingExpressionEnd *)
  | DInner (inner_warned : bool).        (* the expression parser failed; the binding is skipped up to the next "}}" *)

Definition binding_d (tdata : bool) (s : str) : option expr * str * bdiag :=
  if starts_with (lit "}}") (skip s) then (None, skipn 2 (skip s), DEmpty)
  else
    match parse_top tdata s with
    | PFail p w =>
        match find_close p with
        | Some (_, a) => (None, a, DInner w)
        | None => (None, [], DMissingEnd w)
        end
    | POk e rest =>
        match find_close (drop_ws rest) with
        | None => (None, [], DMissingEnd false)
        | Some ([], a) => (Some e, a, DOk)
        | Some (_ :: _, a) => (None, a, DGarbage)
        end
    end.

(* ---- Value::parse_until_before ---- *)
Inductive vst := RS (v : str) | RD (e : expr) (wrapped : bool).

Definition combine_binding (ret : vst) (e : expr) : vst :=
  match ret with
  | RS v => match v with
            | [] => RD e false
            | _ => RD (EBin BAdd (EStr v) (EToStr e)) true
            end
  | RD l w => RD (EBin BAdd (if w then l else EToStr l) (EToStr e)) true
  end.

(* before static text is appended to a dynamic value its expression must end in a string literal *)
Definition ends_in_literal (e : expr) : bool :=
  match e with
  | EBin BAdd _ (EStr _) => true
  | _ => false
  end.
Definition convert_for_text (ret : vst) : vst :=
  match ret with
  | RS v => RS v
  | RD e w => if ends_in_literal e then RD e w
              else RD (EBin BAdd (if w then e else EToStr e) (EStr [])) true
  end.
Definition append_text (ret : vst) (t : str) : vst :=
  match ret with
  | RS v => RS (v ++ t)
  | RD (EBin BAdd l (EStr v)) w => RD (EBin BAdd l (EStr (v ++ t))) w
  | RD e w => RD e w     (* unreachable after convert_for_text *)
  end.

Section Value.
  Variable named : str -> option str.      (* the named character references *)
  Variable stop : str -> bool.             (* the `until` predicate on the remaining input *)

  (* the inner do-while: decoded pieces up to the stop / the end / the next "{{" *)
  Fixpoint text_run (n : nat) (s : str) : str * str :=
    match n with
    | O => ([], s)
    | S k =>
        let '(p, rest) := next_piece named s in
        if stop rest || is_nil rest || starts_with (lit "{{") rest then (p, rest)
        else let '(q, r2) := text_run k rest in (p ++ q, r2)
    end.

  Fixpoint value_loop (n : nat) (ret : vst) (s : str) : vst * str :=
    match n with
    | O => (ret, s)
    | S k =>
        if stop s || is_nil s then (ret, s)
        else if starts_with (lit "{{") s then
          match binding false (skipn 2 s) with
          | (Some e, rest) => value_loop k (combine_binding ret e) rest
          | (None, rest) => value_loop k ret rest
          end
        else
          let '(txt, rest) := text_run (S (length s)) s in
          value_loop k (append_text (convert_for_text ret) txt) rest
    end.

  Definition parse_value (s : str) : vst * str := value_loop (S (length s)) (RS []) s.
End Value.

(* the `until` predicates of the two callers *)
Definition stop_text (s : str) : bool :=
  match s with
  | 60 :: c :: _ => (c =? 47) || (c =? 33) || is_alpha c || (c =? 95)
  | _ => false
  end.
Definition stop_quote (q : N) (s : str) : bool :=
  match s with
  | c :: _ => c =? q
  | [] => false
  end.

(* ---- the other two callers of the binding parser ---- *)
(* `data="{{ ... }}"` of <template is> (Attribute::parse_optional_value_as_object): one binding in
   template-data mode that must end at the closing quote; anything else gives the empty value.
   None stands for the empty static value *)
Definition data_attr_value (q : N) (s : str) : option expr :=
  if starts_with (lit "{{") s then
    let '(v, rest) := binding true (skipn 2 s) in
    match rest with
    | [] => v
    | c :: _ => if c =? q then v else None
    end
  else None.

(* an unquoted `name={{ ... }}` *)
Definition unquoted_attr_value (s : str) : option expr := fst (binding false (skipn 2 s)).
