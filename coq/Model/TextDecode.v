(* Model of StrName::parse_next_entity (parse/tag.rs): how static text and static attribute
   values are decoded character by character. An `&` starts a character reference
   `&#x<hex>;` / `&#<digits>;` / `&<letter><letters or digits>;`; when the scan or the decoding
   fails the `&` is kept literally and scanning resumes after it. *)
From GE Require Export Model.Str Model.Hex Model.Entities.

Definition is_alpha_c (c : N) : bool := ((65 <=? c) && (c <=? 90)) || ((97 <=? c) && (c <=? 122)).
Definition is_hex_c (c : N) : bool := is_digit c || ((65 <=? c) && (c <=? 70)) || ((97 <=? c) && (c <=? 102)).

(* the characters up to and including the terminating ';', all satisfying `ok`; None when
   another character or the end of input comes first *)
Fixpoint scan_until_semi (ok : N -> bool) (s : str) : option (str * str) :=
  match s with
  | [] => None
  | c :: r =>
      if c =? 59 then Some ([59], r)
      else if ok c then match scan_until_semi ok r with
                        | Some (body, rest) => Some (c :: body, rest)
                        | None => None
                        end
      else None
  end.

(* after the '&' : the entity text (with the leading & and the trailing ;) and the rest *)
Definition scan_entity (after_amp : str) : option (str * str) :=
  match after_amp with
  | 35 :: 120 :: r =>                                 (* &#x *)
      match scan_until_semi is_hex_c r with
      | Some (body, rest) => Some (38 :: 35 :: 120 :: body, rest)
      | None => None
      end
  | 35 :: ((d :: _) as r) =>
      if is_digit d then
        match scan_until_semi is_digit r with
        | Some (body, rest) => Some (38 :: 35 :: body, rest)
        | None => None
        end
      else None
  | c :: r =>
      if is_alpha_c c then
        match scan_until_semi (fun x => is_alpha_c x || is_digit x) r with
        | Some (body, rest) => Some (38 :: c :: body, rest)
        | None => None
        end
      else None
  | [] => None
  end.

Section Decode.
  Variable named : str -> option str.

  (* one step: the decoded piece and the remaining input *)
  Definition next_piece (s : str) : str * str :=
    match s with
    | [] => ([], [])
    | 38 :: r =>
        match scan_entity r with
        | Some (ent, rest) =>
            match entity_decode named ent with
            | Some d => (d, rest)
            | None => ([38], r)
            end
        | None => ([38], r)
        end
    | c :: r => ([c], r)
    end.

  Fixpoint decode_fuel (fuel : nat) (s : str) : str :=
    match fuel with
    | O => []
    | S f => match s with
             | [] => []
             | _ => let '(p, rest) := next_piece s in p ++ decode_fuel f rest
             end
    end.

  (* every step consumes at least one character: the length is enough fuel *)
  Definition decode_text (s : str) : str := decode_fuel (length s) s.
End Decode.
