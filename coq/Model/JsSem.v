(* Evaluation of the emitted-JavaScript tree under data D, scope values and the values of the
   hoisted variables. The helper functions of the prelude have their defining meaning:
   X(a) = a==null ? {} : a  (so X(a).k / X(a)[k] is the null-safe read get_prop),
   Y(a) = a==null ? '' : String(a). Operators share Val.un_val / Val.bin_val with the source
   semantics (Val.eval): what is proved is that the GENERATOR preserves meaning, not what the
   operators mean. Opaque nodes (object / array literals, calls) are outside the fragment. *)
From GE Require Export Model.Val Model.JsPrint.

Section JEval.
  Variable ev : env.
  Variable henv : str -> option val.

  Fixpoint jeval (j : jx) : option val :=
    match j with
    | JUndef => Some VUndef
    | JNull => Some VNull
    | JBool b => Some (VBool b)
    | JInt z => if safe_int z then Some (VNum z) else None
    | JFloat _ => None
    | JStr s => Some (VStr s)
    | JData x => data_field (e_data ev) x
    | JScope i _ => Some (nth i (e_scopes ev) VUndef)
    | JToStr v => match jeval v with Some x => option_map VStr (display_string x) | None => None end
    | JMember o k => match jeval o with Some x => get_prop x k | None => None end
    | JIndex o i => index_val (jeval o) (henv i)
    | JUn op v => match jeval v with Some x => un_val op x | None => None end
    | JBin BLOr l r => match jeval l with Some x => if truthy x then Some x else jeval r | None => None end
    | JBin BLAnd l r => match jeval l with Some x => if truthy x then jeval r else Some x | None => None end
    | JBin BNullish l r => match jeval l with Some x => if nullish x then jeval r else Some x | None => None end
    | JBin op l r => lift2 (bin_val op) (jeval l) (jeval r)
    | JCondVar i t f => match henv i with Some x => if truthy x then jeval t else jeval f | None => None end
    | JNullishVar i r => match henv i with Some x => if nullish x then jeval r else Some x | None => None end
    | JParen v => jeval v
    | JOpaque _ _ => None
    end.
End JEval.

(* executing the hoisted statements  var i = <expr>  in order *)
Fixpoint run_hoists (ev : env) (l : list (str * jx)) (henv : str -> option val) : str -> option val :=
  match l with
  | [] => henv
  | (i, j) :: rest =>
      let v := jeval ev henv j in
      run_hoists ev rest (fun k => if str_eqb k i then v else henv k)
  end.
