(* Numbers of the stylesheet compiler: binary32 values (as bit patterns), the two f32
   operations of `write_maybe_rpx_dimension`, and the text cssparser prints for a numeric
   token: serializer.rs `write_numeric` -> dtoa-short 0.3.4 `write_with_prec(.., 6)` ->
   dtoa 1.0.9 (Grisu2 with a 32-bit DiyFp for f32) + `prettify`, then `restrict_prec`.

   This file is a transliteration of dependency code.  Its tie to the binaries is
   differential testing only (every numeric token of every generated stylesheet is printed
   by both sides); nothing here is proved correct w.r.t. IEEE-754 or the real numbers
   except the small lemmas in Proofs/CssNumProofs.v. *)
From GE Require Export Model.Str.
Open Scope N_scope.

(* ---------------------------------------------------------------- binary32 decoding *)

Definition two23 : N := 8388608.
Definition two24 : N := 16777216.
Definition two31 : N := 2147483648.
Definition two32 : N := 4294967296.

Definition f_sign (b : N) : bool := two31 <=? b.
Definition f_bexp (b : N) : N := (b / two23) mod 256.
Definition f_mant (b : N) : N := b mod two23.
Definition f_abs (b : N) : N := b mod two31.
Definition f_is_finite (b : N) : bool := negb (f_bexp b =? 255).
Definition f_is_zero (b : N) : bool := f_abs b =? 0.

(* finite value = (-1)^sign * f_sig * 2^f_exp *)
Definition f_sig (b : N) : N := if f_bexp b =? 0 then f_mant b else f_mant b + two23.
Definition f_exp (b : N) : Z := if f_bexp b =? 0 then (-149)%Z else (Z.of_N (f_bexp b) - 150)%Z.

Definition pow2 (e : N) : N := N.shiftl 1 e.

(* ---------------------------------------------------------------- rounding a rational to binary32 *)

(* n/d > 0 scaled by 2^-e : numerator and denominator *)
Definition scale_nd (n d : N) (e : Z) : N * N :=
  match e with
  | Z0 => (n, d)
  | Zpos p => (n, d * pow2 (Npos p))
  | Zneg p => (n * pow2 (Npos p), d)
  end.

(* find e >= -149 with 2^23 <= floor(n / (d 2^e)) < 2^24 (or e = -149 and the quotient below 2^23) *)
Fixpoint find_exp (fuel : nat) (n d : N) (e : Z) : Z :=
  match fuel with
  | O => e
  | S f =>
      let '(n', d') := scale_nd n d e in
      let q := n' / d' in
      if two24 <=? q then find_exp f n d (e + 1)
      else if (q <? two23) && (-149 <? e)%Z then find_exp f n d (e - 1)
      else e
  end.

(* magnitude bits (sign bit clear) of the binary32 nearest to n/d (ties to even); d > 0 *)
Definition round_mag (n d : N) : N :=
  if n =? 0 then 0 else
  let e0 := (Z.of_N (N.log2 n) - Z.of_N (N.log2 d) - 23)%Z in
  let e0 := if (e0 <? -149)%Z then (-149)%Z else e0 in
  let e := find_exp 6 n d e0 in
  let '(n', d') := scale_nd n d e in
  let q := n' / d' in
  let r := n' mod d' in
  let q1 := if d' <? 2 * r then q + 1
            else if d' =? 2 * r then (if N.odd q then q + 1 else q)
            else q in
  (* q1 may have become 2^24: renormalise *)
  let '(q2, e2) := if two24 <=? q1 then (two23, (e + 1)%Z) else (q1, e) in
  if q2 <? two23 then q2 (* subnormal, e = -149 *)
  else
    let be := (e2 + 150)%Z in
    if (255 <=? be)%Z then 255 * two23 (* overflow: infinity *)
    else Z.to_N be * two23 + (q2 - two23).

Definition with_sign (s : bool) (mag : N) : N := if s then mag + two31 else mag.

(* NaN handling follows x86 SSE (the platform the correspondence run executes on): an operand
   NaN is propagated with its sign and payload; an invalid operation (0*inf, inf/inf, 0/0)
   yields the default NaN 0xFFC00000.  NaN only arises from inputs such as `0e999rpx`. *)
Definition f_nan : N := 4290772992. (* 0xFFC00000 *)
Definition f_is_nan (b : N) : bool := (f_bexp b =? 255) && negb (f_mant b =? 0).
Definition f_inf : N := 2139095040. (* 0x7F800000 *)

(* a * b, round to nearest even *)
Definition f_mul (a b : N) : N :=
  let s := xorb (f_sign a) (f_sign b) in
  if negb (f_is_finite a) || negb (f_is_finite b) then
    (if f_is_nan a then a
     else if f_is_nan b then b
     else if f_is_zero a || f_is_zero b then f_nan
     else with_sign s f_inf)
  else
    let m := f_sig a * f_sig b in
    let e := (f_exp a + f_exp b)%Z in
    match e with
    | Z0 => with_sign s (round_mag m 1)
    | Zpos p => with_sign s (round_mag (m * pow2 (Npos p)) 1)
    | Zneg p => with_sign s (round_mag m (pow2 (Npos p)))
    end.

(* a / b, round to nearest even *)
Definition f_div (a b : N) : N :=
  let s := xorb (f_sign a) (f_sign b) in
  if f_is_nan a then a
  else if f_is_nan b then b
  else if negb (f_is_finite a) then (if negb (f_is_finite b) then f_nan else with_sign s f_inf)
  else if negb (f_is_finite b) then with_sign s 0
  else if f_is_zero b then (if f_is_zero a then f_nan else with_sign s f_inf)
  else
    let e := (f_exp a - f_exp b)%Z in
    match e with
    | Z0 => with_sign s (round_mag (f_sig a) (f_sig b))
    | Zpos p => with_sign s (round_mag (f_sig a * pow2 (Npos p)) (f_sig b))
    | Zneg p => with_sign s (round_mag (f_sig a) (f_sig b * pow2 (Npos p)))
    end.

Definition f_100 : N := 1120403456. (* 100.0f32 = 0x42C80000 *)

(* exact value of a finite f32 as numerator / denominator of its magnitude *)
Definition f_mag_nd (b : N) : N * N :=
  match f_exp b with
  | Z0 => (f_sig b, 1)
  | Zpos p => (f_sig b * pow2 (Npos p), 1)
  | Zneg p => (f_sig b, pow2 (Npos p))
  end.

(* `x.fract() == 0.` *)
Definition f_is_integral (b : N) : bool :=
  f_is_finite b && (let '(n, d) := f_mag_nd b in n mod d =? 0).

(* `x.round()` (half away from zero) as a magnitude integer, for finite x *)
Definition f_round_mag (b : N) : N :=
  let '(n, d) := f_mag_nd b in (2 * n + d) / (2 * d).

(* `(x.round() - x).abs() <= f32::EPSILON` (EPSILON = 2^-23): the difference of the two
   floats is exactly representable, so the f32 subtraction is exact *)
Definition f_near_int (b : N) : bool :=
  f_is_finite b &&
  (let '(n, d) := f_mag_nd b in
   let r := f_round_mag b in
   let diff_n := if r * d <? n then n - r * d else r * d - n in
   (* diff_n / d <= 2^-23 *)
   diff_n * two23 <=? d).

(* `x.round() as i32` : saturating, NaN -> 0 *)
Definition f_round_i32 (b : N) : Z :=
  if (f_bexp b =? 255) then
    (if f_mant b =? 0 then (if f_sign b then (-2147483648)%Z else 2147483647%Z) else 0%Z)
  else
    let r := Z.of_N (f_round_mag b) in
    if f_sign b then (if (2147483648 <=? r)%Z then (-2147483648)%Z else (- r)%Z)
    else (if (2147483647 <=? r)%Z then 2147483647%Z else r).

(* the rpx rewrite of lib.rs write_maybe_rpx_dimension: value * 100. / ratio, then
   new_int_value *)
Definition rpx_new_value (value ratio : N) : N := f_div (f_mul value f_100) ratio.
Definition rpx_new_int (nv : N) : option Z :=
  if f_near_int nv then Some (f_round_i32 nv) else None.

(* ---------------------------------------------------------------- Grisu2 for f32 (dtoa 1.0.9) *)

Record diyfp := mkfp { fp_f : N; fp_e : Z }.

Definition shl (x : N) (k : Z) : N := N.shiftl x (Z.to_N k).
Definition shr (x : N) (k : Z) : N := N.shiftr x (Z.to_N k).

Definition fp_from (b : N) : diyfp :=
  let be := f_bexp b in
  if negb (be =? 0) then mkfp (f_mant b + two23) (Z.of_N be - 127 - 23)
  else mkfp (f_mant b) (1 - 127 - 23).

Fixpoint fp_normalize_aux (fuel : nat) (f : N) (e : Z) (top : N) : diyfp :=
  match fuel with
  | O => mkfp f e
  | S k => if N.land f top =? 0 then fp_normalize_aux k (2 * f) (e - 1) top else mkfp f e
  end.

Definition fp_normalize (x : diyfp) : diyfp := fp_normalize_aux 40 (fp_f x) (fp_e x) two31.

Definition fp_normalize_boundary (x : diyfp) : diyfp :=
  let r := fp_normalize_aux 40 (fp_f x) (fp_e x) two24 in
  mkfp (fp_f r * 128) (fp_e r - 7).

Definition fp_boundaries (x : diyfp) : diyfp * diyfp :=
  let pl := fp_normalize_boundary (mkfp (2 * fp_f x + 1) (fp_e x - 1)) in
  let mi := if fp_f x =? two23 then mkfp (4 * fp_f x - 1) (fp_e x - 2)
            else mkfp (2 * fp_f x - 1) (fp_e x - 1) in
  (mkfp (shl (fp_f mi) (fp_e mi - fp_e pl)) (fp_e pl), pl).

Definition fp_mul (a b : diyfp) : diyfp :=
  mkfp ((fp_f a * fp_f b + two31) / two32) (fp_e a + fp_e b + 32).

Definition cached_f32 : list N :=
  [2854495385; 4253529587; 3169126501; 2361183241; 3518437209; 2621440000;
   3906250000; 2910383046; 2168404345; 3231174268; 2407412430; 3587324069].
Definition cached_e32 : list Z :=
  [-151; -125; -98; -71; -45; -18; 8; 35; 62; 88; 115; 141]%Z.

(* dk = (3 - 32 - e) * 0.30102999566398114 + 35 ; k = ceil dk ; index = (k >> 3) + 1.
   The f64 product is reproduced with exact rationals: for the ~300 possible e the product is
   never within 1e-3 of an integer except at e = -29 where it is exactly 0. *)
Definition cached_index (e : Z) : Z :=
  let num := ((-29 - e) * 30102999566398114 + 35 * 100000000000000000)%Z in
  let den := 100000000000000000%Z in
  let k := (let q := (num / den)%Z in if (q * den =? num)%Z then q else q + 1)%Z in
  (k / 8 + 1)%Z.

Definition get_cached_power (e : Z) : diyfp * Z :=
  let idx := cached_index e in
  let i := Z.to_nat idx in
  (mkfp (nth i cached_f32 0) (nth i cached_e32 0%Z), (36 - 8 * idx)%Z).

Definition count_digits (n : N) : nat :=
  if n <? 10 then 1 else if n <? 100 then 2 else if n <? 1000 then 3 else if n <? 10000 then 4
  else if n <? 100000 then 5 else if n <? 1000000 then 6 else if n <? 10000000 then 7
  else if n <? 100000000 then 8 else 9%nat.

Definition pow10 (k : nat) : N := N.pow 10 (N.of_nat k).

(* decrement the last digit of the buffer *)
Definition dec_last (buf : list N) : list N :=
  match rev buf with
  | [] => []
  | x :: r => rev ((x - 1) :: r)
  end.

Fixpoint grisu_round (fuel : nat) (buf : list N) (delta rest ten_kappa wp_w : N) : list N :=
  match fuel with
  | O => buf
  | S f =>
      if (rest <? wp_w) && (ten_kappa <=? delta - rest) &&
         ((rest + ten_kappa <? wp_w) || (rest + ten_kappa - wp_w <? wp_w - rest))
      then grisu_round f (dec_last buf) delta (rest + ten_kappa) ten_kappa wp_w
      else buf
  end.

(* first loop of digit_gen: integral digits; returns Some (buf, k) when finished inside *)
Fixpoint digit_gen1 (kappa : nat) (p1 p2 delta : N) (sh : Z) (wp_w : N) (buf : list N) (k : Z)
  : (list N * Z) + (list N) :=
  match kappa with
  | O => inr buf
  | S kap =>
      let pw := pow10 kap in
      let d := p1 / pw in
      let p1' := p1 mod pw in
      let buf' := if negb (d =? 0) || negb (match buf with [] => true | _ => false end)
                  then buf ++ [d] else buf in
      let tmp := shl p1' sh + p2 in
      if tmp <=? delta then
        inl (grisu_round 12 buf' delta tmp (shl pw sh) wp_w, (k + Z.of_nat kap)%Z)
      else digit_gen1 kap p1' p2 delta sh wp_w buf' k
  end.

(* second loop: fractional digits; `iter` = number of iterations already done *)
Fixpoint digit_gen2 (fuel : nat) (iter : nat) (p2 delta onef : N) (sh : Z) (wp_w : N)
                    (buf : list N) (k : Z) : list N * Z :=
  match fuel with
  | O => (buf, k)
  | S f =>
      let p2a := p2 * 10 in
      let delta' := delta * 10 in
      let d := shr p2a sh in
      let buf' := if negb (d =? 0) || negb (match buf with [] => true | _ => false end)
                  then buf ++ [d] else buf in
      let p2' := N.land p2a (onef - 1) in
      let iter' := S iter in
      if p2' <? delta' then
        let scale := if (iter' <? 9)%nat then pow10 iter' else 0 in
        (grisu_round 12 buf' delta' p2' onef (wp_w * scale), (k - Z.of_nat iter')%Z)
      else digit_gen2 f iter' p2' delta' onef sh wp_w buf' k
  end.

Definition digit_gen (w mp : diyfp) (delta : N) (k : Z) : list N * Z :=
  let sh := (- fp_e mp)%Z in
  let onef := shl 1 sh in
  let wp_w := fp_f mp - fp_f w in
  let p1 := shr (fp_f mp) sh in
  let p2 := N.land (fp_f mp) (onef - 1) in
  let kappa := count_digits p1 in
  match digit_gen1 kappa p1 p2 delta sh wp_w [] k with
  | inl r => r
  | inr buf => digit_gen2 60 0 p2 delta onef sh wp_w buf k
  end.

(* digits (values 0..9, most significant first) and decimal exponent of a finite non-zero
   magnitude *)
Definition grisu2 (b : N) : list N * Z :=
  let v := fp_from (f_abs b) in
  let '(w_m, w_p) := fp_boundaries v in
  let '(c_mk, k) := get_cached_power (fp_e w_p) in
  let w := fp_mul (fp_normalize v) c_mk in
  let wp := fp_mul w_p c_mk in
  let wm := fp_mul w_m c_mk in
  let wm := mkfp (fp_f wm + 1) (fp_e wm) in
  let wp := mkfp (fp_f wp - 1) (fp_e wp) in
  digit_gen w wp (fp_f wp - fp_f wm) k.

(* ---------------------------------------------------------------- prettify *)

Definition ch (d : N) : N := 48 + d.
Definition zeros (n : nat) : str := repeat 48 n.

Definition write_exponent (k : Z) : str :=
  let neg := (k <? 0)%Z in
  let a := Z.to_N (Z.abs k) in
  (if neg then [45] else []) ++
  (if 100 <=? a then [ch (a / 100); ch ((a mod 100) / 10); ch (a mod 10)]
   else if 10 <=? a then [ch (a / 10); ch (a mod 10)]
   else [ch a]).

Definition prettify (digits : list N) (k : Z) : str :=
  let ds := map ch digits in
  let len := Z.of_nat (length digits) in
  let kk := (len + k)%Z in
  if (0 <=? k)%Z && (kk <=? 21)%Z then ds ++ zeros (Z.to_nat k) ++ [46; 48]
  else if (0 <? kk)%Z && (kk <=? 21)%Z then
    firstn (Z.to_nat kk) ds ++ [46] ++ skipn (Z.to_nat kk) ds
  else if (-6 <? kk)%Z && (kk <=? 0)%Z then [48; 46] ++ zeros (Z.to_nat (- kk)) ++ ds
  else if (length digits =? 1)%nat then ds ++ [101] ++ write_exponent (kk - 1)
  else firstn 1 ds ++ [46] ++ skipn 1 ds ++ [101] ++ write_exponent (kk - 1).

(* dtoa::Buffer::format_finite for f32 *)
Definition dtoa_f32 (b : N) : str :=
  if f_is_zero b then (if f_sign b then [45; 48; 46; 48] else [48; 46; 48])
  else
    let '(ds, k) := grisu2 b in
    (* `if value < 0.0`: false for a NaN whatever its sign bit *)
    (if f_sign b && negb (f_is_nan b) then [45] else []) ++ prettify ds k.

(* ---------------------------------------------------------------- dtoa-short restrict_prec *)

Fixpoint set_nth (i : nat) (v : N) (l : list N) : list N :=
  match l, i with
  | [], _ => []
  | _ :: r, O => v :: r
  | x :: r, S j => x :: set_nth j v r
  end.

Definition at_ (l : list N) (i : nat) : N := nth i l 0.

Record scan_st := { sc_dot : option nat; sc_exp : option nat; sc_start : option nat }.

(* the scanning loop `for i in 1..len` (stops at 'e') *)
Fixpoint rp_scan (l : list N) (i : nat) (st : scan_st) : scan_st :=
  match l with
  | [] => st
  | c :: r =>
      if c =? 46 then rp_scan r (S i) {| sc_dot := Some i; sc_exp := sc_exp st; sc_start := sc_start st |}
      else if c =? 101 then {| sc_dot := sc_dot st; sc_exp := Some i; sc_start := sc_start st |}
      else match sc_start st with
           | None => if negb (c =? 48)
                     then rp_scan r (S i) {| sc_dot := sc_dot st; sc_exp := sc_exp st; sc_start := Some i |}
                     else rp_scan r (S i) st
           | Some _ => rp_scan r (S i) st
           end
  end.

(* carry loop: `for i in (0..prec_end).rev()`; i counts down; returns (buf, new_coeff_end) *)
Fixpoint rp_carry (i : nat) (buf : list N) (nce : nat) : list N * nat :=
  match i with
  | O => (buf, nce)
  | S j =>
      let c := at_ buf j in
      if c =? 46 then rp_carry j buf nce
      else if negb (c =? 57) then (set_nth j (c + 1) buf, S j)
      else rp_carry j (set_nth j 48 buf) nce
  end.

(* `for i in new_coeff_end..pos_dot { buf[i] = '0' }` *)
Fixpoint rp_fill (i : nat) (n : nat) (buf : list N) : list N :=
  match n with
  | O => buf
  | S m => rp_fill (S i) m (set_nth i 48 buf)
  end.

(* strip trailing zeros: `for i in (0..new_coeff_end).rev()` *)
Fixpoint rp_strip (i : nat) (buf : list N) (nce : nat) : nat :=
  match i with
  | O => nce
  | S j =>
      let c := at_ buf j in
      if negb (c =? 48) then (if c =? 46 then j else nce)
      else rp_strip j buf j
  end.

Fixpoint rp_move (n : nat) (src dst : nat) (buf : list N) : list N :=
  match n with
  | O => buf
  | S m => rp_move m (S src) (S dst) (set_nth dst (at_ buf src) buf)
  end.

Definition slice (l : list N) (a b : nat) : list N := firstn (b - a) (skipn a l).

(* returns (text, decimal_point, scientific) *)
Definition restrict_prec (s : str) (prec : nat) : str * bool * bool :=
  let buf := 48 :: s in
  let len := length buf in
  let '(buf, sign) := let c := at_ buf 1 in
                      if (c =? 43) || (c =? 45) then (set_nth 1 48 buf, Some c) else (buf, None) in
  let st := rp_scan (skipn 1 buf) 1 {| sc_dot := None; sc_exp := None; sc_start := None |} in
  match sc_start st with
  | None => ([48], false, false)
  | Some prec_start =>
      let coeff_end := match sc_exp st with Some e => e | None => len end in
      let pos_dot := match sc_dot st with Some d => d | None => coeff_end end in
      let end_ := (prec_start + prec)%nat in
      let prec_end := if (prec_start <? pos_dot)%nat && (pos_dot <=? end_)%nat then S end_ else end_ in
      let '(buf, nce) :=
        if (prec_end <? coeff_end)%nat then
          (if 53 <=? at_ buf prec_end then rp_carry prec_end buf prec_end else (buf, prec_end))
        else (buf, coeff_end) in
      let '(buf, nce) :=
        if (nce <? pos_dot)%nat then (rp_fill nce (pos_dot - nce) buf, pos_dot)
        else (buf, rp_strip nce buf nce) in
      let '(buf, real_end) :=
        match sc_exp st with
        | Some pe =>
            let exp_len := (len - pe)%nat in
            ((if (nce =? pe)%nat then buf else rp_move exp_len pe nce buf), (nce + exp_len)%nat)
        | None => (buf, nce)
        end in
      let res :=
        match sign with
        | Some sg =>
            if (at_ buf 1 =? 48) && negb (at_ buf 2 =? 46)
            then slice (set_nth 1 sg buf) 1 real_end
            else slice (set_nth 0 sg buf) 0 real_end
        | None =>
            if (at_ buf 0 =? 48) && negb (at_ buf 1 =? 46)
            then slice buf 1 real_end
            else slice buf 0 real_end
        end in
      (res, (pos_dot <? nce)%nat, match sc_exp st with Some _ => true | None => false end)
  end.

(* dtoa_short::write for f32 *)
Definition dtoa_short_f32 (b : N) : str * bool * bool := restrict_prec (dtoa_f32 b) 6.

(* ---------------------------------------------------------------- cssparser write_numeric *)


Definition write_numeric (value : N) (int_value : option Z) (has_sign : bool) : str :=
  (* infinities (e.g. 3e38rpx * 100) reach dtoa's `format_finite`, which prints them as if the
     exponent field 255 were an ordinary exponent (2^128); the model does the same *)
  (if has_sign && negb (f_sign value) then [43] else []) ++
  (if f_is_zero value && f_sign value then
     [45; 48] ++
     (match int_value with None => [46; 48] | Some _ => [] end)
   else
     let '(txt, dp, sci) := dtoa_short_f32 value in
     txt ++
     (match int_value with
      | None => if f_is_integral value && negb dp && negb sci then [46; 48] else []
      | Some _ => []
      end)).
