(* Source positions: (line, UTF-16 column) bookkeeping of ParseState (parse/mod.rs) and of the
   Stringifier (stringify/mod.rs), over code-point lists; and the decoder used to validate
   locations. Offsets are code-point indices. *)
From GE Require Export Model.Str.

Record pos := { p_line : N; p_col : N }.
Definition pos0 : pos := {| p_line := 0; p_col := 0 |}.

Definition utf16_len (c : N) : N := if c <? 65536 then 1 else 2.

(* ParseState::next *)
Definition advance (p : pos) (c : N) : pos :=
  if c =? 10 then {| p_line := p_line p + 1; p_col := 0 |}
  else {| p_line := p_line p; p_col := p_col p + utf16_len c |}.

Definition advance_str (p : pos) (s : str) : pos := fold_left advance s p.

(* the position after the first k code points of s *)
Definition position_of_offset (s : str) (k : nat) : pos := advance_str pos0 (firstn k s).

(* ParseState::skip_bytes / Stringifier::write_str : count the line breaks of the skipped text,
   then either restart the column after the last one or add the UTF-16 length *)
Definition count_nl (s : str) : N := fold_left (fun n c => if c =? 10 then n + 1 else n) s 0.
Fixpoint after_last_nl (s : str) (cur : str) : str :=   (* text after the last '\n' (cur = reversed tail so far) *)
  match s with
  | [] => rev cur
  | c :: r => if c =? 10 then after_last_nl r [] else after_last_nl r (c :: cur)
  end.
Definition utf16_length (s : str) : N := fold_left (fun n c => n + utf16_len c) s 0.
Definition skip_text (p : pos) (skipped : str) : pos :=
  let nl := count_nl skipped in
  if 0 <? nl then {| p_line := p_line p + nl; p_col := utf16_length (after_last_nl skipped []) |}
  else {| p_line := p_line p; p_col := p_col p + utf16_length skipped |}.

(* decoding a (line, column) pair: the code-point offset it denotes, if it exists in s *)
Fixpoint find_col (s : str) (col : N) (k : nat) (fuel_col : N) : option nat :=
  (* fuel_col = column reached so far *)
  if fuel_col =? col then Some k
  else match s with
       | [] => None
       | c :: r => if c =? 10 then None
                   else if col <? fuel_col + utf16_len c then None   (* inside a surrogate pair *)
                   else find_col r col (S k) (fuel_col + utf16_len c)
       end.

Fixpoint find_line (s : str) (line : N) (k : nat) : option (str * nat) :=
  (* the text starting at the given line and its offset *)
  if line =? 0 then Some (s, k)
  else match s with
       | [] => None
       | c :: r => if c =? 10 then find_line r (line - 1) (S k) else find_line r line (S k)
       end.

Definition offset_of_position (s : str) (p : pos) : option nat :=
  match find_line s (p_line p) 0 with
  | Some (rest, k) => find_col rest (p_col p) k 0
  | None => None
  end.

(* ---- the Stringifier as a state machine over (output, line, col, map entries) ---- *)
Record sm_entry := { e_dst : pos; e_src : pos; e_name : option str }.
Record sst := { o_text : str; o_pos : pos; o_map : list sm_entry }.
Definition sst0 : sst := {| o_text := []; o_pos := pos0; o_map := [] |}.

Inductive sop := WStr (s : str) | WToken (dst_text : str) (name : option str) (src : pos).

Definition sstep (st : sst) (op : sop) : sst :=
  match op with
  | WStr s => {| o_text := o_text st ++ s; o_pos := skip_text (o_pos st) s; o_map := o_map st |}
  | WToken t name src =>
      {| o_text := o_text st ++ t; o_pos := skip_text (o_pos st) t;
         o_map := o_map st ++ [{| e_dst := o_pos st; e_src := src; e_name := name |}] |}
  end.
Definition srun (ops : list sop) : sst := fold_left sstep ops sst0.

Definition pos_leb (a b : pos) : bool :=
  (p_line a <? p_line b) || ((p_line a =? p_line b) && (p_col a <=? p_col b)).
