(* Denotation of the l-value paths of Model/ExprGen.v (C11): the list of property keys an
   analysed path names under given values of the hoisted variables, reading the data object from
   its root. A conditional head denotes the path of the branch the hoisted condition selects; a
   dynamic index denotes the key its hoisted value converts to. *)
From GE Require Export Model.Upt.

Section PathDen.
  Variable hv : str -> option val.

  Definition tail_key (t : ptail) : option str :=
    match t with
    | TStatic k => Some k
    | TIndirect i => zkey (hv i)
    end.

  Fixpoint tail_keys (l : list ptail) : option (list str) :=
    match l with
    | [] => Some []
    | t :: r => match tail_key t, tail_keys r with
                | Some k, Some ks => Some (k :: ks)
                | _, _ => None
                end
    end.

  Fixpoint path_den (p : ppath) : option (list str) :=
    match p with
    | PPath h tail =>
        match head_den h, tail_keys tail with
        | Some a, Some b => Some (a ++ b)
        | _, _ => None
        end
    end
  with head_den (h : phead) : option (list str) :=
    match h with
    | HIdent x => Some [x]
    | HCond i (PRes (Some pt) _) (PRes (Some pf) _) => if hv_truthy hv i then path_den pt else path_den pf
    | HCond i (PRes (Some pt) _) (PRes None _) => if hv_truthy hv i then path_den pt else None
    | HCond i (PRes None _) (PRes (Some pf) _) => if hv_truthy hv i then None else path_den pf
    | _ => None
    end.
End PathDen.

Definition get_path (d : val) (ks : list str) : option val := fold_left getp ks (Some d).
